"""C04 — truthful over any history of prepare / query / update / compress / pickle.
Seeded histories on real indexes (dense float metrics and bit-packed, tree_init, low_memory).  After every
operation the real object is compared with the Lean life-cycle model (row count, existence of _vertex_order,
compressed flag, error kind, `_raw_data == logical[stored order]`), and the C01 / C02 predicates are evaluated
against the model's logical dataset (replaced values, appended rows)."""
import sys, os, pickle, warnings
sys.path.insert(0, os.path.dirname(os.path.dirname(os.path.abspath(__file__))))
from harness.common import *
setup_numba_cache()
warnings.filterwarnings("ignore")
import numpy as np, numba
from pynndescent import NNDescent
from harness import api, oracles

METRICS = [("euclidean", "dense32"), ("cosine", "dense32"), ("bit_hamming", "bits"), ("manhattan", "dense64"),
           ("bit_jaccard", "bits"), ("correlation", "dense32"), ("dot", "dense32"), ("hellinger", "dense32")]


def err_kind(e):
    if isinstance(e, ValueError) and "compressed" in str(e):
        return "ValueError:compressed"
    if isinstance(e, ValueError) and "updated_indices must be row numbers" in str(e):
        return "ValueError:index-range"
    return type(e).__name__


def gen_history(rng, length):
    ops = []
    for _ in range(length):
        r = rng.random()
        if r < 0.18:
            ops.append(("prepare",))
        elif r < 0.40:
            ops.append(("query", int(rng.choice([1, 3, 7, 12]))))
        elif r < 0.55:
            ops.append(("update", int(rng.choice([1, 4, 15])), 0))
        elif r < 0.70:
            ops.append(("update", 0, int(rng.choice([1, 3, 8]))))
        elif r < 0.78:
            ops.append(("update", int(rng.choice([1, 6])), int(rng.choice([1, 4]))))
        elif r < 0.82:
            ops.append(("update-bad", int(rng.choice([0, 2])), str(rng.choice(["high", "negative"]))))
        elif r < 0.86:
            ops.append(("pickle",))
        elif r < 0.90:
            ops.append(("dump-keep",))
        else:
            ops.append(("compress",))
    return ops


def check_history(res, rng, metric, kind, length, ops=None):
    n = int(rng.choice([25, 60, 110])); k = int(rng.choice([3, 6])); dim = 4 if kind != "bits" else 3
    X, L0 = api.gen_dataset(rng, metric, kind, n, dim)
    for t in range(0, min(n - 1, 12), 2):                 # exact twins: a point lists its twin at distance 0 (possibly in column 0)
        X[t + 1] = X[t]; L0[t + 1] = L0[t]
    kw = api.metric_kwds(metric, rng, dim)
    cfg = {"tree_init": bool(rng.integers(4) > 0), "low_memory": bool(rng.integers(2)), "seed": int(rng.integers(10 ** 6))}
    ops = gen_history(rng, length) if ops is None else ops
    case = {"metric": metric, "kind": kind, "n": n, "k": k, "cfg": cfg, "ops": [list(o) for o in ops], "data_seed": "derived from VERIF_SEED"}
    key = "history:%s:%s" % (kind, metric)
    idx = NNDescent(X, metric=metric, metric_kwds=kw, n_neighbors=k, random_state=cfg["seed"],
                    tree_init=cfg["tree_init"], low_memory=cfg["low_memory"])
    content = {(i, 0): np.asarray(L0[i]) for i in range(n)}     # (id, version) -> row content (logical, as the caller gave it)
    logical = [(i, 0) for i in range(n)]
    model_ops, observed = [], []
    done = []

    def vo_tokens():
        return " ".join(str(int(v)) for v in idx._vertex_order) if hasattr(idx, "_vertex_order") else ""

    for op in ops:
        err = None
        answers = None
        if op[0] == "prepare":
            try:
                idx.prepare()
            except Exception as e:  # noqa
                err = err_kind(e)
            model_ops.append("prepare " + vo_tokens())
        elif op[0] == "query":
            try:
                idx.prepare()
                model_ops.append("prepare " + vo_tokens()); observed.append(None)
                Q, QL = api.gen_dataset(rng, metric, kind, 6, dim)
                kq = op[1]
                answers = (QL, kq, idx.query(Q, k=kq, epsilon=float(rng.choice([0.0, 0.1, 0.3]))))
            except Exception as e:  # noqa
                err = err_kind(e)
                if len(model_ops) == len(observed):
                    model_ops.append("prepare " + vo_tokens()); observed.append(None)
            model_ops.append("query")
        elif op[0] == "update":
            nf, nr = op[1], op[2]
            cur_n = len(logical)
            fresh = fresh_l = None; upd = upd_l = None; repl = []
            if nf:
                fresh, fresh_l = api.gen_dataset(rng, metric, kind, nf, dim)
            if nr:
                repl = sorted(set(int(v) for v in rng.integers(0, cur_n, nr)) | {int(2 * rng.integers(0, 6))})   # always one twin
                repl = [repl[i] for i in rng.permutation(len(repl))]       # callers list the rows in any order; rows pair by position
                upd, upd_l = api.gen_dataset(rng, metric, kind, len(repl), dim)
            stray = None
            if len(op) > 3 and op[3] == "stray" and not nr:
                # row numbers WITHOUT replacement rows: documented as "will be ignored" (a warning) - an append-only update
                stray = [int(v) for v in rng.integers(0, cur_n, 3)]
            try:
                idx.update(xs_fresh=fresh, xs_updated=upd, updated_indices=repl if nr else stray)
            except Exception as e:  # noqa
                err = err_kind(e)
            if err is None:
                for j, i in enumerate(repl):
                    pid, ver = logical[i]
                    logical[i] = (pid, ver + 1); content[logical[i]] = np.asarray(upd_l[j])
                for j in range(nf):
                    logical.append((cur_n + j, 0)); content[(cur_n + j, 0)] = np.asarray(fresh_l[j])
            model_ops.append("update %d | %s | %s" % (nf, " ".join(map(str, repl)), vo_tokens()))
            if err is None and (nf or repl):
                # the new / replaced rows are part of the index: NN-descent gave them neighbours (a query probe is not used here:
                # with random seeding and tiny k the approximate search may legitimately miss them)
                touched = list(repl) + list(range(cur_n, cur_n + nf))
                g_i = idx._neighbor_graph[0]
                if g_i.shape[0] != len(logical):
                    res.violation(key + ":graph-shape", "after %s: the neighbour graph has %d rows for %d logical points"
                                  % (list(done) + [list(op)], g_i.shape[0], len(logical)), case)
                    return
                empty = [i for i in touched if not (g_i[i] >= 0).any()]
                if len(logical) > 2 and len(empty) * 2 > len(touched):
                    res.violation(key + ":new-rows-empty", "after %s: %d of %d appended / replaced points have an empty (all -1) neighbour row"
                                  % (list(done) + [list(op)], len(empty), len(touched)), case)
                    return
        elif op[0] == "update-bad":
            # replacement rows addressed by an invalid row number: must be refused with the index untouched
            cur_n = len(logical)
            bad = cur_n + 2 if op[2] == "high" else -1
            repl = [1, bad] if cur_n > 1 else [bad]
            upd, _ = api.gen_dataset(rng, metric, kind, len(repl), dim)
            fresh = api.gen_dataset(rng, metric, kind, op[1], dim)[0] if op[1] else None
            try:
                idx.update(xs_fresh=fresh, xs_updated=upd, updated_indices=repl)
                err = "accepted-invalid-index"
            except Exception as e:  # noqa
                err = err_kind(e)
            # the model takes natural numbers: an invalid index is encoded as an index past the end
            model_ops.append("update %d | %s | %s" % (op[1], " ".join(str(i if i >= 0 else cur_n + 7) for i in repl), vo_tokens()))
        elif op[0] == "pickle":
            try:
                idx = pickle.loads(pickle.dumps(idx))
            except Exception as e:  # noqa
                err = err_kind(e)
            model_ops.append("pickle " + vo_tokens())
        elif op[0] == "dump-keep":
            # serialise and keep working with the ORIGINAL object ("the original remains usable afterwards")
            try:
                pickle.dumps(idx)
            except Exception as e:  # noqa
                err = err_kind(e)
            model_ops.append("pickle " + vo_tokens())
        elif op[0] == "compress":
            try:
                idx.compress_index()
            except Exception as e:  # noqa
                err = err_kind(e)
            model_ops.append("compress " + vo_tokens())
        done.append(op)
        observed.append({"err": err, "n": int(idx._raw_data.shape[0]), "vo": hasattr(idx, "_vertex_order"),
                         "graph": hasattr(idx, "_neighbor_graph"), "comp": bool(idx.compressed),
                         "raw": np.asarray(idx._raw_data).copy()})
        res.count("op_" + op[0] + ("_err:" + err if err else ""))
        # ---- property predicates against the logical dataset --------------------------------
        Lnow = np.stack([content[p] for p in logical])
        if hasattr(idx, "_neighbor_graph") and err is None:
            g = idx.neighbor_graph
            probs = oracles.graph_problems(Lnow, k, metric, kw, g[0], g[1])
            if probs:
                res.violation(key + ":graph-" + probs[0][0], "after %s: %s" % (list(done), probs[0][1]), case)
                return
        if answers is not None:
            QL, kq, (ai, ad) = answers
            probs = oracles.answer_problems(Lnow, QL, kq, metric, kw, ai, ad)
            if probs:
                res.violation(key + ":answer-" + probs[0][0], "after %s: %s" % (list(done), probs[0][1]), case)
                return
        if err not in (None, "ValueError:compressed", "ValueError:index-range"):
            res.violation(key + ":exception", "operation %s raised %s after %s" % (list(op), err, list(done[:-1])), case)
            return
    # ---- correspondence with the life-cycle model -------------------------------------------
    model = run_driver(["idxrun %d ; %s" % (n, " ; ".join(model_ops))])[0].split(" ; ")
    has_upd_after_prep = any(o[0] == "update" for i, o in enumerate(ops) if any(p[0] in ("prepare", "query", "pickle") for p in ops[:i]))
    res.case((metric, kind, n, k, tuple(sorted(cfg.items())), tuple(ops), np.asarray(L0).tobytes()), nontrivial=has_upd_after_prep,
             sample={"metric": metric, "kind": kind, "n": n, "ops": [list(o) for o in ops], "model_last": model[-1][:120]})
    res.traces += 1
    for i, (m, o) in enumerate(zip(model, observed)):
        if o is None:
            continue
        f = dict(t.split("=", 1) for t in m.split(" ")[1:])
        status = m.split(" ")[0]
        exp_err = None if status == "ok" else status[4:]
        got = {"err": o["err"], "n": o["n"], "vo": o["vo"], "graph": o["graph"], "comp": o["comp"]}
        want = {"err": exp_err, "n": int(f["n"]), "vo": f["vo"] == "1", "graph": f["graph"] == "1", "comp": f["comp"] == "1"}
        if got != want:
            res.corr_fail("index_lifecycle", {**case, "op_index": i, "model_op": model_ops[i][:60]}, want, got)
            return
        ids = [tuple(int(x) for x in t.split(".")) for t in f["raw"].split(",") if t]
        exp_raw = np.stack([content[p] for p in ids]) if ids else np.zeros((0,))
        raw = o["raw"]
        if metric == "dot":
            continue      # the index stores normalised rows; compared through the distance predicates instead
        if raw.shape != exp_raw.shape or not np.array_equal(raw.astype(np.float64), exp_raw.astype(np.float64)):
            res.corr_fail("index_raw_data_order", {**case, "op_index": i, "model_op": model_ops[i][:60]})
            res.violation(key + ":raw-data", "after op %d (%s) _raw_data is not the logical dataset in vertex order" % (i, model_ops[i][:40]), case)
            return


def run(res, tier, seed, search):
    rng = np.random.default_rng(seed + 404)
    res.rule = ("random histories over {prepare, query(k), update fresh / replace / both, pickle, compress_index} on dense float and "
                "bit-packed indexes x tree_init x low_memory; after every op: life-cycle model comparison + C01/C02 predicates against the "
                "logical dataset; non-trivial = an update after a prepare/query/pickle; distinct = hash of (data, config, ops)")
    nh, length, nm = (7, 6, 3) if tier == "quick" else (30, 12, len(METRICS))
    if search:
        nh *= 3
    # fixed plans, every seed: the normalising metric through every kind of update (one call that replaces AND appends included);
    # two updates in a row on a prepared index (no query in between); update as the very first operation
    check_history(res, rng, "dot", "dense32", 0, ops=[("update", 3, 2), ("query", 3), ("update", 4, 0), ("update", 0, 3), ("query", 7), ("pickle",), ("query", 3)])
    check_history(res, rng, "euclidean", "dense32", 0, ops=[("prepare",), ("update", 2, 3), ("update", 3, 0), ("query", 7), ("update", 0, 2), ("update", 1, 1), ("query", 3)])
    # an update that appends and replaces nothing (on a prepared index), then a round trip and a real update; stray row numbers
    check_history(res, rng, "euclidean", "dense32", 0, ops=[("query", 3), ("update", 0, 0), ("pickle",), ("query", 7), ("update", 2, 0, "stray"), ("query", 3), ("update", 0, 0), ("update", 1, 2), ("query", 7)])
    # updates only, never prepared: whatever the accessors keep between two reads must not outlive an update
    check_history(res, rng, "euclidean", "dense32", 0, ops=[("update", 2, 0), ("update", 0, 2), ("update", 1, 1), ("update", 0, 0), ("query", 3)])
    # row numbers that are not rows of the current data (past the end; negative) are refused, before and after a prepare, with the index untouched
    check_history(res, rng, "euclidean", "dense32", 0, ops=[("update-bad", 0, "negative"), ("update-bad", 2, "high"), ("query", 3), ("update-bad", 1, "negative"),
                                                            ("update", 1, 2), ("update-bad", 0, "high"), ("query", 7)])
    start = (seed * nm) % len(METRICS)
    for i in range(nh):
        metric, kind = METRICS[(start + i % nm) % len(METRICS)]
        check_history(res, rng, metric, kind, length)


if __name__ == "__main__":
    std_main("C04", run)
