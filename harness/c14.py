"""C14 — random-projection trees partition the data and every descent ends in a leaf.

Kernel level, on the REAL code (`rp_trees.make_dense_tree / make_sparse_tree / make_dense_bit_tree`,
`make_forest`, `rptree_leaf_array`, `convert_tree_format`, `search_flat_tree` family, `select_side*`):

* property predicates on the real linked tree (post-order lists form a tree; every point in exactly
  one leaf; a leaf larger than leaf_size only at the depth limit), on the real leaf array, on the
  real flattened tree (indices a permutation, leaf rows tile [0,n), inner rows (node+1, larger
  in-range), leaf slices = linked leaves) and on routing (terminates, returns one of the leaves);
* correspondence with the Lean model (`Model/RPTree.lean`) through the driver, array for array:
  `buildTree` fed with the side decisions read off the real tree, `linearize`, `leafArray`,
  `recursiveConvert` (incl. the returned `(node_num, leaf_start)`), `route` with the side
  decisions recomputed by the harness (real `select_side*` on a copy of the generator state, and,
  when no margin is near the `EPS` band, margins recomputed in numpy).

API level (a few indexes per run, JIT-bound): `NNDescent._rp_forest` (same predicates), `_vertex_order` (a
permutation), every tree of `_search_forest` after `prepare()` / `_init_search_graph()` (permutation, rows
are one pre-order tree, tiling), the first search tree's leaves read through `_vertex_order` are the leaves
of a built tree, and the bounds returned by the real `tree_search_closure` are a leaf row (and equal
`route` on the same side decisions).  Observed and only counted (not forbidden by the property):
`resort_tree_indices` does not preserve the leaves of search trees other than the first.

Memory safety is out of scope (numba has no bounds checks): sparse routing is only run with
non-empty queries through trees whose inner hyperplanes are all non-empty (`sparse_select_side`
and `sparse_dot_product` read element 0 / -1 unconditionally), and the real search kernels are
only called on a flat tree that passed the structural predicate.
"""
import sys, os, random, json
sys.path.insert(0, os.path.dirname(os.path.dirname(os.path.abspath(__file__))))
from harness.common import *
setup_numba_cache()
import numpy as np
import scipy.sparse as sp
from pynndescent import rp_trees as rp

KINDS = ["de", "da", "bit", "se", "sa"]          # dense euclidean / dense angular / bit-packed / sparse eucl. / sparse angular
SITE = {"de": "dense_euclidean", "da": "dense_angular", "bit": "bit_angular", "se": "sparse_euclidean", "sa": "sparse_angular"}
STYLES = ["gauss", "smallint", "fewdistinct", "identical", "zero", "collinear"]
NS = [0, 1, 2, 3, 5, 8, 13, 17, 40, 40, 100, 100, 257, 257]
LEAF_SIZES = [1, 1, 2, 2, 3, 5, 10, 30]
MAX_DEPTHS = [0, 1, 2, 3, 5, 8, 20, 200, 200, 200, 200]
POPCNT = np.array([bin(i).count("1") for i in range(256)], dtype=np.int64)
EPS = 1e-8


# ---------------------------------------------------------------------------------------------
# generators (everything is a function of the case dict, so a case replays from its parameters)

def gen_dense(style, n, dim, dseed):
    g = np.random.default_rng(dseed)
    if style == "gauss":
        X = g.standard_normal((n, dim))
    elif style == "smallint":
        X = g.integers(-2, 3, size=(n, dim)).astype(float)
    elif style == "fewdistinct":
        base = g.integers(-3, 4, size=(3, dim)).astype(float)
        X = base[g.integers(0, 3, size=n)] if n else np.zeros((0, dim))
    elif style == "identical":
        X = np.tile(g.integers(1, 5, size=(1, dim)).astype(float), (n, 1))
    elif style == "zero":
        X = np.zeros((n, dim))
    elif style == "collinear":
        v = g.integers(1, 4, size=dim).astype(float)
        c = g.integers(-2, 3, size=dim).astype(float)
        X = np.outer(g.integers(-5, 6, size=n).astype(float), v) + c
    else:
        raise ValueError(style)
    return np.ascontiguousarray(X.reshape(n, dim), dtype=np.float32)


def gen_bits(style, n, dim, dseed):
    g = np.random.default_rng(dseed)
    if style in ("gauss", "smallint"):
        X = g.integers(0, 256, size=(n, dim))
    elif style == "collinear":                       # nested supports
        X = np.array([[(1 << int(g.integers(0, 9))) - 1 for _ in range(dim)] for _ in range(n)]).reshape(n, dim)
    elif style == "fewdistinct":
        base = g.integers(0, 256, size=(3, dim))
        X = base[g.integers(0, 3, size=n)] if n else np.zeros((0, dim))
    elif style == "identical":
        X = np.tile(g.integers(0, 256, size=(1, dim)), (n, 1))
    else:
        X = np.zeros((n, dim))
    return np.ascontiguousarray(X.reshape(n, dim), dtype=np.uint8)


def gen_sparse(style, n, dim, dseed):
    X = gen_dense(style, n, dim, dseed).astype(np.float64)
    g = np.random.default_rng(dseed + 1)
    if style in ("gauss", "smallint"):
        X = X * (g.random((n, dim)) < 0.5)
    M = sp.csr_matrix(X.astype(np.float32))
    M.eliminate_zeros(); M.sort_indices()
    return M


def gen_case(rng, kind, tier):
    style = rng.choice(STYLES)
    n = rng.choice(NS if tier == "quick" else NS + [600, 1500])
    if kind == "bit":
        dim = rng.choice([1, 2, 4])
    elif kind in ("se", "sa"):
        dim = rng.choice([3, 6, 12])
    else:
        dim = rng.choice([1, 2, 5])
    return {"kind": kind, "style": style, "n": n, "dim": dim, "leaf_size": rng.choice(LEAF_SIZES),
            "max_depth": rng.choice(MAX_DEPTHS), "dseed": rng.randrange(1 << 30),
            "rng_state": [rng.randrange(-2**31 + 2, 2**31 - 2) for _ in range(3)],
            "qseed": rng.randrange(1 << 30)}


def make_data(case):
    k = case["kind"]
    if k in ("de", "da"):
        return gen_dense(case["style"], case["n"], case["dim"], case["dseed"])
    if k == "bit":
        return gen_bits(case["style"], case["n"], case["dim"], case["dseed"])
    return gen_sparse(case["style"], case["n"], case["dim"], case["dseed"])


def build_real_tree(case, data, state):
    k = case["kind"]; ls = case["leaf_size"]; md = case["max_depth"]
    if k == "de":
        return rp.make_dense_tree(data, state, ls, False, md)
    if k == "da":
        return rp.make_dense_tree(data, state, ls, True, md)
    if k == "bit":
        return rp.make_dense_bit_tree(data, state, ls, True, md)
    return rp.make_sparse_tree(data.indices, data.indptr, data.data, state, ls, k == "sa", md)


# ---------------------------------------------------------------------------------------------
# the real linked tree -> nested Python structure

def decode_linked(tree):
    children = [(int(c[0]), int(c[1])) for c in tree.children]
    indices = [[int(v) for v in a] for a in tree.indices]
    return children, indices


def linked_structure_problem(children, indices):
    """The post-order lists must describe a tree rooted at the last entry."""
    m = len(children)
    if m == 0 or len(indices) != m:
        return "empty or ragged node lists"
    refs = [0] * m
    for i, (a, b) in enumerate(children):
        if (a < 0) != (b < 0):
            return "node %d has one negative child" % i
        if a < 0:
            if (a, b) != (-1, -1):
                return "leaf %d not encoded (-1,-1)" % i
        else:
            if not (a < b < i):
                return "node %d children (%d,%d) not below it in post-order" % (i, a, b)
            refs[a] += 1; refs[b] += 1
            if indices[i] != [-1]:
                return "inner node %d has point_indices %r" % (i, indices[i][:5])
    if refs[m - 1] != 0 or any(r != 1 for r in refs[:-1]):
        return "a node is referenced %s times" % sorted(set(refs))
    return None


def nested(children, indices, node):
    """('L', idx) | ('N', left, right) — iterative to stay clear of the recursion limit."""
    out = {}
    stack = [(node, False)]
    while stack:
        v, done = stack.pop()
        a, b = children[v]
        if a < 0:
            out[v] = ("L", indices[v])
        elif done:
            out[v] = ("N", out[a], out[b])
        else:
            stack.append((v, True)); stack.append((a, False)); stack.append((b, False))
    return out[node]


def walk(t):
    """pre-order (path, depth, node) with an explicit stack"""
    stack = [(t, "", 0)]
    while stack:
        v, path, d = stack.pop()
        yield path, d, v
        if v[0] == "N":
            stack.append((v[2], path + "1", d + 1)); stack.append((v[1], path + "0", d + 1))


def tokens(t):
    out = []
    for _, _, v in walk(t):
        if v[0] == "N":
            out.append("N")
        else:
            out.append("L %d" % len(v[1]) + "".join(" %d" % x for x in v[1]))
    return " ".join(out)


def points_under(t):
    return [x for _, _, v in walk(t) if v[0] == "L" for x in v[1]]


def leaves_with_depth(t):
    return [(d, v[1]) for _, d, v in walk(t) if v[0] == "L"]


# ---------------------------------------------------------------------------------------------
# property predicates on REAL outputs (each returns None or (kind, description))

def pred_linked(case, t):
    n, ls, md = case["n"], case["leaf_size"], max(case["max_depth"], 0)
    lv = leaves_with_depth(t)
    pts = [x for _, l in lv for x in l]
    if sorted(pts) != list(range(n)):
        cnt = {}
        for x in pts:
            cnt[x] = cnt.get(x, 0) + 1
        bad = [x for x in range(n) if cnt.get(x, 0) != 1][:5] + [x for x in cnt if not 0 <= x < n][:5]
        return "partition", "points not in exactly one leaf: %r" % bad
    for d, l in lv:
        if d > md:
            return "depth", "leaf at depth %d > max_depth %d" % (d, md)
        if len(l) > ls and d != md:
            return "leaf_size", "leaf of %d points > leaf_size %d at depth %d < max_depth %d" % (len(l), ls, d, md)
    return None


def pred_leaf_array(case, t, arr):
    lv = [l for _, l in leaves_with_depth(t)]
    if arr.ndim != 2 or arr.shape[0] != len(lv):
        return "leaf_array", "leaf array has shape %r for %d leaves" % (arr.shape, len(lv))
    seen = []
    for r, l in zip(arr.tolist(), lv):
        k = len([x for x in r if x >= 0])
        if any(x >= 0 for x in r[k:]) or any(x != -1 for x in r[k:]):
            return "leaf_array", "row is not <points> then -1 padding: %r" % r[:12]
        if r[:k] != l:
            return "leaf_array", "row %r is not the leaf %r" % (r[:12], l[:12])
        seen += r[:k]
    if sorted(seen) != list(range(case["n"])):
        return "leaf_array", "rows do not list every point exactly once"
    return None


def pred_flat(case, t, F):
    """returns (problem or None, leaf rows [(node, start, end)])"""
    bad, rows = pred_flat_shape(case["n"], F)
    if bad:
        return bad, rows
    ind = np.asarray(F.indices)
    lv = [l for _, l in leaves_with_depth(t)]
    if [ind[s:e].tolist() for (_, s, e) in rows] != lv:
        return ("flat_leaves", "leaf slices of indices differ from the linked tree's leaves"), rows
    return None, rows


# ---------------------------------------------------------------------------------------------
# routing

def gen_queries(case, data, g):
    """list of (label, query) — query is a dense row, or (inds, vals) for sparse"""
    k, n, dim = case["kind"], case["n"], case["dim"]
    qs = []
    if k in ("de", "da"):
        qs.append(("zero", np.zeros(dim, dtype=np.float32)))
        qs.append(("random", g.standard_normal(dim).astype(np.float32)))
        qs.append(("randint", g.integers(-3, 4, size=dim).astype(np.float32)))
        for i in g.integers(0, n, size=min(n, 3)) if n else []:
            qs.append(("data", np.ascontiguousarray(data[int(i)])))
        if n >= 2:
            i, j = g.integers(0, n, size=2)
            qs.append(("midpoint", ((data[int(i)].astype(np.float64) + data[int(j)]) / 2).astype(np.float32)))
    elif k == "bit":
        qs.append(("zero", np.zeros(dim, dtype=np.uint8)))
        qs.append(("ones", np.full(dim, 255, dtype=np.uint8)))
        qs.append(("random", g.integers(0, 256, size=dim).astype(np.uint8)))
        for i in g.integers(0, n, size=min(n, 3)) if n else []:
            qs.append(("data", np.ascontiguousarray(data[int(i)])))
    else:
        for _ in range(2):
            m = int(g.integers(1, dim + 1))
            inds = np.sort(g.choice(dim, size=m, replace=False)).astype(np.int32)
            qs.append(("random", (inds, g.integers(-3, 4, size=m).astype(np.float32) + np.float32(0.5))))
        for i in g.integers(0, n, size=min(n, 4)) if n else []:
            i = int(i)
            inds = data.indices[data.indptr[i]:data.indptr[i + 1]].astype(np.int32)
            if inds.shape[0]:
                qs.append(("data", (inds, data.data[data.indptr[i]:data.indptr[i + 1]].astype(np.float32))))
    return qs


def real_side(kind, F, node, q, state):
    if kind in ("de", "da"):
        return int(rp.select_side(F.hyperplanes[node], F.offsets[node], q, state))
    if kind == "bit":
        return int(rp.select_side_bit(F.hyperplanes[node], F.offsets[node], q, state))
    return int(rp.sparse_select_side(F.hyperplanes[node], F.offsets[node], q[0], q[1], state))


def real_search(kind, F, q, state):
    if kind in ("de", "da"):
        return rp.search_flat_tree(q, F.hyperplanes, F.offsets, F.children, F.indices, state)
    if kind == "bit":
        return rp.search_flat_bit_tree(q, F.hyperplanes, F.offsets, F.children, F.indices, state)
    return rp.search_sparse_flat_tree(q[0], q[1], F.hyperplanes, F.offsets, F.children, F.indices, state)


def numpy_side_table(kind, F, q):
    """side of every node from margins recomputed in numpy, or None when some inner margin is
    too close to the EPS band to be decided independently of float32 summation order."""
    ch = np.asarray(F.children)
    m = ch.shape[0]
    inner = ch[:, 0] > 0
    if kind in ("de", "da"):
        H = np.asarray(F.hyperplanes, dtype=np.float64)
        terms = H * q.astype(np.float64)[None, :]
        margin = np.asarray(F.offsets, dtype=np.float64) + terms.sum(axis=1)
        scale = np.abs(np.asarray(F.offsets, dtype=np.float64)) + np.abs(terms).sum(axis=1)
        if np.any(inner & (np.abs(margin) <= 1e-4 * (1.0 + scale))):
            return None
    elif kind == "bit":
        H = np.asarray(F.hyperplanes); d = q.shape[0]
        margin = (POPCNT[H[:, :d] & q[None, :]].sum(axis=1) - POPCNT[H[:, d:] & q[None, :]].sum(axis=1)).astype(np.float64)
        if np.any(inner & (margin == 0)):
            return None
    else:
        H = np.asarray(F.hyperplanes)
        dense_q = np.zeros(H.shape[2] + 1, dtype=np.float64)
        dense_q[q[0]] = q[1]
        margin = np.zeros(m); scale = np.zeros(m)
        for k in np.nonzero(inner)[0]:
            sz = int((H[k, 0] >= 0).sum())
            hi = H[k, 0, :sz].astype(np.int64); hv = H[k, 1, :sz].astype(np.float64)
            t = hv * dense_q[hi]
            margin[k] = float(F.offsets[k]) + t.sum(); scale[k] = abs(float(F.offsets[k])) + np.abs(t).sum()
        if np.any(inner & (np.abs(margin) <= 1e-4 * (1.0 + scale))):
            return None
    return [0 if (not inner[k] or margin[k] > 0) else 1 for k in range(m)]


# ---------------------------------------------------------------------------------------------
def pred_flat_shape(n, F):
    """permutation / inner rows / tiling of a flat tree, without reference to a linked tree"""
    ch = np.asarray(F.children); ind = np.asarray(F.indices)
    m = ch.shape[0]
    if sorted(ind.tolist()) != list(range(n)):
        return ("flat_perm", "indices is not a permutation of 0..n-1: %r" % ind[:12].tolist()), []
    rows = []
    for k in range(m):
        c0, c1 = int(ch[k, 0]), int(ch[k, 1])
        if c0 > 0:
            if not (c0 == k + 1 and k + 1 < c1 < m):
                return ("flat_children", "inner row %d = (%d,%d), n_nodes %d" % (k, c0, c1, m)), []
        else:
            rows.append((k, -c0, -c1))
    # the rows are the pre-order listing of one binary tree: the right child of an inner row is the row
    # right after its left subtree, and the root's subtree is all m rows (so every leaf row is reachable)
    if m == 0:
        return ("flat_children", "no rows"), rows
    end_of = [0] * m                      # end_of[k] = first row after the subtree rooted at k
    for k in range(m - 1, -1, -1):
        c0, c1 = int(ch[k, 0]), int(ch[k, 1])
        if c0 <= 0:
            end_of[k] = k + 1
        else:
            if end_of[k + 1] != c1:
                return ("flat_children", "inner row %d: right child %d is not the row after its left subtree (%d)" % (k, c1, end_of[k + 1])), rows
            end_of[k] = end_of[c1]
    if end_of[0] != m:
        return ("flat_children", "rows reachable from the root end at %d of %d" % (end_of[0], m)), rows
    pos = 0
    for (k, s, e) in rows:
        if s != pos or e < s:
            return ("flat_tiling", "leaf row %d = [%d,%d) does not continue at %d" % (k, s, e, pos)), rows
        pos = e
    if pos != n:
        return ("flat_tiling", "leaf ranges end at %d, n = %d" % (pos, n)), rows
    return None, rows


class Batch:
    """driver commands are collected and run once; `expect` holds what the real code produced"""

    def __init__(self):
        self.lines, self.expect = [], []

    def add(self, name, case, line, impl, post=None):
        """`post` maps the model's output line to the form the real code's result `impl` is given in"""
        self.lines.append(line); self.expect.append((name, case, impl, post))

    def run(self, res):
        if not self.lines:
            return
        out = run_driver(self.lines)
        for (name, case, impl, post), model in zip(self.expect, out):
            res.count("corr:" + name)
            if post is not None:
                model = post(model)
            if model != impl:
                res.corr_fail(name, case, model[:2000], impl[:2000])


def slice_of(indices):
    ind = np.asarray(indices).copy()

    def post(model_line):
        p = model_line.split()
        if len(p) != 3:
            return model_line
        return ints_row(ind[int(p[1]):int(p[2])]) if int(p[1]) >= 0 and int(p[2]) >= 0 else model_line
    return post


def bounds_of(model_line):
    p = model_line.split()
    return " ".join(p[1:]) if len(p) == 3 else model_line


def bar(parts):
    return " | ".join(parts)


def ravel(ch):
    return ints_row(np.asarray(ch).ravel())


def violation(res, case, kind, what):
    res.violation("rptree:%s:%s" % (SITE[case["kind"]], kind), what, case)


def check_tree(res, batch, case, data, tree, state_after=None):
    """all checks for one real linked tree (built with case's leaf_size / max_depth)"""
    kind, n, ls, md = case["kind"], case["n"], case["leaf_size"], case["max_depth"]
    children, indices = decode_linked(tree)
    bad = linked_structure_problem(children, indices)
    if bad:
        violation(res, case, "linked_structure", bad)
        return False
    t = nested(children, indices, len(children) - 1)
    ok = True
    bad = pred_linked(case, t)
    if bad:
        violation(res, case, bad[0], bad[1]); ok = False
    lv = leaves_with_depth(t)
    n_leaves = len(lv)
    res.count("leaves", n_leaves); res.count("nodes", len(children))
    res.count("empty_leaves", sum(1 for _, l in lv if not l))
    res.count("oversize_leaves_at_depth_limit", sum(1 for _, l in lv if len(l) > ls))
    if n_leaves == 1:
        res.count("single_leaf_root")
    tk = tokens(t)

    # buildTree vs make_*_tree: the side decisions are read off the real tree (a node's indices are
    # the sorted union of its leaves — stable partition of arange(n) — which the comparison checks)
    entries = []
    for path, _, v in walk(t):
        if v[0] == "N":
            right = set(points_under(v[2]))
            idx = sorted(points_under(v))
            entries.append("%s %s" % (path or "-", "".join("1" if x in right else "0" for x in idx)))
    batch.add("make_tree_vs_buildTree", case, bar(["rpbuild %d %d %d" % (ls, md, n)] + entries), tk)
    batch.add("linked_form_vs_linearize", case, "rplin | " + tk,
              bar([ints_row([x for c in children for x in c])] + [ints_row(a) for a in indices]))

    # leaf array of this one tree (width = tree.leaf_size)
    arr = rp.rptree_leaf_array((tree,))
    bad = pred_leaf_array(case, t, arr)
    if bad:
        violation(res, case, bad[0], bad[1]); ok = False
    batch.add("leaf_array_vs_leafArray", case, "rpleaves %d | %s" % (ls, tk),
              bar([str(int(tree.leaf_size))] + [ints_row(r) for r in arr]))
    if arr.shape[1] != int(tree.leaf_size):
        violation(res, case, "leaf_array", "width %d != tree.leaf_size %d" % (arr.shape[1], int(tree.leaf_size))); ok = False

    # flattening
    F = rp.convert_tree_format(tree, n, case["dim"])
    bad, rows = pred_flat(case, t, F)
    if bad:
        violation(res, case, bad[0], bad[1]); ok = False
    m = len(children)
    batch.add("convert_tree_format_vs_recursiveConvert", case, "rpconvert %d | %s" % (n, tk),
              bar([ravel(F.children), ints_row(F.indices), "%d %d" % (m - 1, n)]))
    if rows and rows[0][1:] == (0, n) and m == 1:
        res.count("flat_single_leaf_root")
    if bad:
        return False        # do not run the unchecked search kernels on a malformed flat tree

    # routing
    if kind in ("se", "sa"):
        H = np.asarray(F.hyperplanes)
        if np.any((np.asarray(F.children)[:, 0] > 0) & (H[:, 0, 0] < 0)):
            res.count("sparse_routing_skipped_empty_hyperplane")
            return ok
    g = np.random.default_rng(case["qseed"])
    leaves = [l for _, l in lv]
    chrow = ravel(F.children)
    to_slice = slice_of(F.indices)
    for label, q in gen_queries(case, data, g):
        st0 = np.array([int(g.integers(-2**31 + 2, 2**31 - 2)) for _ in range(3)], dtype=np.int64)
        st_real = st0.copy()
        got = np.asarray(real_search(kind, F, q, st_real)).tolist()
        res.count("route_queries"); res.count("route_query_" + label)
        # the harness' own walk with the real select_side on a copy of the generator
        st_walk = st0.copy()
        node, decisions = 0, []
        ch = np.asarray(F.children)
        while ch[node, 0] > 0 and len(decisions) <= m:
            s = real_side(kind, F, node, q, st_walk)
            decisions.append(s)
            node = int(ch[node, 1] if s else ch[node, 0])
        start, end = -int(ch[node, 0]), -int(ch[node, 1])
        qcase = dict(case, query=label, query_state=st0.tolist(),
                     q=(q.tolist() if not isinstance(q, tuple) else [q[0].tolist(), q[1].tolist()]))
        if got not in leaves:
            violation(res, qcase, "route_invalid", "search returned %r which is not a leaf of the tree" % got[:12]); ok = False
        impl = "%d %d %d" % (node, start, end)
        if np.asarray(F.indices)[start:end].tolist() != got:
            res.corr_fail("search_flat_tree_vs_walk", qcase, impl, str(got[:20])); ok = False
        if st_walk.tolist() != st_real.tolist():
            res.corr_fail("search_generator_state", qcase, st_walk.tolist(), st_real.tolist()); ok = False
        if st_real.tolist() != st0.tolist():
            res.count("route_with_coin_flip")
        # the model's (node, start, end) is turned into indices[start:end] and compared with what the REAL search returned
        real_out = ints_row(got)
        batch.add("search_flat_tree_vs_route_steps", qcase,
                  bar(["rproute s %d" % m, chrow, ints_row(decisions)]), real_out, post=to_slice)
        table = numpy_side_table(kind, F, q)
        if table is not None:
            res.count("route_numpy_margins")
            batch.add("search_flat_tree_vs_route_margins", qcase,
                      bar(["rproute n %d" % m, chrow, ints_row(table)]), real_out, post=to_slice)
    return ok


def check_case(res, batch, case):
    data = make_data(case)
    state = np.array(case["rng_state"], dtype=np.int64)
    tree = build_real_tree(case, data, state)
    ok = check_tree(res, batch, case, data, tree)
    m = len(tree.children)
    res.count("kind_" + case["kind"]); res.count("style_" + case["style"])
    res.case((case["kind"], case["style"], case["n"], case["dim"], case["leaf_size"], case["max_depth"],
              case["dseed"], case["rng_state"]), nontrivial=m >= 5,
             sample={k: case[k] for k in ("kind", "style", "n", "dim", "leaf_size", "max_depth")})
    res.traces += 1
    return ok


def check_forest(res, batch, case):
    """make_forest (joblib threads, per-tree generator states drawn from random_state) + rptree_leaf_array"""
    data = make_data(case)
    kind = case["kind"]
    state = np.array(case["rng_state"], dtype=np.int64)
    forest = rp.make_forest(data, case["n_neighbors"], case["n_trees"], case["forest_leaf_size"], state,
                            np.random.RandomState(case["dseed"] % (2**31)), None,
                            kind in ("da", "bit", "sa"), kind == "bit", case["max_depth"])
    res.count("forests")
    if len(forest) != case["n_trees"]:
        violation(res, case, "forest_size", "make_forest returned %d trees for n_trees=%d" % (len(forest), case["n_trees"]))
        return
    eff = case["forest_leaf_size"] if case["forest_leaf_size"] is not None else max(10, case["n_neighbors"])
    tcase = dict(case, leaf_size=eff)
    arr = rp.rptree_leaf_array(forest)
    width = max(int(t.leaf_size) for t in forest)
    rows = []
    for tree in forest:
        children, indices = decode_linked(tree)
        bad = linked_structure_problem(children, indices)
        if bad:
            violation(res, tcase, "linked_structure", bad); return
        t = nested(children, indices, len(children) - 1)
        bad = pred_linked(tcase, t)
        if bad:
            violation(res, tcase, bad[0], bad[1])
        rows += [l + [-1] * (width - len(l)) for _, l in leaves_with_depth(t)]
        res.count("forest_trees")
    if arr.tolist() != rows:
        violation(res, tcase, "forest_leaf_array", "rptree_leaf_array(forest) is not the -1 padded leaves of its trees, tree by tree")
    res.case(("forest", kind, case["style"], case["n"], case["dseed"], case["rng_state"]), nontrivial=len(rows) >= 3 * case["n_trees"])
    res.traces += 1


def gen_forest_case(rng, kind):
    c = gen_case(rng, kind, "quick")
    c["n"] = rng.choice([1, 7, 40, 120, 257])
    c["n_trees"] = rng.choice([1, 3, 5])
    c["n_neighbors"] = rng.choice([3, 15, 30])
    c["forest_leaf_size"] = rng.choice([None, None, 2, 7])
    c["max_depth"] = rng.choice([3, 200, 200])
    c["forest"] = True
    return c


# ---------------------------------------------------------------------------------------------
# API level: the forest an index builds, its search forest after prepare(), its routing closure

API_QUICK = [
    # metric, kind of data, style, n, dim, n_neighbors, n_trees, n_search_trees, leaf_size, max_rptree_depth, full prepare
    ("euclidean", "de", "gauss", 300, 5, 10, 4, 3, None, 200, True),
    ("euclidean", "de", "identical", 70, 3, 5, 3, 1, None, 200, False),
    ("euclidean", "de", "fewdistinct", 120, 3, 5, 3, 2, 12, 4, False),
    ("cosine", "da", "smallint", 250, 4, 8, 3, 2, None, 200, True),
    ("cosine", "da", "zero", 40, 3, 4, 2, 1, None, 6, False),
]
API_THOROUGH = [
    ("euclidean", "se", "gauss", 300, 12, 10, 3, 2, None, 200, True),
    ("cosine", "sa", "smallint", 200, 12, 6, 3, 1, None, 200, True),
    ("bit_jaccard", "bit", "gauss", 200, 4, 8, 3, 2, None, 200, True),
    ("euclidean", "de", "collinear", 500, 2, 15, 6, 4, None, 200, False),
    ("euclidean", "de", "zero", 100, 4, 10, 4, 2, 3, 200, False),
]


def leafsets(leaves):
    return sorted(sorted(l) for l in leaves)


def check_transformer(res, seed):
    """the scikit-learn wrapper hands its tree parameters on: the search forest of a transformer fitted with an explicit
    leaf_size obeys that leaf_size (generic data, nowhere near the depth limit), and tiles the fitted rows"""
    from pynndescent import PyNNDescentTransformer
    for metric, leaf_size, n, k in (("euclidean", 4, 260, 3), ("cosine", 6, 180, 4)):
        rs = np.random.default_rng(4100 + seed)
        data = rs.standard_normal((n, 5)).astype(np.float32)
        case = {"api": "transformer", "metric": metric, "n": n, "n_neighbors": k, "leaf_size": leaf_size, "dseed": 4100 + seed}
        tr = PyNNDescentTransformer(n_neighbors=k, metric=metric, leaf_size=leaf_size, n_trees=3, random_state=seed).fit(data)
        idx = tr.index_
        if not hasattr(idx, "_search_forest"):
            idx.prepare()
        res.count("api_transformer_indexes")
        res.case(("transformer", metric, n, k, leaf_size, seed), True)
        for ti, F in enumerate(idx._search_forest):
            bad, rows = pred_flat_shape(n, F)
            if bad:
                res.violation("rptree:api:transformer:" + bad[0], "search tree %d: %s" % (ti, bad[1]), case); break
            big = [e - s_ for (_, s_, e) in rows if e - s_ > leaf_size]
            if big:
                res.violation("rptree:api:transformer:leaf_size", "search tree %d of a transformer fitted with leaf_size=%d has a leaf of %d points"
                              % (ti, leaf_size, max(big)), case); break


def check_api(res, batch, cfg, seed):
    from pynndescent import NNDescent
    metric, kind, style, n, dim, k, n_trees, n_search, leaf_size, depth, full = cfg
    case = {"api": True, "metric": metric, "kind": kind, "style": style, "n": n, "dim": dim, "n_neighbors": k,
            "n_trees": n_trees, "n_search_trees": n_search, "leaf_size": leaf_size, "max_depth": depth,
            "dseed": 1000 + seed, "random_state": seed}
    data = make_data(case)
    idx = NNDescent(data, metric=metric, n_neighbors=k, random_state=seed, n_trees=n_trees, n_search_trees=n_search,
                    leaf_size=leaf_size, max_rptree_depth=depth, tree_init=True)
    res.count("api_indexes")
    forest = idx._rp_forest
    eff = dict(case, leaf_size=leaf_size if leaf_size is not None else max(10, k))
    if len(forest) != n_trees:
        res.violation("rptree:api:forest_size", "index holds %d trees for n_trees=%d" % (len(forest), n_trees), case)
    linked_sets = []
    for tree in forest:
        children, indices = decode_linked(tree)
        bad = linked_structure_problem(children, indices)
        if bad:
            res.violation("rptree:api:linked_structure", bad, case); return
        t = nested(children, indices, len(children) - 1)
        bad = pred_linked(eff, t)
        if bad:
            res.violation("rptree:api:" + bad[0], bad[1], case)
        linked_sets.append(leafsets(l for _, l in leaves_with_depth(t)))
        res.count("api_linked_trees")
    if full:
        idx.prepare()
    else:
        idx._init_search_graph()
    vo = np.asarray(idx._vertex_order)
    if sorted(vo.tolist()) != list(range(n)):
        res.violation("rptree:api:vertex_order", "_vertex_order is not a permutation of 0..n-1", case); return
    malformed = False
    for ti, F in enumerate(idx._search_forest):
        bad, rows = pred_flat_shape(n, F)
        if bad:
            res.violation("rptree:api:" + bad[0], "search tree %d: %s" % (ti, bad[1]), case); malformed = True; continue
        res.count("api_search_trees")
        ind = np.asarray(F.indices)
        sets = leafsets(vo[ind[s:e]].tolist() for (_, s, e) in rows)
        if ti == 0:
            # the tree the queries descend: its leaves, read through _vertex_order, must be the leaves of a built tree
            if sets not in linked_sets:
                res.violation("rptree:api:search_tree_leaves",
                              "leaves of _search_forest[0] (through _vertex_order) are not the leaves of any tree of the forest", case)
        elif sets not in linked_sets:
            # resort_tree_indices composes the permutations in the wrong order for trees other than the first;
            # those trees are never descended by query(): observed, not forbidden by the property
            res.count("api_unused_search_tree_leaves_not_preserved_by_resort")
    # routing through the real closure (full prepare) or the rp_trees kernel on the search tree's arrays
    if malformed:
        return
    F = idx._search_forest[0]
    ch = np.asarray(F.children); m = ch.shape[0]
    rows = [(kk, -int(ch[kk, 0]), -int(ch[kk, 1])) for kk in range(m) if ch[kk, 0] <= 0]
    if kind in ("se", "sa") and np.any((ch[:, 0] > 0) & (np.asarray(F.hyperplanes)[:, 0, 0] < 0)):
        res.count("sparse_routing_skipped_empty_hyperplane"); return
    g = np.random.default_rng(seed + 77)
    raw = idx._raw_data
    qs = gen_queries(dict(case, n=n), raw if kind not in ("se", "sa") else raw.tocsr(), g)
    for label, q in qs:
        if kind in ("de", "da"):
            q = np.ascontiguousarray(q, dtype=np.float32)
        st0 = np.array([int(g.integers(-2**31 + 2, 2**31 - 2)) for _ in range(3)], dtype=np.int64)
        st_real = st0.copy()
        if full:
            b = idx._tree_search(q[0], q[1], st_real) if kind in ("se", "sa") else idx._tree_search(q, st_real)
            start, end = int(b[0]), int(b[1])
        else:
            got = np.asarray(real_search(kind, F, q, st_real)).tolist()
            cand = [(s, e) for (_, s, e) in rows if np.asarray(F.indices)[s:e].tolist() == got]
            start, end = cand[0] if cand else (-1, -1)
        res.count("api_route_queries")
        qcase = dict(case, query=label, query_state=st0.tolist())
        hit = [kk for (kk, s, e) in rows if (s, e) == (start, end)]
        if not hit or not (0 <= start <= end <= n):
            res.violation("rptree:api:route_invalid", "routing returned bounds (%d,%d): not a leaf row of the search tree" % (start, end), qcase)
            continue
        st_walk = st0.copy()
        node, decisions = 0, []
        while ch[node, 0] > 0 and len(decisions) <= m:
            sd = real_side(kind, F, node, q, st_walk)
            decisions.append(sd)
            node = int(ch[node, 1] if sd else ch[node, 0])
        batch.add("tree_search_closure_vs_route", qcase, bar(["rproute s %d" % m, ravel(ch), ints_row(decisions)]),
                  "%d %d" % (start, end), post=bounds_of)
    res.case(("api",) + tuple(cfg) + (seed,), nontrivial=True, sample=case)
    res.traces += 1


def run(res, tier, seed, search):
    rng = random.Random(seed * 7919 + 14)
    per_kind = 60 if tier == "quick" else 400
    n_forest = 4 if tier == "quick" else 30
    if search:
        per_kind *= 3
    res.rule = ("one case = one real tree (kind in %s x data style in %s x n in %s x leaf_size in %s x max_depth in %s x "
                "generator state) with all structural predicates, the four array-for-array model comparisons and up to 7 "
                "routed queries (zero / random / data points / midpoints); forests via make_forest + rptree_leaf_array; "
                "non-trivial = the tree has >= 5 nodes (forest: >= 3 leaves per tree); distinct = hash of the case parameters"
                % (KINDS, STYLES, sorted(set(NS)), sorted(set(LEAF_SIZES)), sorted(set(MAX_DEPTHS))))
    batch = Batch()
    corpus = os.path.join(VERIF, "corpus", "C14.jsonl")
    if os.path.exists(corpus):
        for l in open(corpus):
            if l.strip():
                c = json.loads(l)
                (check_forest if c.get("forest") else check_case)(res, batch, c); res.count("corpus")
    for kind in KINDS:
        for _ in range(per_kind):
            check_case(res, batch, gen_case(rng, kind, tier))
        for _ in range(n_forest):
            check_forest(res, batch, gen_forest_case(rng, kind))
    for cfg in API_QUICK + (API_THOROUGH if tier != "quick" else []):
        check_api(res, batch, cfg, seed)
    check_transformer(res, seed)
    batch.run(res)


def replay(res, doc):
    batch = Batch()
    for c in doc.get("cases", []):
        case = c["case"]["case"] if "case" in c.get("case", {}) else c["case"]
        case = {k: v for k, v in case.items() if k not in ("query", "query_state", "q")}
        if case.get("api"):
            check_api(res, batch, (case["metric"], case["kind"], case["style"], case["n"], case["dim"], case["n_neighbors"],
                                   case["n_trees"], case["n_search_trees"], case["leaf_size"], case["max_depth"], True),
                      case["random_state"])
        else:
            (check_forest if case.get("forest") else check_case)(res, batch, case)
    batch.run(res)


if __name__ == "__main__":
    std_main("C14", run, replay)
