"""Translator (C19): every function of /repo/pynndescent that calls
numba.set_num_threads is reduced to an exception-flow skeleton
(lean/PynnVerif/Model/ThreadFlow.lean `Stmt`) and written to
lean/PynnVerif/Gen/ThreadFlow.lean.  The generated file is data only; the proof
obligation over it (`safe` of every skeleton, by `decide`) lives in Props/C19.lean.

Conservative by construction: anything that is not provably a no-op is
`mayRaise`; loops / with-blocks / constructs containing thread calls that the
translator does not understand become `unknown` (which can never be `safe`).
"""
import ast, glob, os, sys

VERIF = os.path.dirname(os.path.dirname(os.path.abspath(__file__)))
REPO = os.environ.get("PYNN_REPO", "/repo")
OUT = os.path.join(VERIF, "lean", "PynnVerif", "Gen", "ThreadFlow.lean")


def is_call_to(node, name):
    return (isinstance(node, ast.Call) and isinstance(node.func, ast.Attribute) and node.func.attr == name) or \
           (isinstance(node, ast.Call) and isinstance(node.func, ast.Name) and node.func.id == name)


LIMITED = set()   # bare names of the functions that call set_num_threads themselves (first pass of main)


def calls_limited(node):
    """`self.<m>(...)` with <m> one of the thread-limiting functions: the callee re-captures self._original_num_threads"""
    for n in ast.walk(node):
        if isinstance(n, ast.Call) and isinstance(n.func, ast.Attribute) and n.func.attr in LIMITED \
                and isinstance(n.func.value, ast.Name) and n.func.value.id == "self":
            return True
    return False


def mentions_threads(node):
    for n in ast.walk(node):
        if is_call_to(n, "set_num_threads") or is_call_to(n, "get_num_threads"):
            return True
        if isinstance(n, ast.Attribute) and n.attr == "_original_num_threads":
            return True
    return False


def has_return(node):
    return any(isinstance(n, ast.Return) for n in ast.walk(node))


def is_self_attr(node, attr):
    return isinstance(node, ast.Attribute) and node.attr == attr and isinstance(node.value, ast.Name) and node.value.id == "self"


def pure(expr):
    """An expression that cannot raise: names, constants, self.<attr> loads, comparisons/boolean ops/not of those, `is`."""
    if expr is None:
        return True
    if isinstance(expr, (ast.Constant, ast.Name)):
        return True
    if isinstance(expr, ast.Attribute):
        return isinstance(expr.value, ast.Name) and expr.value.id == "self" and False or False
    if isinstance(expr, ast.BoolOp):
        return all(pure(v) for v in expr.values)
    if isinstance(expr, ast.UnaryOp) and isinstance(expr.op, ast.Not):
        return pure(expr.operand)
    if isinstance(expr, ast.Compare):
        return pure(expr.left) and all(pure(c) for c in expr.comparators) and \
            all(isinstance(o, (ast.Is, ast.IsNot)) for o in expr.ops)
    return False


def seq(items):
    items = [i for i in items if i != "skip"]
    # collapse runs of mayRaise
    out = []
    for i in items:
        if i == "mayRaise" and out and out[-1] == "mayRaise":
            continue
        out.append(i)
    if not out:
        return "skip"
    r = out[-1]
    for i in reversed(out[:-1]):
        r = "(seq %s %s)" % (i, r)
    return r


def stmt(s):
    if isinstance(s, ast.Assign) and len(s.targets) == 1 and is_self_attr(s.targets[0], "_original_num_threads") \
            and is_call_to(s.value, "get_num_threads") and not s.value.args:
        return "getT"
    if isinstance(s, ast.Expr) and is_call_to(s.value, "set_num_threads") and len(s.value.args) == 1:
        arg = s.value.args[0]
        if is_self_attr(arg, "_original_num_threads"):
            return "restore"
        if is_self_attr(arg, "n_jobs"):
            return "setT"
        return "unknown"
    if isinstance(s, (ast.Expr, ast.Assign, ast.AugAssign, ast.AnnAssign)) and calls_limited(s) and not mentions_threads(s):
        return "callT"
    if isinstance(s, ast.Return) and s.value is not None and calls_limited(s.value):
        return seq(["callT", "ret"])
    if isinstance(s, ast.If) and calls_limited(s.test):
        return seq(["callT", "(br %s %s)" % (block(s.body), block(s.orelse))])
    if isinstance(s, ast.If):
        body = "(br %s %s)" % (block(s.body), block(s.orelse))
        # attribute loads on self in the test can raise AttributeError only if missing; treat a test
        # made of self.<attr>/names/constants/comparisons as non-raising
        return body if test_pure(s.test) else seq(["mayRaise", body])
    if isinstance(s, ast.Try):
        b = block(s.body)
        if s.orelse:
            b = seq([b, block(s.orelse)])
        if s.handlers:
            h = None
            for hd in s.handlers:
                hb = block(hd.body)
                h = hb if h is None else "(br %s %s)" % (h, hb)
            b = "(tryExc %s %s)" % (b, h)
        if s.finalbody:
            b = "(tryFin %s %s)" % (b, block(s.finalbody))
        return b
    if isinstance(s, ast.Return):
        return "ret" if simple(s.value) else seq(["mayRaise", "ret"])
    if isinstance(s, ast.Raise):
        return "raise_"
    if isinstance(s, (ast.For, ast.While, ast.With, ast.AsyncFor, ast.AsyncWith, ast.Match)):
        if mentions_threads(s) or has_return(s) or calls_limited(s):
            return "unknown"
        return "mayRaise"
    if isinstance(s, (ast.FunctionDef, ast.AsyncFunctionDef, ast.ClassDef)):
        return "mayRaise" if s.decorator_list else "skip"
    if isinstance(s, (ast.Pass, ast.Global, ast.Nonlocal)):
        return "skip"
    if mentions_threads(s) or calls_limited(s):
        return "unknown"
    if isinstance(s, ast.Assign) and simple(s.value) and all(isinstance(t, ast.Name) or
            (isinstance(t, ast.Attribute) and isinstance(t.value, ast.Name)) for t in s.targets):
        return "skip"
    return "mayRaise"


def simple(expr):
    """cannot raise: None, constants, names, self.attr"""
    if expr is None or isinstance(expr, (ast.Constant, ast.Name)):
        return True
    if isinstance(expr, ast.UnaryOp) and isinstance(expr.op, (ast.USub, ast.UAdd)) and isinstance(expr.operand, ast.Constant):
        return True
    if isinstance(expr, ast.Attribute) and isinstance(expr.value, ast.Name):
        return True
    return False


def test_pure(expr):
    if simple(expr):
        return True
    if isinstance(expr, ast.BoolOp):
        return all(test_pure(v) for v in expr.values)
    if isinstance(expr, ast.UnaryOp) and isinstance(expr.op, ast.Not):
        return test_pure(expr.operand)
    if isinstance(expr, ast.Compare):
        return test_pure(expr.left) and all(test_pure(c) for c in expr.comparators)
    return False


def block(stmts):
    return seq([stmt(s) for s in stmts])


def functions(tree, prefix):
    for n in tree.body if hasattr(tree, "body") else []:
        if isinstance(n, (ast.FunctionDef, ast.AsyncFunctionDef)):
            yield prefix + n.name, n
            yield from functions(n, prefix + n.name + ".")
        elif isinstance(n, ast.ClassDef):
            yield from functions(n, prefix + n.name + ".")
        elif isinstance(n, (ast.If, ast.Try, ast.With, ast.For, ast.While)):
            yield from functions(n, prefix)


def main():
    entries = []
    module_level = []
    LIMITED.clear()
    for f in sorted(glob.glob(os.path.join(REPO, "pynndescent", "*.py"))):
        for name, fn in functions(ast.parse(open(f).read()), ""):
            if any(is_call_to(n, "set_num_threads") for n in ast.walk(fn)):
                LIMITED.add(name.split(".")[-1])
    for f in sorted(glob.glob(os.path.join(REPO, "pynndescent", "*.py"))):
        mod = os.path.basename(f)[:-3]
        tree = ast.parse(open(f).read())
        funcs = list(functions(tree, mod + "."))
        inner = set()
        for name, fn in funcs:
            own = [n for n in ast.walk(fn) if is_call_to(n, "set_num_threads")]
            if own:
                entries.append((name, block(fn.body)))
        # a set_num_threads call outside every function (module level) is not understood
        in_funcs = {id(n) for _, fn in funcs for n in ast.walk(fn)}
        for n in ast.walk(tree):
            if is_call_to(n, "set_num_threads") and id(n) not in in_funcs:
                entries.append((mod + ".<module>", "unknown"))
    # keep only outermost duplicates (a nested def is reported under its own name too; fine)
    lines = ["import PynnVerif.Model.ThreadFlow",
             "/-! GENERATED by harness/translate_threads.py from /repo — data only, do not edit. -/",
             "namespace Pynn.Gen", "open Pynn.TF Pynn.TF.Stmt", "",
             "def threadSkeletons : List (String × Stmt) := ["]
    lines.append(",\n".join('  ("%s",\n    %s)' % (n, s) for n, s in entries))
    lines += ["]", "", "end Pynn.Gen", ""]
    text = "\n".join(lines)
    os.makedirs(os.path.dirname(OUT), exist_ok=True)
    if not os.path.exists(OUT) or open(OUT).read() != text:
        open(OUT, "w").write(text)
    return entries


if __name__ == "__main__":
    es = main()
    if "-v" in sys.argv:
        for n, s in es:
            print(n, "\n   ", s)
