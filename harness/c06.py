"""C06 — real pickle / joblib round-trips at several points of an index's life; the loaded
index must answer bit-identically and the original must remain usable."""
import sys, os, io, pickle, tempfile, shutil
sys.path.insert(0, os.path.dirname(os.path.dirname(os.path.abspath(__file__))))
from harness.common import *
setup_numba_cache()
import numpy as np, numba, joblib, warnings
warnings.filterwarnings("ignore")
from pynndescent import NNDescent
from harness import api

# (metric, data kind, compressed, metric_kwds-bearing?, tree_init)
PLANS = [
    ("euclidean", "dense32", False, True), ("cosine", "csr", False, True), ("hamming", "csr", False, True),
    ("minkowski", "dense32", True, True), ("bit_jaccard", "bits", False, True), ("hellinger", "csr", True, False),
    ("correlation", "csr", False, True), ("jaccard", "dense32", False, False), ("minkowski", "csr", False, True),
    ("true_angular", "dense32", False, True), ("dot", "dense32", True, True), ("manhattan", "dense64", False, False),
    ("euclidean", "csr", True, True), ("bit_hamming", "bits", True, True), ("canberra", "dense32", False, True),
]


def roundtrips(idx, how, tmp):
    if how.startswith("pickle"):
        return pickle.loads(pickle.dumps(idx, protocol=int(how[6:])))
    p = os.path.join(tmp, "idx.joblib")
    joblib.dump(idx, p)
    return joblib.load(p)


def same(a, b):
    return np.array_equal(a[0], b[0]) and np.array_equal(a[1].view(np.uint32) if a[1].dtype == np.float32 else a[1],
                                                          b[1].view(np.uint32) if b[1].dtype == np.float32 else b[1])


def check_plan(res, rng, plan, hows, tmp):
    metric, kind, compressed, tree_init = plan
    n, dim = 90, (6 if kind != "bits" else 4)
    X, _ = api.gen_dataset(rng, metric, kind, n, dim)
    Q, _ = api.gen_dataset(rng, metric, kind, 15, dim)
    import scipy.sparse as _sp
    Q = _sp.vstack([Q, X[:6]]).tocsr() if _sp.issparse(X) else np.vstack([Q, X[:6]])      # some queries ARE indexed rows (distance 0 / tiny surrogates)
    kw = api.metric_kwds(metric, rng, dim)
    case = {"metric": metric, "kind": kind, "compressed": compressed, "tree_init": tree_init, "kwds": kw}
    key = "pickle:%s:%s" % (kind, metric)
    try:
        idx = NNDescent(X, metric=metric, metric_kwds=kw, n_neighbors=6, random_state=int(rng.integers(1000)),
                        compressed=compressed, tree_init=tree_init)
        # the caller's own dict is the caller's: re-using it for the next index of a sweep must not reach into this one
        for k_ in list(kw):
            kw[k_] = kw[k_] * 2.5 + 1.0
        points = ["fresh", "prepared", "queried"]
        for point in points:
            if point == "prepared":
                idx.prepare()
            if point == "queried":
                idx.query(Q, k=4)
            for how in hows:
                res.count("how_" + how); res.count("at_" + point)
                loaded = roundtrips(idx, how, tmp)      # __getstate__ forces prepare on a fresh index
                a = idx.query(Q, k=5, epsilon=0.1)
                b = loaded.query(Q, k=5, epsilon=0.1)
                c = idx.query(Q, k=5, epsilon=0.1)      # original still usable and unchanged
                res.case((metric, kind, compressed, tree_init, point, how), True,
                         sample={**case, "point": point, "how": how, "answer_row0": a[0][0].tolist()})
                res.traces += 1
                if not same(a, b):
                    res.violation(key + ":answers-differ", "loaded index (%s at %s) answers differently from the original" % (how, point),
                                  {**case, "point": point, "how": how})
                    return
                if not same(a, c):
                    res.violation(key + ":original-changed", "original answers differently after being dumped (%s at %s)" % (how, point),
                                  {**case, "point": point, "how": how})
                    return
        # an updated index (update() always builds a forest, whatever tree_init says) round-trips like any other
        if not compressed and not kind.startswith("csr"):
            U, _ = api.gen_dataset(rng, metric, kind, 12, dim)
            idx.update(xs_fresh=U)
            for how in hows:
                loaded = roundtrips(idx, how, tmp)
                a = idx.query(Q, k=5, epsilon=0.1); b = loaded.query(Q, k=5, epsilon=0.1)
                res.case((metric, kind, compressed, tree_init, "updated", how), True); res.count("at_updated"); res.traces += 1
                if not same(a, b):
                    res.violation(key + ":answers-differ", "index dumped (%s) after update() answers differently once loaded (tree_init=%s)"
                                  % (how, tree_init), {**case, "point": "updated", "how": how})
                    return
        # a second generation: dump the loaded index again
        l2 = roundtrips(roundtrips(idx, hows[0], tmp), hows[-1], tmp)
        if not same(l2.query(Q, k=5), idx.query(Q, k=5)):
            res.violation(key + ":second-generation", "index loaded twice answers differently", case)
    except Exception as e:  # noqa
        res.violation(key + ":exception", "%s: %s" % (type(e).__name__, str(e)[:200]), case)


CHILD = r"""
import sys, os, pickle, warnings
sys.path.insert(0, sys.argv[1])
from harness.common import *
setup_numba_cache()
warnings.filterwarnings("ignore")
import numpy as np, joblib
d = sys.argv[2]
how = sys.argv[3]
idx = joblib.load(os.path.join(d, "idx.joblib")) if how == "joblib" else pickle.load(open(os.path.join(d, "idx.pkl"), "rb"))
Q = pickle.load(open(os.path.join(d, "Q.pkl"), "rb"))
a = idx.query(Q, k=5, epsilon=0.1)
pickle.dump(a, open(os.path.join(d, "answer.pkl"), "wb"))
"""


def cross_process(res, rng, plan, tmp):
    """dump here, load and query in a FRESH interpreter (nothing of this process's numba dispatchers survives)"""
    import subprocess
    metric, kind, compressed, tree_init = plan
    n, dim = 90, (6 if kind != "bits" else 4)
    X, _ = api.gen_dataset(rng, metric, kind, n, dim)
    Q, _ = api.gen_dataset(rng, metric, kind, 15, dim)
    if kind.startswith("dense"):
        Q = Q * np.float32(3.0)                        # queries that are not unit-norm (the normalising metrics must still normalise them)
    kw = api.metric_kwds(metric, rng, dim)
    case = {"metric": metric, "kind": kind, "compressed": compressed, "tree_init": tree_init, "kwds": kw, "cross_process": True}
    key = "pickle:%s:%s" % (kind, metric)
    idx = NNDescent(X, metric=metric, metric_kwds=kw, n_neighbors=6, random_state=int(rng.integers(1000)),
                    compressed=compressed, tree_init=tree_init)
    a = idx.query(Q, k=5, epsilon=0.1)
    for how in ("pickle", "joblib"):
        d = os.path.join(tmp, "xp_" + how); os.makedirs(d, exist_ok=True)
        if how == "joblib":
            joblib.dump(idx, os.path.join(d, "idx.joblib"))
        else:
            pickle.dump(idx, open(os.path.join(d, "idx.pkl"), "wb"))
        pickle.dump(Q, open(os.path.join(d, "Q.pkl"), "wb"))
        child = os.path.join(d, "child.py"); open(child, "w").write(CHILD)
        env = dict(os.environ); env.pop("NUMBA_CACHE_DIR", None)
        p = subprocess.run([sys.executable, child, VERIF, d, how], stdout=subprocess.PIPE, stderr=subprocess.STDOUT, timeout=600, env=env)
        res.count("cross_process_" + how); res.traces += 1
        res.case((metric, kind, compressed, tree_init, "cross-process", how), True, sample={**case, "how": how})
        if p.returncode != 0 or not os.path.exists(os.path.join(d, "answer.pkl")):
            res.violation(key + ":cross-process-load", "loading/querying the %s dump in a fresh process failed: %s"
                          % (how, p.stdout.decode(errors="replace")[-300:]), {**case, "how": how})
            return
        b = pickle.load(open(os.path.join(d, "answer.pkl"), "rb"))
        if not same(a, b):
            res.violation(key + ":cross-process-answers", "index loaded from the %s dump in a fresh process answers differently from the original"
                          % how, {**case, "how": how})
            return


def run(res, tier, seed, search):
    rng = np.random.default_rng(seed + 606)
    res.rule = ("index plans (metric x data kind x compressed x tree_init, incl. metric_kwds, surrogate metrics, n_features metrics) "
                "x life points {fresh, prepared, queried} x {pickle protocols, joblib}; answers compared bit-for-bit (loaded vs original, "
                "original before vs after); every case is non-trivial; distinct = (plan, point, how)")
    if tier == "quick" and not search:
        k = 3
        start = (seed * k) % len(PLANS)
        fixed = [("cosine", "csr", False, True), ("bit_hamming", "bits", False, True),     # sparse surrogate+correction; bit trees
                 ("euclidean", "dense32", False, False),                                    # no tree initialisation, then update()
                 ("minkowski", "dense32", False, True)]                                     # metric arguments
        plans = fixed + [pl for pl in [PLANS[(start + i) % len(PLANS)] for i in range(k)] if pl not in fixed][:1]
        hows = ["pickle%d" % pickle.HIGHEST_PROTOCOL, "joblib"]
    else:
        plans = PLANS
        hows = ["pickle2", "pickle4", "pickle%d" % pickle.HIGHEST_PROTOCOL, "joblib"]
    tmp = tempfile.mkdtemp(prefix="c06_", dir=os.path.join(VERIF, ".cache"))
    try:
        for plan in plans:
            check_plan(res, rng, plan, hows, tmp)
        xplans = [("dot", "dense32", False, True), plans[0]] if tier == "quick" and not search else \
            [("dot", "dense32", False, True), ("cosine", "csr", False, True), ("euclidean", "dense32", True, True), ("bit_hamming", "bits", False, True)]
        for plan in xplans:
            cross_process(res, rng, plan, tmp)
    finally:
        shutil.rmtree(tmp, ignore_errors=True)


if __name__ == "__main__":
    std_main("C06", run)
