"""Translator (C05): memory footprint of one iteration of every `numba.prange` loop.

For each prange loop of /repo/pynndescent the translator lists every memory
effect of one iteration — subscript stores, calls to known or summarised
mutators, scalar reductions, and reads of arrays that the loop also writes —
and assigns an *ownership class* to the location:

  loopVar      leading index is the prange variable              (row i belongs to iteration i)
  guardedMod   store dominated by `E % n_threads == v`, index E  (rows = v mod n_threads)
  csrSeg       index inside [indptr[v], indptr[v+1])             (CSR row segment; indptr monotone)
  privateAlloc array/list created inside the iteration
  intReduction integer `+=` reduction handled by numba (commutative, exact)
  floatReduction float `+=` reduction (order dependent)          -> interferes
  shared       anything else                                      -> interferes
  unknown      construct not understood                           -> interferes

Output: lean/PynnVerif/Gen/Prange.lean (data only).  Props/C05.lean proves, by
`decide`, that every loop reachable from the index is non-interfering, and
Proofs/Par.lean proves that non-interfering loops are schedule independent.
Conservative: whatever cannot be classified is `shared`/`unknown`.
"""
import ast, glob, os, sys

VERIF = os.path.dirname(os.path.dirname(os.path.abspath(__file__)))
REPO = os.environ.get("PYNN_REPO", "/repo")
OUT = os.path.join(VERIF, "lean", "PynnVerif", "Gen", "Prange.lean")

# loops that are part of index construction / prepare / query / update (C05's quantifier);
# optimal_transport's Sinkhorn helpers are metric internals with float reductions and are reported, not required
INDEX_MODULES = {"pynndescent_", "utils", "sparse", "sparse_nndescent", "graph_utils", "rp_trees"}

# callee name -> argument positions it mutates (leaf kernels; everything else is summarised from the source)
BUILTIN_MUTATORS = {
    "heappush": [0], "heappop": [0], "heapify": [0],
}
MUTATING_METHODS = {"append", "add", "sort", "fill", "extend", "pop", "clear", "remove", "update", "discard", "insert"}
PRIVATE_MAKERS = {"zeros", "ones", "full", "empty", "zeros_like", "ones_like", "empty_like", "full_like", "copy",
                  "argsort", "sort", "array", "arange", "astype", "sqrt", "abs", "sum", "unique", "float32", "int32",
                  "int64", "uint8", "float64", "min", "max", "int", "float", "len", "range", "set", "list"}


def dump(n):
    return ast.dump(n) if n is not None else "None"


def call_name(c):
    f = c.func
    if isinstance(f, ast.Name):
        return f.id
    if isinstance(f, ast.Attribute):
        return f.attr
    return None


# ---------------------------------------------------------------- mutator summaries (interprocedural)
def collect_functions(tree):
    out = {}
    for n in ast.walk(tree):
        if isinstance(n, (ast.FunctionDef, ast.AsyncFunctionDef)):
            out.setdefault(n.name, []).append(n)
    return out


def base_name(expr):
    """Name at the root of a subscript / attribute chain, or None."""
    while isinstance(expr, (ast.Subscript, ast.Attribute)):
        expr = expr.value
    return expr.id if isinstance(expr, ast.Name) else None


def summarise(all_funcs):
    """name -> set of parameter positions the function may mutate (fix-point)."""
    summ = {name: set(pos) for name, pos in BUILTIN_MUTATORS.items()}
    changed = True
    while changed:
        changed = False
        for name, defs in all_funcs.items():
            for fn in defs:
                params = [a.arg for a in fn.args.args]
                # local aliases: x = param[...] / x = param
                alias = {p: p for p in params}
                for n in ast.walk(fn):
                    if isinstance(n, ast.Assign) and len(n.targets) == 1 and isinstance(n.targets[0], ast.Name):
                        b = base_name(n.value) if isinstance(n.value, (ast.Name, ast.Subscript, ast.Attribute)) else None
                        if b in alias and n.targets[0].id not in params:
                            alias[n.targets[0].id] = alias[b]
                mut = set()
                for n in ast.walk(fn):
                    tgt = None
                    if isinstance(n, (ast.Assign, ast.AugAssign)):
                        for t in (n.targets if isinstance(n, ast.Assign) else [n.target]):
                            for tt in (t.elts if isinstance(t, ast.Tuple) else [t]):
                                if isinstance(tt, ast.Subscript):
                                    b = base_name(tt)
                                    if b in alias:
                                        mut.add(alias[b])
                    if isinstance(n, ast.Call):
                        cn = call_name(n)
                        if isinstance(n.func, ast.Attribute) and cn in MUTATING_METHODS:
                            b = base_name(n.func.value)
                            if b in alias:
                                mut.add(alias[b])
                        for pos in summ.get(cn, ()):
                            if pos < len(n.args):
                                b = base_name(n.args[pos])
                                if b in alias:
                                    mut.add(alias[b])
                pos = {params.index(m) for m in mut if m in params}
                if not pos <= summ.get(name, set()):
                    summ[name] = summ.get(name, set()) | pos
                    changed = True
    return summ


# ---------------------------------------------------------------- per-loop analysis
class Loop:
    def __init__(self, name, scope):
        self.name, self.scope, self.effects = name, scope, []

    def add(self, kind, target, cls):
        e = (kind, target, cls)
        if e not in self.effects:
            self.effects.append(e)


def analyse_loop(fn, loop, summ, const_true):
    v = loop.target.id if isinstance(loop.target, ast.Name) else None
    res = []
    if v is None:
        return [("write", "<loop target>", "unknown")]
    env = {}          # local name -> set of origins: ("private",) | ("view", base, cls) | ("shared", base) | ("scalar",)
    range_of = {}     # inner loop var -> ("csr", indptrname) when `for j in range(ip[v], ip[v+1])`
    guards = []       # stack of dump(E) for enclosing `if E % T == v`
    reductions_init = {}
    for n in ast.walk(fn):
        if isinstance(n, ast.Assign) and len(n.targets) == 1 and isinstance(n.targets[0], ast.Name) \
                and isinstance(n.value, ast.Constant) and isinstance(n.value.value, (int, float)):
            reductions_init.setdefault(n.targets[0].id, type(n.value.value).__name__)
    float_locals = set()
    for d in fn.decorator_list:
        for k in ast.walk(d):
            if isinstance(k, ast.keyword) and k.arg == "locals" and isinstance(k.value, ast.Dict):
                for kk, vv in zip(k.value.keys, k.value.values):
                    if isinstance(kk, ast.Constant) and "float" in dump(vv):
                        float_locals.add(kk.value)
    assigned_in_loop = {t.id for n in ast.walk(loop) for t in ast.walk(n)
                        if isinstance(t, ast.Name) and isinstance(t.ctx, ast.Store)}

    def is_v(e):
        return isinstance(e, ast.Name) and e.id == v

    def csr_index(e):
        """index of the form ip[v] + j, or an inner loop var ranging over [ip[v], ip[v+1])"""
        if isinstance(e, ast.Name) and e.id in range_of:
            return True
        if isinstance(e, ast.BinOp) and isinstance(e.op, ast.Add):
            for a in (e.left, e.right):
                if isinstance(a, ast.Subscript) and is_v(a.slice) and isinstance(a.value, ast.Name):
                    return True
        if isinstance(e, ast.Slice) and e.lower is not None and e.upper is not None:
            lo, up = e.lower, e.upper
            if isinstance(lo, ast.Subscript) and is_v(lo.slice) and isinstance(up, ast.Subscript) \
                    and isinstance(up.slice, ast.BinOp) and is_v(up.slice.left) and isinstance(up.slice.op, ast.Add) \
                    and isinstance(up.slice.right, ast.Constant) and up.slice.right.value == 1 \
                    and dump(lo.value) == dump(up.value):
                return True
        return False

    def classify_index(idx):
        lead = idx.elts[0] if isinstance(idx, ast.Tuple) and idx.elts else idx
        if is_v(lead):
            return "loopVar"
        if csr_index(lead):
            return "csrSeg"
        if dump(lead) in guards:
            return "guardedMod"
        return "shared"

    def origin_of(expr):
        """set of origins of an expression used as an array/list."""
        if isinstance(expr, ast.Name):
            if expr.id in env:
                return env[expr.id]
            if expr.id in assigned_in_loop and expr.id != v:
                return {("scalar",)}
            return {("shared", expr.id)}
        if isinstance(expr, ast.Subscript):
            # constant subscripts select a component of a tuple-of-arrays (current_graph[1])
            if isinstance(expr.slice, ast.Constant):
                return origin_of(expr.value)
            inner = origin_of(expr.value)
            out = set()
            for o in inner:
                if o[0] == "shared":
                    out.add(("view", o[1], classify_index(expr.slice)))
                else:
                    out.add(o)
            return out
        if isinstance(expr, ast.Attribute):
            return origin_of(expr.value)
        if isinstance(expr, (ast.List, ast.ListComp, ast.BinOp, ast.UnaryOp, ast.Constant, ast.Tuple, ast.Compare,
                             ast.Set, ast.Dict, ast.IfExp, ast.BoolOp)):
            return {("private",)}
        if isinstance(expr, ast.Call):
            cn = call_name(expr)
            if cn in PRIVATE_MAKERS:
                return {("private",)}
            return {("private",)}   # results of calls are fresh values (package kernels return new arrays or scalars)
        return {("unknown",)}

    def cls_of_origin(o):
        if o[0] == "private" or o[0] == "scalar":
            return "privateAlloc"
        if o[0] == "view":
            return o[2]
        if o[0] == "shared":
            return "shared"
        return "unknown"

    def name_of(expr):
        try:
            return ast.unparse(expr)
        except Exception:
            return "<expr>"

    written_bases = set()

    def record_write(expr, what):
        for o in origin_of(expr):
            c = cls_of_origin(o)
            if o[0] in ("shared", "view"):
                written_bases.add(o[1])
            res.append(("write", "%s <- %s" % (name_of(expr), what), c))

    def visit_block(stmts):
        for s in stmts:
            visit(s)

    reads = []

    def visit_expr_effects(node):
        for n in ast.walk(node):
            if isinstance(n, ast.Subscript) and isinstance(n.ctx, ast.Load) and not isinstance(n.slice, ast.Constant):
                for o in origin_of(n.value):
                    if o[0] == "shared":
                        reads.append((o[1], name_of(n), classify_index(n.slice)))
                    elif o[0] == "view":
                        reads.append((o[1], name_of(n), o[2]))
            if isinstance(n, ast.Call):
                cn = call_name(n)
                if isinstance(n.func, ast.Attribute) and cn in MUTATING_METHODS and not \
                        (isinstance(n.func.value, ast.Name) and n.func.value.id in ("np", "numba", "heapq")):
                    record_write(n.func.value, "." + cn)
                for pos in sorted(summ.get(cn, ())):
                    if pos < len(n.args):
                        record_write(n.args[pos], cn + "()")

    def visit(s):
        if isinstance(s, ast.If):
            # compile-time constant branch: `if T:` where T mirrors the decorator's parallel= flag
            if isinstance(s.test, ast.Name) and s.test.id in const_true:
                visit_block(s.body)
                return
            g = None
            t = s.test
            if isinstance(t, ast.Compare) and len(t.ops) == 1 and isinstance(t.ops[0], ast.Eq) \
                    and is_v(t.comparators[0]) and isinstance(t.left, ast.BinOp) and isinstance(t.left.op, ast.Mod):
                g = dump(t.left.left)
            visit_expr_effects(s.test)
            if g:
                guards.append(g)
            visit_block(s.body)
            if g:
                guards.pop()
            visit_block(s.orelse)
            return
        if isinstance(s, (ast.For, ast.While)):
            if isinstance(s, ast.For):
                if isinstance(s.iter, ast.Call) and call_name(s.iter) == "prange":
                    res.append(("write", "<nested prange>", "unknown"))
                if isinstance(s.target, ast.Name) and isinstance(s.iter, ast.Call) and call_name(s.iter) == "range" \
                        and len(s.iter.args) == 2:
                    lo, up = s.iter.args
                    if isinstance(lo, ast.Subscript) and is_v(lo.slice) and isinstance(up, ast.Subscript) \
                            and isinstance(up.slice, ast.BinOp) and is_v(up.slice.left) and dump(lo.value) == dump(up.value):
                        range_of[s.target.id] = ("csr", name_of(lo.value))
                visit_expr_effects(s.iter)
            else:
                visit_expr_effects(s.test)
            visit_block(s.body)
            visit_block(s.orelse)
            return
        if isinstance(s, ast.Assign):
            visit_expr_effects(s.value)
            for t in s.targets:
                for tt, val in (zip(t.elts, s.value.elts) if isinstance(t, ast.Tuple) and isinstance(s.value, ast.Tuple)
                                and len(t.elts) == len(s.value.elts) else [(t, s.value)]):
                    if isinstance(tt, ast.Name):
                        o = origin_of(val) if isinstance(val, (ast.Name, ast.Subscript, ast.Attribute, ast.Call, ast.List,
                                                               ast.ListComp, ast.BinOp)) else {("scalar",)}
                        # scalars read out of arrays are values, not views
                        if isinstance(val, ast.Subscript) and not isinstance(val.slice, (ast.Slice, ast.Constant)) and \
                                not (isinstance(val.slice, ast.Tuple) and any(isinstance(e, ast.Slice) for e in val.slice.elts)):
                            # could be a row view (2-D array indexed by one index) or a scalar; keep the view origin: conservative
                            pass
                        env[tt.id] = env.get(tt.id, set()) | o if tt.id in env else set(o)
                    elif isinstance(tt, ast.Subscript):
                        record_write(tt, "store")
                        visit_expr_effects(tt.slice)
                    elif isinstance(tt, ast.Tuple):
                        for e in tt.elts:
                            if isinstance(e, ast.Subscript):
                                record_write(e, "store")
                            elif isinstance(e, ast.Name):
                                env[e.id] = {("scalar",)}
            return
        if isinstance(s, ast.AugAssign):
            visit_expr_effects(s.value)
            if isinstance(s.target, ast.Subscript):
                record_write(s.target, "aug-store")
            elif isinstance(s.target, ast.Name):
                nm = s.target.id
                if nm not in env and nm in reductions_init and not _assigned_plain_in(loop, nm):
                    kind = "floatReduction" if (nm in float_locals or reductions_init[nm] == "float") else "intReduction"
                    res.append(("reduce", nm, kind))
            return
        if isinstance(s, ast.Expr):
            visit_expr_effects(s.value)
            return
        if isinstance(s, (ast.Return,)):
            res.append(("write", "<return inside prange>", "unknown"))
            return
        if isinstance(s, (ast.Pass, ast.Break, ast.Continue)):
            return
        if isinstance(s, ast.With) or isinstance(s, ast.Try):
            res.append(("write", "<%s>" % type(s).__name__, "unknown"))
            return
        visit_expr_effects(s)

    visit_block(loop.body)

    # reads of arrays that this loop also writes must be owned as well
    for base, text, c in reads:
        if base in written_bases:
            res.append(("read", text, c))
    # de-duplicate, keep order
    out = []
    for e in res:
        if e not in out:
            out.append(e)
    return out


def classify_index_static(idx, v, range_of, origin_of):
    lead = idx.elts[0] if isinstance(idx, ast.Tuple) and idx.elts else idx
    if isinstance(lead, ast.Name) and lead.id == v:
        return "loopVar"
    if isinstance(lead, ast.Name) and lead.id in range_of:
        return "csrSeg"
    if isinstance(lead, ast.BinOp) and isinstance(lead.op, ast.Add):
        for a in (lead.left, lead.right):
            if isinstance(a, ast.Subscript) and isinstance(a.slice, ast.Name) and a.slice.id == v:
                return "csrSeg"
    if isinstance(lead, ast.Slice) and lead.lower is not None and isinstance(lead.lower, ast.Subscript) and \
            isinstance(lead.lower.slice, ast.Name) and lead.lower.slice.id == v:
        return "csrSeg"
    return "shared"


def _assigned_plain_in(loop, nm):
    for n in ast.walk(loop):
        if isinstance(n, ast.Assign):
            for t in n.targets:
                if isinstance(t, ast.Name) and t.id == nm:
                    return True
    return False


def const_true_names(fn, enclosing):
    """Names T such that the function is compiled with parallel=<E> and T = <E> in the enclosing scope:
    whenever the prange is really parallel, T is True."""
    flag = None
    for d in fn.decorator_list:
        for k in ast.walk(d):
            if isinstance(k, ast.keyword) and k.arg == "parallel" and not isinstance(k.value, ast.Constant):
                flag = dump(k.value)
    names = set()
    if flag and enclosing is not None:
        for n in ast.walk(enclosing):
            if isinstance(n, ast.Assign) and len(n.targets) == 1 and isinstance(n.targets[0], ast.Name) \
                    and dump(n.value) == flag:
                names.add(n.targets[0].id)
    return names


def main():
    trees = {}
    all_funcs = {}
    for f in sorted(glob.glob(os.path.join(REPO, "pynndescent", "*.py"))):
        mod = os.path.basename(f)[:-3]
        trees[mod] = ast.parse(open(f).read())
        for k, v in collect_functions(trees[mod]).items():
            all_funcs.setdefault(k, []).extend(v)
    summ = summarise(all_funcs)
    referenced = set()
    for mod, tree in trees.items():
        for n in ast.walk(tree):
            if isinstance(n, ast.Name) and isinstance(n.ctx, ast.Load):
                referenced.add(n.id)
            elif isinstance(n, ast.Attribute):
                referenced.add(n.attr)
            elif isinstance(n, ast.alias):
                referenced.add(n.name.split(".")[-1])
    loops = []
    for mod, tree in trees.items():
        parents = {}
        for n in ast.walk(tree):
            for c in ast.iter_child_nodes(n):
                parents[c] = n
        for fn in [n for n in ast.walk(tree) if isinstance(n, (ast.FunctionDef, ast.AsyncFunctionDef))]:
            own_loops = []
            for n in ast.walk(fn):
                if isinstance(n, ast.For) and isinstance(n.iter, ast.Call) and call_name(n.iter) == "prange":
                    # attribute the loop to its innermost enclosing function
                    p = parents.get(n)
                    while p is not None and not isinstance(p, (ast.FunctionDef, ast.AsyncFunctionDef)):
                        p = parents.get(p)
                    if p is fn:
                        own_loops.append(n)
            enclosing = parents.get(fn)
            while enclosing is not None and not isinstance(enclosing, (ast.FunctionDef, ast.AsyncFunctionDef)):
                enclosing = parents.get(enclosing)
            qual = fn.name if enclosing is None else enclosing.name + "." + fn.name
            for k, lp in enumerate(own_loops):
                scope = "index" if mod in INDEX_MODULES else "metric"
                if fn.name not in referenced:
                    scope = "unreferenced"     # dead code: no load of this name anywhere in the package
                L = Loop("%s.%s#%d" % (mod, qual, k), scope)
                # a prange in a function that no index path uses (rp_trees.score_tree) is still reported under `index`
                for e in analyse_loop(fn, lp, summ, const_true_names(fn, enclosing)):
                    L.add(*e)
                loops.append(L)
    # thread pools other than prange: `joblib.Parallel(..)(joblib.delayed(f)(args) for i in range(n))` runs the calls
    # concurrently (the tree builders release the GIL).  One "iteration" = one call; its effects are the arguments that `f`
    # may mutate (interprocedural summary): owned when the argument is subscripted by the comprehension variable
    # (`rng_states[i]`), shared when a whole array is handed to every call.
    for mod, tree in trees.items():
        for fn in [n for n in ast.walk(tree) if isinstance(n, (ast.FunctionDef, ast.AsyncFunctionDef))]:
            k = 0
            for n in ast.walk(fn):
                if not (isinstance(n, ast.Call) and isinstance(n.func, ast.Call) and call_name(n.func) == "Parallel"
                        and len(n.args) == 1 and isinstance(n.args[0], ast.GeneratorExp)):
                    continue
                gen = n.args[0]
                # connect_graph's pool is outside C05's quantifier (build / prepare / query / update); property C20 runs it with
                # n_jobs=None and says so in its assumptions
                L = Loop("%s.%s@joblib#%d" % (mod, fn.name, k),
                         "connect" if mod == "graph_utils" else "index" if mod in INDEX_MODULES else "metric"); k += 1
                elt = gen.elt
                ok = (isinstance(elt, ast.Call) and isinstance(elt.func, ast.Call) and call_name(elt.func) == "delayed"
                      and len(elt.func.args) == 1 and len(gen.generators) == 1)
                if not ok:
                    L.add("write", "unrecognised joblib task " + dump(elt)[:60], "unknown")
                    loops.append(L); continue
                vs = {x.id for x in ast.walk(gen.generators[0].target) if isinstance(x, ast.Name)}
                callee = call_name(ast.Call(func=elt.func.args[0], args=[], keywords=[]))
                if callee not in all_funcs or len(all_funcs[callee]) != 1:
                    L.add("write", "task %s: unknown or ambiguous callee" % callee, "unknown")
                    loops.append(L); continue
                pnames = [a_.arg for a_ in all_funcs[callee][0].args.args]
                handed = {}                                  # parameter position -> argument expression
                for i_, a_ in enumerate(elt.args):
                    handed[i_] = a_
                for kw in elt.keywords:
                    if kw.arg in pnames:
                        handed[pnames.index(kw.arg)] = kw.value
                    else:
                        L.add("write", "task %s: keyword %s" % (callee, kw.arg), "unknown")
                for pos in sorted(summ.get(callee, ())):
                    if pos not in handed:
                        continue
                    a = handed[pos]
                    txt = ast.unparse(a)
                    if isinstance(a, ast.Subscript) and isinstance(a.value, ast.Name) and any(
                            isinstance(x, ast.Name) and x.id in vs for x in ast.walk(a.slice)):
                        L.add("write", "%s <- %s()" % (txt, callee), "loopVar")
                    else:
                        L.add("write", "%s <- %s()" % (txt, callee), "shared")
                if not L.effects:
                    L.add("read", "task %s mutates none of its arguments" % callee, "loopVar")
                loops.append(L)
    lines = ["import PynnVerif.Model.Footprint",
             "/-! GENERATED by harness/translate_prange.py from /repo — data only, do not edit. -/",
             "namespace Pynn.Gen", "open Pynn.FP Pynn.FP.Own Pynn.FP.Kind", "",
             "def prangeLoops : List Loop := ["]
    items = []
    for L in loops:
        effs = ",\n      ".join('⟨%s, "%s", %s⟩' % (k, t.replace('"', "'").replace("\\", "/"), c) for k, t, c in L.effects)
        items.append('  { name := "%s", scope := "%s", effects := [\n      %s] }' % (L.name, L.scope, effs))
    lines.append(",\n".join(items))
    lines += ["]", "", "end Pynn.Gen", ""]
    text = "\n".join(lines)
    os.makedirs(os.path.dirname(OUT), exist_ok=True)
    if not os.path.exists(OUT) or open(OUT).read() != text:
        open(OUT, "w").write(text)
    return loops, summ


if __name__ == "__main__":
    loops, summ = main()
    if "-v" in sys.argv:
        for L in loops:
            print(L.name, L.scope)
            for e in L.effects:
                print("    ", e)
        print({k: sorted(v) for k, v in summ.items() if v})
