"""C13 — neighbour lists only ever improve (rank-wise).
kernel level: real nn_descent started from a supplied heap: every row's sorted priorities are pointwise <= the
              initial row's (bit-exact integers), and the run equals the Lean model;
API level   : init_graph (with -1 holes, +-init_dist) vs result; n_iters=t vs t+1 (same seed); before vs after
              update(xs_fresh) on append-only histories."""
import sys, os, warnings
sys.path.insert(0, os.path.dirname(os.path.dirname(os.path.abspath(__file__))))
from harness.common import *
setup_numba_cache()
warnings.filterwarnings("ignore")
import numpy as np, numba
from pynndescent import NNDescent, utils, pynndescent_ as pm, distances as pd
from harness import api, oracles, descent_kernels as dk

INF = float("inf")


def rank_worse(before_sorted, after_sorted, tol=1e-6, metric=None):
    """first rank j at which `after` is worse than `before` (None if never); missing entries count as inf.
    Values are compared under the float32 tolerance rule of the metric (harness/refmetrics.py: on the pre-image for
    metrics whose last step amplifies rounding, e.g. hellinger(x, x) = 3e-4 from a 1e-7 error under the sqrt)."""
    from harness import refmetrics as R
    for j, b in enumerate(before_sorted):
        a = after_sorted[j] if j < len(after_sorted) else INF
        if a > b + tol * max(1.0, abs(b)):
            if metric is not None and a != INF and R.close(a, b, metric, scale=4.0):
                continue
            return j, b, a
    return None


def kernel_level(res, rng, n_cases):
    for c in range(n_cases):
        cfg = dk.nnd_case(rng, small=(c % 2 == 0)); cfg["init"] = "heap"; cfg["sparse"] = (c % 3 == 2); cfg["fill"] = float(rng.choice([0.2, 0.7, 1.5]))
        n, k = cfg["n"], cfg["k"]
        low = bool(rng.integers(2))
        impl, line, (_, _, ind, dst, init) = dk.run_nnd_pair(cfg, low)
        before = np.sort(init[1], axis=1)
        model = run_driver([line])[0]
        res.traces += 1
        if model != impl:
            res.corr_fail("nn_descent_bit_exact", {"cfg": cfg, "low_memory": low}, model[:200], impl[:200])
        after = np.sort(dst, axis=1)
        worse = np.argwhere(after > before)
        res.case(("kernel",) + tuple(sorted(cfg.items())), nontrivial=bool((after < before).any()),
                 sample={"cfg": cfg, "row0_before": before[0].tolist(), "row0_after": after[0].tolist()})
        res.count("kernel_cases"); res.count("kernel_sparse" if cfg.get("sparse") else "kernel_dense"); res.count("rows_improved", int((after < before).any(axis=1).sum()))
        if len(worse):
            p, j = worse[0]
            res.violation("rank:kernel", "row %d rank %d got worse: %r -> %r" % (p, j, float(before[p, j]), float(after[p, j])),
                          {"cfg": cfg, "low_memory": low})


def api_init_graph(res, rng, metric, kind, wide=False):
    n = int(rng.choice([12, 60, 150])); k = int(rng.choice([3, 6, 10])); dim = 4
    X, L = api.gen_dataset(rng, metric, kind, n, dim)
    kw = api.metric_kwds(metric, rng, dim)
    wd = k + (4 if wide else int(rng.choice([0, 0, 4])))                 # callers may supply more candidate columns than n_neighbors, in any order
    G = rng.integers(0, n, size=(n, wd)).astype(np.int32); G[rng.random((n, wd)) < 0.35] = -1
    with_dist = bool(rng.integers(2)) and not kind.startswith("csr")
    ref = np.full((n, wd), INF)
    for i in range(n):
        for j in range(wd):
            if G[i, j] >= 0:
                v = oracles._ref(metric, L[i].astype(np.float64), L[G[i, j]].astype(np.float64), kw)
                ref[i, j] = 0.0 if v is None else v
    extra = {"init_graph": G}
    if with_dist:
        extra["init_dist"] = np.where(np.isinf(ref), 0.0, ref).astype(np.float32)
    case = {"metric": metric, "kind": kind, "n": n, "k": k, "width": wd, "with_dist": with_dist, "kwds": kw}
    idx = NNDescent(X, metric=metric, metric_kwds=kw, n_neighbors=k, random_state=int(rng.integers(10 ** 6)),
                    n_iters=0 if wide else int(rng.choice([0, 1, 5])), **extra)
    inds, dists = idx.neighbor_graph
    res.case(("init", metric, kind, n, k, with_dist, G.tobytes(), np.asarray(L).tobytes()), True,
             sample={**case, "init_row0": G[0].tolist(), "result_row0": inds[0].tolist()})
    res.count("api_init_graph"); res.traces += 1
    for i in range(n):
        seen = {}
        for j in range(wd):
            if G[i, j] >= 0:
                seen[int(G[i, j])] = ref[i, j]
        before = sorted(seen.values())[:k]
        after = sorted(float(d) for d, q in zip(dists[i], inds[i]) if q >= 0)
        w = rank_worse(before, after, tol=2e-5, metric=metric)
        if w:
            res.violation("rank:init_graph:%s:%s" % (kind, metric),
                          "row %d rank %d: %r in the supplied initial graph, %r in the result" % (i, w[0], w[1], w[2]), case)
            return


def api_good_init(res, rng, metric, sparse=False, p=None, zero_rows=False, with_dist=False, wide=False):
    """a GOOD supplied graph (exact k-NN) with a few unknown (-1) entries, one of them in row 0, and no refinement: whatever the
    construction does, no supplied neighbour may be lost (random initialisation cannot rediscover them)"""
    from scipy.spatial.distance import cdist
    n, dim, k = 200, 10, 6
    X = rng.standard_normal((n, dim)).astype(np.float32)
    if sparse:
        X = (X * (rng.random((n, dim)) < 0.7)).astype(np.float32); X[~X.any(axis=1), 0] = 1.0
        if zero_rows:
            X[[5, 77, 141]] = 0.0                       # rows with nothing stored: their supplied neighbours count like any other row's
    D = cdist(X.astype(np.float64), X.astype(np.float64), {"euclidean": "euclidean", "manhattan": "cityblock", "minkowski": "minkowski"}[metric],
              **({"p": p} if p else {}))
    if wide:
        X[2] *= np.float32(0.05)          # a row close to the origin: nearer to "nothing" than to any of its neighbours
        if sparse:
            X[2, 0] = np.float32(0.05)
        D = cdist(X.astype(np.float64), X.astype(np.float64), {"euclidean": "euclidean", "manhattan": "cityblock", "minkowski": "minkowski"}[metric],
                  **({"p": p} if p else {}))
    G = np.argsort(D, axis=1)[:, :(k + 2 if wide else k)].astype(np.int32)
    if wide:
        # more candidate columns than n_neighbors, an unknown entry AFTER k known ones (the heap is full when it is reached)
        G[2, k] = -1; G[7, k + 1] = -1
    G[0, int(rng.integers(1, k))] = -1
    for r_ in rng.integers(1, n, 5):
        G[int(r_), int(rng.integers(1, k))] = -1
    G[1, 0] = -1                                        # an unknown entry may stand anywhere, also in front of known ones
    import scipy.sparse as sp_
    more = {}
    if with_dist:
        # the caller also supplies the (true) distances of its graph: a metric without an internal surrogate takes them as they are
        more["init_dist"] = np.where(G >= 0, np.take_along_axis(D, np.maximum(G, 0), axis=1), 0.0).astype(np.float32)
    idx = NNDescent(sp_.csr_matrix(X) if sparse else X, metric=metric, metric_kwds=({"p": p} if p else None), n_neighbors=k,
                    random_state=int(rng.integers(10 ** 6)), init_graph=G, n_iters=0, **more)
    inds, dists = idx.neighbor_graph
    case = {"metric": metric, "sparse": sparse, "p": p, "n": n, "k": k, "init": "exact k-NN with a -1 hole in row 0", "n_iters": 0}
    res.case(("good-init", metric, sparse, zero_rows, X.tobytes()[:64]), True, sample=case); res.count("api_good_init"); res.traces += 1
    ghost = [(i, j) for i in range(n) for j in range(k) if inds[i, j] < 0 and np.isfinite(dists[i, j])]
    if ghost:
        i, j = ghost[0]
        res.violation("rank:init_graph:%s:%s" % ("csr" if sparse else "dense32", metric),
                      "exact initial graph with holes: row %d holds a -1 entry with the finite distance %r at position %d (an unknown "
                      "entry of init_graph was pushed as if it were a neighbour: it takes the slot of a supplied one)" % (i, float(dists[i, j]), j), case)
        return
    for i in range(n):
        before = sorted(float(D[i, q]) for q in set(int(q_) for q_ in G[i]) if q >= 0)[:k]      # the result has k slots
        after = sorted(float(d) for d, q in zip(dists[i], inds[i]) if q >= 0)
        w = rank_worse(before, after, tol=2e-5, metric=metric)
        if w:
            res.violation("rank:init_graph:%s:%s" % ("csr" if sparse else "dense32", metric), "exact initial graph with holes: row %d rank %d: %r supplied, %r in the result"
                          % (i, w[0], w[1], w[2]), case)
            return


def api_iters_case(res, rng, metric, kind):
    n = int(rng.choice([80, 250])); k = int(rng.choice([4, 10])); dim = 5
    X, L = api.gen_dataset(rng, metric, kind, n, dim)
    kw = api.metric_kwds(metric, rng, dim); seed = int(rng.integers(10 ** 6))
    t = int(rng.choice([0, 1, 2, 3])); mc = int(rng.choice([3, 10, 30])); tree = bool(rng.integers(2))
    case = {"metric": metric, "kind": kind, "n": n, "k": k, "t": t, "seed": seed, "max_candidates": mc, "tree_init": tree}
    outs = []
    for it in (t, t + 1):
        idx = NNDescent(X, metric=metric, metric_kwds=kw, n_neighbors=k, random_state=seed, n_iters=it, delta=0.0,
                        tree_init=tree, max_candidates=mc)
        outs.append(idx.neighbor_graph)
    (i0, d0), (i1, d1) = outs
    res.case(("iters", metric, kind, n, k, t, seed, mc, tree, np.asarray(L).tobytes()), nontrivial=not np.array_equal(d0, d1),
             sample={**case, "row0_t": [float(v) for v in d0[0]], "row0_t+1": [float(v) for v in d1[0]]})
    res.count("api_iters"); res.traces += 1
    for i in range(n):
        b = sorted(float(d) for d, q in zip(d0[i], i0[i]) if q >= 0)
        a = sorted(float(d) for d, q in zip(d1[i], i1[i]) if q >= 0)
        w = rank_worse(b, a, metric=metric)
        if w:
            res.violation("rank:iteration:%s:%s" % (kind, metric),
                          "row %d rank %d: %r after %d iterations, %r after %d" % (i, w[0], w[1], t, w[2], t + 1), case)
            return


def api_update(res, rng, metric):
    n = int(rng.choice([60, 200])); k = int(rng.choice([4, 8])); dim = 4
    X, L = api.gen_dataset(rng, metric, "dense32", n, dim)
    kw = api.metric_kwds(metric, rng, dim)
    prep = bool(rng.integers(2))
    case = {"metric": metric, "n": n, "k": k, "prepare_first": prep}
    idx = NNDescent(X, metric=metric, metric_kwds=kw, n_neighbors=k, random_state=int(rng.integers(10 ** 6)))
    rows = n
    for step in range(int(rng.choice([1, 2]))):
        # the lists as they stand BEFORE the search structures are (re)built: prepare / query must not cost the index anything
        i0, d0 = idx.neighbor_graph
        i0, d0 = i0.copy(), d0.copy()
        if prep:
            idx.prepare()
            if step % 2 == 0:
                idx.query(X[:3], k=3)
        U, _ = api.gen_dataset(rng, metric, "dense32", int(rng.choice([1, 10, 40])), dim)
        if step % 2 == 1 or rng.integers(3) == 0:
            # row numbers without replacement rows are documented to be ignored (a warning): still an append-only update
            idx.update(xs_fresh=U, updated_indices=[int(v) for v in rng.integers(0, rows, 4)])
        else:
            idx.update(xs_fresh=U)
        i1, d1 = idx.neighbor_graph
        res.case(("update", metric, n, k, prep, step, np.asarray(L).tobytes(), U.tobytes()), True,
                 sample={**case, "appended": int(U.shape[0]), "row0_before": [float(v) for v in d0[0]], "row0_after": [float(v) for v in d1[0]]})
        res.count("api_update"); res.traces += 1
        for i in range(rows):
            b = sorted(float(d) for d, q in zip(d0[i], i0[i]) if q >= 0)
            a = sorted(float(d) for d, q in zip(d1[i], i1[i]) if q >= 0)
            w = rank_worse(b, a, metric=metric)
            if w:
                res.violation("rank:update:%s" % metric, "after appending %d rows, row %d rank %d went from %r to %r"
                              % (U.shape[0], i, w[0], w[1], w[2]), {**case, "step": step})
                return
        rows += U.shape[0]


def run(res, tier, seed, search):
    rng = np.random.default_rng(seed + 1313)
    res.rule = ("kernel: nn_descent from random well-formed heaps on integer data, rows compared rank-wise (exact) and run compared with "
                "the model, non-trivial = some row improved; API: supplied init_graph (-1 holes, +-init_dist) vs result, n_iters t vs t+1 "
                "with the same seed (non-trivial = arrays differ), neighbor_graph before vs after update(xs_fresh)")
    nk, reps = (8, 2) if tier == "quick" else (60, 8)
    if search:
        nk, reps = nk * 3, reps * 3
    kernel_level(res, rng, nk)
    dk.check_init_kernels(res, rng, 15 if tier == "quick" else 150)
    combos = [("euclidean", "dense32"), ("cosine", "csr"), ("manhattan", "dense32"), ("hellinger", "dense32"), ("jaccard", "csr")]
    pick = [combos[(seed + i) % len(combos)] for i in range(2 if tier == "quick" else len(combos))]
    for metric, kind in pick:
        for r in range(reps):
            api_init_graph(res, rng, metric, kind, wide=(r == 0))
            api_iters_case(res, rng, metric, kind)
    # the normalising metric has its own glue in the constructor (the seeds must be measured on the data the descent runs on)
    for r in range(2 if tier == "quick" else 6):
        api_init_graph(res, rng, "dot", "dense32", wide=(r == 0))
    api_init_graph(res, rng, "minkowski", "csr")          # metric arguments must reach the seeding of a CSR index too
    api_good_init(res, rng, "minkowski", sparse=True, p=3.0)
    api_good_init(res, rng, "euclidean", sparse=True, zero_rows=True)
    api_good_init(res, rng, "euclidean", sparse=True, wide=True)
    api_good_init(res, rng, "euclidean")
    api_good_init(res, rng, "manhattan", with_dist=True)     # init_dist is used as supplied only when the metric has no surrogate
    if tier != "quick":
        api_good_init(res, rng, "manhattan")
        api_good_init(res, rng, "euclidean", with_dist=True)
    for metric in (["euclidean", "cosine"] if tier == "quick" else ["euclidean", "cosine", "manhattan", "correlation"]):
        for r in range(reps):
            api_update(res, rng, metric)
    numba.set_num_threads(numba.config.NUMBA_NUM_THREADS)


if __name__ == "__main__":
    std_main("C13", run)
