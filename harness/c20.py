"""C20 — connect_graph terminates and returns a connected supergraph.

kernel level (this process)
    * utils.tau_rand_int / utils.tau_rand streams vs the Lean generator, bit for bit (random states incl.
      negative words, structured and degenerate states);
    * utils.rejection_sample vs the Lean model exactly (samples AND generator state afterwards) for
      n_samples <= pool_size (incl. equal, pool_size 1, n_samples 0) and the property predicate
      (duplicate-free, in range, right length) on the real output.  The model is asked first: when it
      says `diverged` (n_samples > pool_size — theorem rejection_sample_diverges — or a degenerate
      generator state whose stream is constant) the real kernel is NEVER called in this process; it is
      called in a child process that is killed at a deadline.
API level (child processes, one per metric, killed at a deadline; a hang = violation connect:timeout)
    generated multi-component data sets -> NNDescent(data, n_neighbors=k).prepare() ->
    graph = adjacency_matrix_representation(*index.neighbor_graph) (the module's own constructor of the
    symmetric weighted k-neighbour graph) -> connect_graph(graph, index, search_size).  The result must
    be symmetric, contain every entry of `graph` unchanged, be one connected component, and every added
    entry must join two different components of `graph` with the true metric distance of its endpoints
    (float64 reference on the caller's data, relative tolerance 1e-5).  Every rejection_sample call made
    by the real find_component_connection_edge is recorded (pass-through wrapper installed in the child;
    /repo is untouched) and compared with the model; the alternating loop's state is recorded at every
    round, a repeated state proves the (deterministic) loop never exits.
"""
import sys, os, json, random, shutil, subprocess, tempfile, time
sys.path.insert(0, os.path.dirname(os.path.dirname(os.path.abspath(__file__))))
from harness.common import *
setup_numba_cache()

PY = sys.executable
INT32_MIN, INT32_MAX = -2 ** 31, 2 ** 31 - 1
METRICS = ["euclidean", "cosine", "manhattan", "hamming", "jaccard", "hellinger"]   # surrogate + sqrt, surrogate + log correction, no surrogate, no surrogate + angular trees (not scale free)
REL_TOL = 1e-5
# cosine is evaluated as 1 - 2**(-log2(...)) in float32: whatever the code does, a value near 1 is subtracted from 1, so the
# result carries an absolute error of a few float32 ulps of 1.0 (1.2e-7); small cosine distances therefore get an absolute
# floor of 4 ulp(1.0).  euclidean / manhattan involve no cancellation: purely relative.
ABS_TOL = {"cosine": 4 * 2.0 ** -23, "euclidean": 0.0, "manhattan": 0.0, "hamming": 0.0, "jaccard": 4 * 2.0 ** -23, "hellinger": 1e-5}
# a sparse matrix cannot hold a 0.0 entry; the module's own convention for a zero distance (adjacency_matrix_representation:
# "Preserve any distance 0 points") is FLOAT32_EPS - accepted as the weight of an edge whose true length is 0
FLOAT32_EPS = 2.0 ** -23


_SAMPLED = set()


def once(kind, sample):
    """Evidence keeps the first 4 samples: give it one of each kind of case instead of four of the first kind."""
    if kind in _SAMPLED:
        return None
    _SAMPLED.add(kind)
    return {"kind": kind, **sample}


# =============================================================================================
# kernel level
# =============================================================================================
def gen_state(rng, style):
    if style == "api":         # what NNDescent.__init__ produces: randint(INT32_MIN, INT32_MAX, 3).astype(int64)
        return [rng.randint(INT32_MIN + 1, INT32_MAX - 1) for _ in range(3)]
    if style == "neg":
        return [-rng.randint(1, INT32_MAX - 1) for _ in range(3)]
    if style == "mixed":
        return [rng.choice([-1, 1]) * rng.randint(1, INT32_MAX - 1) for _ in range(3)]
    if style == "edge":
        return [rng.choice([INT32_MIN + 1, INT32_MAX - 1, -1, 0, 1, 2, 7, 8, 15, 16, 0xFFFF, -0xFFFF, 2 ** 31, 2 ** 32 - 1,
                            2 ** 40 + 12345, -2 ** 40 - 777, 4294967294, 4294967288, 4294967280]) for _ in range(3)]
    if style == "derived":     # rng_state + i, as the per-row / per-thread states
        return [v + rng.randint(0, 5000) for v in gen_state(rng, "api")]
    raise ValueError(style)


def kernel_rng(res, rng, n_states, count):
    import numpy as np
    from pynndescent import utils
    styles = ["api", "api", "neg", "mixed", "edge", "derived"]
    states = [(styles[i % len(styles)], gen_state(rng, styles[i % len(styles)])) for i in range(n_states)]
    lines = []
    for _, st in states:
        lines.append("rng-int %d %d %d %d" % (st[0], st[1], st[2], count))
        lines.append("rng-float %d %d %d %d" % (st[0], st[1], st[2], count))
    out = run_driver(lines)
    for i, (style, st) in enumerate(states):
        a = np.array(st, dtype=np.int64)
        ints = [int(utils.tau_rand_int(a)) for _ in range(count)]
        impl_i = ints_row(ints) + " | " + ints_row(a)
        b = np.array(st, dtype=np.int64)
        fl = [utils.tau_rand(b) for _ in range(count)]
        impl_f = bits_row(np.array(fl, dtype=np.float32)) + " | " + ints_row(b)
        res.count("rng_state_" + style)
        res.count("rng_negative_word", int(any(v < 0 for v in st)))
        nontrivial = len(set(ints)) > count // 2
        res.case(("rng", tuple(st), count), nontrivial, sample=once("generator stream", {"state": st, "first_ints": ints[:4]}))
        res.traces += 2
        if out[2 * i] != impl_i:
            res.corr_fail("tau_rand_int_bit_exact", {"state": st, "count": count}, out[2 * i][:300], impl_i[:300])
        if out[2 * i + 1] != impl_f:
            res.corr_fail("tau_rand_bit_exact", {"state": st, "count": count}, out[2 * i + 1][:300], impl_f[:300])
        # the documented range of both kernels, on the REAL output
        if any(not (INT32_MIN <= v <= INT32_MAX) for v in ints):
            res.violation("connect:tau_rand_int:range", "tau_rand_int left the int32 range", {"state": st})
        if any(not (0.0 <= float(v) <= 1.0) for v in fl):
            res.violation("connect:tau_rand:range", "tau_rand left [0, 1]", {"state": st})


def rej_predicate(n, pool, out):
    out = [int(v) for v in out]
    if len(out) != n:
        return "returned %d samples, asked for %d" % (len(out), n)
    if len(set(out)) != len(out):
        return "a value was selected twice: %r" % (out,)
    if any(not (0 <= v < pool) for v in out):
        return "sample outside [0, pool_size): %r" % (out,)
    return None


HANG_CHILD = r"""
import sys, os
sys.path.insert(0, %(verif)r)
from harness.common import setup_numba_cache
setup_numba_cache()
import numpy as np
from pynndescent import utils
s = np.array(%(warm)r, dtype=np.int64)
utils.rejection_sample(np.int64(2), 5, s)            # compiled and working before the clock starts
print("ready", flush=True)
s[:] = np.array(%(state)r, dtype=np.int64)
r = utils.rejection_sample(np.int64(%(n)d), %(pool)d, s)
print("returned " + " ".join(str(int(v)) for v in r) + " | " + " ".join(str(int(v)) for v in s), flush=True)
"""


def real_rejection_in_child(n, pool, state, deadline):
    """Run the real rejection_sample on an input the model says does not finish: child process, killed at a
    deadline that starts when the child reports the kernel compiled and working.  Returns None (still running
    at the deadline) or the line the child printed."""
    code = HANG_CHILD % {"verif": VERIF, "warm": [123456789, 362436069, 521288629], "state": list(state), "n": n, "pool": pool}
    p = subprocess.Popen([PY, "-c", code], stdout=subprocess.PIPE, stderr=subprocess.DEVNULL,
                         env=dict(os.environ, PYTHONDONTWRITEBYTECODE="1"))
    try:
        line = p.stdout.readline().decode().strip()
        if line != "ready":
            raise RuntimeError("hang child did not get ready: %r" % line)
        try:
            p.wait(timeout=deadline)
        except subprocess.TimeoutExpired:
            return None
        return p.stdout.read().decode().strip()
    finally:
        p.kill()
        p.wait()


def kernel_rejection(res, rng, n_cases, n_diverging):
    import numpy as np
    from pynndescent import utils
    cases = []
    pools = [1, 1, 2, 3, 4, 5, 7, 10, 10, 16, 17, 40, 100, 1000]
    for i in range(n_cases):
        pool = rng.choice(pools)
        n = rng.choice([0, 1, pool // 2, max(pool - 1, 0), pool, pool, min(10, pool), min(pool, rng.randint(0, pool))])
        style = rng.choice(["api", "api", "neg", "mixed", "derived"])
        cases.append({"n": n, "pool": pool, "state": gen_state(rng, style), "style": style})
    # degenerate generator states (constant stream): the model must say `diverged` for n >= 2 and the real
    # kernel must not be called here
    cases.append({"n": 2, "pool": 5, "state": [1, 2, 3], "style": "degenerate"})
    cases.append({"n": 1, "pool": 5, "state": [1, 2, 3], "style": "degenerate"})
    div = []
    for i in range(n_diverging):   # n_samples > pool_size: only the model here, the real kernel in a child
        pool = rng.choice([1, 2, 3, 6, 9])
        div.append({"n": pool + rng.choice([1, 1, 2, 10 - pool if pool < 10 else 1]), "pool": pool,
                    "state": gen_state(rng, "api"), "style": "too-many"})
    cases += div
    model = run_driver(["rejsample %d %d %d %d %d" % (c["n"], c["pool"], c["state"][0], c["state"][1], c["state"][2])
                        for c in cases])
    hang_budget = n_diverging + 1
    for c, m in zip(cases, model):
        n, pool, st = c["n"], c["pool"], c["state"]
        res.count("rej_" + ("n=pool" if n == pool else "n=0" if n == 0 else "n<pool" if n < pool else "n>pool"))
        res.count("rej_pool1", int(pool == 1))
        if m == "diverged":
            res.count("rej_model_diverged")
            res.case(("rejdiv", n, pool, tuple(st)), True,
                     sample=once("rejection_sample, model says diverged (real kernel only in a killed child)" if n > pool else "skip",
                                 {"n_samples": n, "pool_size": pool, "state": st, "model": m}) if n > pool else None)
            if n <= pool and c["style"] != "degenerate":
                res.corr_fail("rejection_sample_fuel", c, m, "model needed more than 10^6 draws for n_samples <= pool_size")
            if hang_budget > 0:
                hang_budget -= 1
                got = real_rejection_in_child(n, pool, st, 4.0)
                res.traces += 1
                res.count("rej_real_in_child")
                if got is None:
                    res.count("rej_real_still_running_at_deadline")
                else:
                    res.corr_fail("rejection_sample_diverges", c, m, got)
                    if got.startswith("returned"):
                        bad = rej_predicate(n, pool, [int(v) for v in got[9:].split(" | ")[0].split()])
                        if bad:
                            res.violation("connect:rejection_sample:spec", bad, c)
            continue
        a = np.array(st, dtype=np.int64)
        out = utils.rejection_sample(np.int64(n), pool, a)
        impl = ints_row(out) + " | " + ints_row(a)
        res.traces += 1
        nontrivial = n >= 2 and n * 2 >= pool      # rejections are likely (birthday bound) -> the while loop iterates
        res.case(("rej", n, pool, tuple(st)), nontrivial,
                 sample=once("rejection_sample" if nontrivial else "rejection_sample (trivial)",
                             {"n_samples": n, "pool_size": pool, "state": st, "out": [int(v) for v in out][:10]}) if nontrivial else None)
        if m != impl:
            res.corr_fail("rejection_sample_exact", c, m, impl)
        bad = rej_predicate(n, pool, out)
        if bad:
            res.violation("connect:rejection_sample:spec", bad, c)


# =============================================================================================
# API level: data sets
# =============================================================================================
def gen_api_case(rng, metric, family, cid):
    k = rng.choice([2, 3, 3, 4, 5, 5, 8, 15])
    ss = rng.choice([10, 10, 10, 10, 3, 5, 25])
    nclust = rng.randint(2, 8)
    sizes = []
    for c in range(nclust):
        kind = rng.choice(["closed-small", "closed-small", "big", "tiny"])
        if kind == "tiny":                     # fewer points than n_neighbors: merges with a neighbour cluster in the graph
            sizes.append(rng.randint(1, max(1, k - 1)))
        elif kind == "closed-small":           # closed under k nearest neighbours, but smaller than search_size
            sizes.append(rng.randint(k, max(k, 9)))
        else:
            sizes.append(rng.randint(10, 40))
    if sum(sizes) < k + 2:
        sizes.append(k + 2)
    return {"id": cid, "metric": metric, "family": family, "k": k, "search_size": ss, "sizes": sizes,
            "dim": rng.choice([2, 3, 5]), "dseed": rng.randint(0, 2 ** 31 - 1), "index_seed": rng.randint(0, 10 ** 6),
            # every fifth case: connect_graph, index.update(moved rows), connect_graph again on the same index object;
            # every fourth cosine case: the same directions at norms ~1e-8 (cosine is scale free)
            "update": cid % 5 == 2, "scale_exp": -30 if (metric == "cosine" and cid % 4 == 1) else 0}


def make_data(case):
    """The data set of a case, float32 (deterministic in the case description)."""
    import numpy as np
    r = np.random.default_rng(case["dseed"])
    sizes, fam, metric = case["sizes"], case["family"], case["metric"]
    nc = len(sizes)
    rows = []
    if metric == "cosine":
        # positive orthant (cosine's surrogate saturates at similarity <= 0: outside its documented range),
        # clusters = well separated directions, norms vary
        dim = max(3, nc + (case["dim"] % 3))
        for c, s in enumerate(sizes):
            centre = np.ones(dim); centre[c % dim] += 9.0; centre[(c // dim + c + 1) % dim] += 4.0 * (c // dim)
            if fam == "dup" and c < 2:
                base = centre.copy()
                m = max(s, 2 * case["k"] + 3)
                pts = np.array([base * (2.0 ** int(e)) for e in r.integers(-2, 3, size=m)])   # exactly parallel copies
            elif fam == "lattice":
                pts = centre + r.integers(0, 2, size=(s, dim)).astype(float)
                pts = pts * (2.0 ** r.integers(-1, 2, size=(s, 1)))
            else:
                pts = (centre + 0.3 * r.standard_normal((s, dim))).clip(0.05, None) * r.uniform(0.5, 4.0, size=(s, 1))
            rows.append(pts)
    elif metric == "hellinger":
        # word-count histograms over a vocabulary split into one block per cluster: different clusters have disjoint supports
        # (hellinger distance exactly 1, where the surrogate saturates)
        block = 6
        dim = block * nc
        for c, s in enumerate(sizes):
            pts = np.zeros((max(s, 2 * case["k"] + 3) if (fam == "dup" and c < 2) else s, dim))
            base = r.integers(1, 6, size=block).astype(float)
            for row in pts:
                row[c * block: (c + 1) * block] = base if (fam == "dup" and c < 2) else base + r.integers(0, 3, size=block)
            rows.append(pts)
    elif metric == "jaccard":
        # sets over a vocabulary: every cluster has its own block of words, so members of different clusters are disjoint
        # (jaccard distance exactly 1, where the log-scale surrogate saturates); inside a cluster the sets overlap
        block = 6
        dim = block * nc
        for c, s in enumerate(sizes):
            if fam == "dup" and c < 2:
                base = np.zeros(dim); base[c * block: c * block + 3] = 1.0
                pts = np.tile(base, (max(s, 2 * case["k"] + 3), 1))
            else:
                pts = np.zeros((s, dim))
                for row in pts:
                    m = int(r.integers(2, block + 1)) if fam != "lattice" else 3
                    row[c * block + r.choice(block, size=m, replace=False)] = 1.0
            rows.append(pts)
    elif metric == "hamming":
        # categorical rows (values 1..9, never unit norm): a cluster = a base word with at most two letters changed
        dim = 12
        if fam == "bits":
            # 64-bit code words: a cluster = a random word with at most two bits flipped (packed by the worker)
            for c, s in enumerate(sizes):
                base = r.integers(0, 2, size=64)
                pts = np.tile(base, (s, 1))
                for row in pts:
                    for _ in range(int(r.integers(0, 3))):
                        row[int(r.integers(64))] ^= 1
                rows.append(pts.astype(float))
            sizes = []
        for c, s in enumerate(sizes):
            base = r.integers(1, 10, size=dim)
            base[c % dim] = 10 + c                      # distinct clusters differ in most letters
            if fam == "dup" and c < 2:
                pts = np.tile(base, (max(s, 2 * case["k"] + 3), 1))
            else:
                pts = np.tile(base, (s, 1))
                for row in pts:
                    for _ in range(int(r.integers(0, 3))):
                        row[int(r.integers(dim))] = int(r.integers(1, 10))
            rows.append(pts.astype(float))
    else:
        dim = case["dim"]
        cells = set()
        while len(cells) < nc:
            cells.add(tuple(int(v) for v in r.integers(0, 4, size=dim)))
        cells = sorted(cells); r.shuffle(cells)
        for c, s in enumerate(sizes):
            centre = np.array(cells[c], dtype=float) * 64.0
            if fam == "dup" and c < 2:
                m = max(s, 2 * case["k"] + 3)
                base = centre if c == 0 else np.array(cells[0], dtype=float) * 64.0 + (0.0 if case["dseed"] % 2 else 3.0)
                pts = np.tile(base, (m, 1))            # >= 2k+3 copies of one point: zero-distance ties, the graph splits them
            elif fam == "lattice":
                side = 2
                while (side + 1) ** dim < s:
                    side += 1
                allp = np.array(np.meshgrid(*[np.arange(side + 1)] * dim)).reshape(dim, -1).T
                pts = centre + allp[r.permutation(len(allp))[:s]]
            else:
                pts = centre + 2.0 * r.standard_normal((s, dim))
            rows.append(pts)
    X = np.vstack(rows).astype(np.float32)
    X = X[r.permutation(X.shape[0])]
    return (X * np.float32(2.0 ** case.get("scale_exp", 0))).astype(np.float32)


def true_distance(metric, x, y):
    import numpy as np
    x = x.astype(np.float64); y = y.astype(np.float64)
    if metric == "euclidean":
        return float(np.sqrt(((x - y) ** 2).sum()))
    if metric == "manhattan":
        return float(np.abs(x - y).sum())
    if metric == "cosine":
        return float(1.0 - (x @ y) / np.sqrt((x @ x) * (y @ y)))
    if metric == "hamming":
        return float((x != y).mean())
    if metric == "hellinger":
        lx, ly = x.sum(), y.sum()
        if lx == 0 and ly == 0: return 0.0
        if lx == 0 or ly == 0: return 1.0
        return float(np.sqrt(max(0.0, 1.0 - np.sqrt(x * y).sum() / np.sqrt(lx * ly))))
    if metric == "jaccard":
        u = float(((x != 0) | (y != 0)).sum())
        return 0.0 if u == 0 else float(1.0 - ((x != 0) & (y != 0)).sum() / u)
    raise ValueError(metric)


# =============================================================================================
# API level: the child process
# =============================================================================================
def worker_main(casefile, outfile):
    import numpy as np, numba, signal, traceback, warnings
    warnings.filterwarnings("ignore")
    from scipy.sparse.csgraph import connected_components
    from pynndescent import NNDescent
    from pynndescent import graph_utils as gu

    out = open(outfile, "a")

    def emit(d):
        d["t"] = time.time()
        out.write(json.dumps(d) + "\n"); out.flush()

    class SoftTimeout(BaseException):
        pass

    class LoopCycle(BaseException):
        pass

    obs = {}

    def on_alarm(sig, fr):
        fs = [(os.path.basename(f.filename), f.name, f.lineno) for f in traceback.extract_stack(fr) if "pynndescent" in f.filename]
        obs["soft_where"] = fs[-1] if fs else None
        raise SoftTimeout()

    signal.signal(signal.SIGALRM, on_alarm)

    # (a refactored graph_utils may no longer import a helper under this name: then that observation point is simply absent)
    real_rs, real_ds = getattr(gu, "rejection_sample", None), getattr(gu, "deheap_sort", None)

    def rs_wrap(n_samples, pool_size, rng_state):
        # pass-through recorder; a call with n_samples > pool_size is announced first (it does not return)
        before = [int(v) for v in rng_state]
        emit({"ev": "call", "id": obs["id"], "what": "rejection_sample(n_samples=%d, pool_size=%d)" % (int(n_samples), int(pool_size))})
        obs["loop"] = {"seen": {}, "rounds": 0}
        r = real_rs(n_samples, pool_size, rng_state)
        obs["rs"].append([int(n_samples), int(pool_size), before, [int(v) for v in r], [int(v) for v in rng_state]])
        return r

    def ds_wrap(inds, dists):
        raw = (np.array(inds, copy=True), np.array(dists, copy=True)) if obs.get("search_tab") is not None else None
        r = real_ds(inds, dists)
        fr = sys._getframe(1)
        if fr.f_code.co_name == "find_component_connection_edge":
            L = fr.f_locals
            try:
                key = (int(L["query_side"]), L["indices"][0].tolist(), L["indices"][1].tolist(),
                       L["candidate_indices"].tolist(), bool(L["changed"][0]), bool(L["changed"][1]))
                key = json.dumps(key)
            except Exception:  # the function no longer has these locals: no cycle detection, the alarms remain
                key = None
            try:
                if len(obs.get("fe_calls", [])) < 25 and "cur_rounds" in obs:
                    sd = int(L["query_side"])
                    obs["cur_rounds"].append({"side": sd, "idx": [[int(v) for v in L["indices"][0]], [int(v) for v in L["indices"][1]]],
                                              "cand": [int(v) for v in L["candidate_indices"]], "ch": [bool(L["changed"][0]), bool(L["changed"][1])],
                                              "inds": [[int(v) for v in row] for row in r[0]],
                                              "dists": [[int(np.float32(v).view(np.uint32)) for v in row] for row in r[1]]})
                    if raw is not None and len(obs["search_lines"]) < 300:
                        queue_search_lines(obs, [int(v) for v in L["indices"][sd]], [int(v) for v in L["candidate_indices"]], raw, r)
            except Exception:  # noqa
                obs.pop("cur_rounds", None)
            st = obs.setdefault("loop", {"seen": {}, "rounds": 0})
            st["rounds"] += 1
            obs["max_rounds"] = max(obs.get("max_rounds", 0), st["rounds"])
            if key is not None:
                if key in st["seen"]:
                    obs["cycle"] = {"first_round": st["seen"][key], "again_round": st["rounds"], "state": key[:300]}
                    raise LoopCycle()
                st["seen"][key] = st["rounds"]
        return r

    def queue_search_lines(obs, qrows, cand, raw, srt):
        """one `search` command of the Lean search model (Model/Search.lean, the model of C02) per query row of this round:
        custom_search_closure = the query closure seeded with `candidate_indices` as its leaf and no random samples"""
        tab = obs["search_tab"]
        n = tab["n"]; k = raw[0].shape[1]
        for i, qv in enumerate(qrows):
            dq = tab["T"][:, qv]
            line = "search %d %d 0 | %s | %s | %s | %s | | %d" % (n, k, tab["indptr"], tab["indices"], " ".join(str(int(b)) for b in dq),
                                                               " ".join(str(c) for c in cand), int(np.float32(1.0).view(np.uint32)))
            exp = "%s ; %s | %s ; %s" % (" ".join(str(int(np.float32(v).view(np.uint32))) for v in raw[1][i]), " ".join(str(int(v)) for v in raw[0][i]),
                                         " ".join(str(int(np.float32(v).view(np.uint32))) for v in srt[1][i]), " ".join(str(int(v)) for v in srt[0][i]))
            obs["search_lines"].append((line, exp, {"query_vertex": int(qv), "candidates": cand[:12]}))

    @numba.njit
    def _table(X, f):
        n = X.shape[0]
        T = np.zeros((n, n), dtype=np.float32)
        for a in range(n):
            for b in range(n):
                T[a, b] = f(X[a], X[b])                  # dist(data[candidate], current_query), stored in the closure's float32 local
        return T

    def setup_search_tab(index, case):
        """only where the table is exact whatever fastmath does to the inlined kernel: integer-valued data, no normalisation"""
        obs["search_tab"] = None; obs["search_lines"] = []
        if case["family"] not in ("lattice", "dup") or case["metric"] not in ("euclidean", "manhattan") or index._raw_data.shape[0] > 220:
            return
        G = index._search_graph
        T = _table(index._raw_data, index._distance_func).view(np.uint32)
        obs["search_tab"] = {"n": int(index._raw_data.shape[0]), "T": T, "indptr": " ".join(str(int(v)) for v in G.indptr),
                             "indices": " ".join(str(int(v)) for v in G.indices)}

    def flush_search_lines(rec):
        lines = obs.get("search_lines") or []
        if not lines:
            return
        out = run_driver([l[0] for l in lines])
        sc = rec.setdefault("search_corr", {"compared": 0, "mismatch": None})
        for (line, exp, info), m in zip(lines, out):
            sc["compared"] += 1
            parts = m.split(" | ")
            got = " | ".join(parts[1:3]) if len(parts) == 4 else m
            if got != exp and sc["mismatch"] is None:
                sc["mismatch"] = {"info": info, "model": m[:300], "impl": exp[:300]}
        obs["search_lines"] = []

    real_fe = gu.find_component_connection_edge

    def fe_wrap(*a, **k):
        obs["cur_rounds"] = []
        r = real_fe(*a, **k)
        obs["edges"].append([int(r[0]), int(r[1]), float(r[2])])
        if obs.get("cur_rounds") and len(obs["fe_calls"]) < 25:
            obs["fe_calls"].append({"rounds": obs["cur_rounds"], "ret": [int(r[0]), int(r[1]), int(np.float32(r[2]).view(np.uint32))]})
        obs.pop("cur_rounds", None)
        return r

    if real_rs is not None:
        gu.rejection_sample = rs_wrap
    if real_ds is not None:
        gu.deheap_sort = ds_wrap
    gu.find_component_connection_edge = fe_wrap

    cases = json.load(open(casefile))
    emit({"ev": "hello", "n": len(cases)})
    first = {}
    for case in cases:
        obs.clear(); obs.update({"id": case["id"], "rs": [], "edges": [], "fe_calls": []})
        emit({"ev": "start", "id": case["id"]})
        rec = {"ev": "done", "id": case["id"], "violations": [], "exception": None}
        try:
            X = make_data(case)
            metric = case["metric"]
            if case["family"] == "bits":
                # the same categorical rows as a bit-packed index (uint8 words, metric bit_hamming)
                X = np.packbits((X.astype(np.int64) % 2).astype(np.uint8), axis=1)
                metric = "bit_hamming"
            k = min(case["k"], X.shape[0] - 1)
            index = NNDescent(X, n_neighbors=k, metric=metric, random_state=case["index_seed"])
            index.prepare()
            for phase in range(2 if case.get("update") else 1):
                if phase == 1:
                    # history: the same index object after update() - whatever connect_graph keeps between calls must not be stale
                    obs["phase"] = "build"
                    ur = np.random.default_rng(case["dseed"] + 1)
                    nu = max(1, X.shape[0] // 6)
                    ui = np.sort(ur.choice(X.shape[0], size=nu, replace=False))
                    X = X.copy()
                    moved = X[ur.permutation(X.shape[0])[:nu]] * np.float32(1.0 + 0.03 * ur.standard_normal((nu, 1))) \
                        + np.float32(2.0 ** case.get("scale_exp", 0)) * (0.2 * np.abs(ur.standard_normal((nu, X.shape[1])))).astype(np.float32)
                    X[ui] = moved.astype(np.float32)
                    index.update(xs_updated=X[ui], updated_indices=ui)
                    index.prepare()
                    rec["phase"] = "after-update"
                ni, nd = index.neighbor_graph
                graph = gu.adjacency_matrix_representation(ni, nd)
                G = graph.toarray()
                ncomp, lab = connected_components(graph)
                sizes = np.bincount(lab).tolist()
                rec.update({"n": int(X.shape[0]), "k": int(k), "n_components": int(ncomp), "component_sizes": sorted(sizes),
                            "input_symmetric": bool(np.array_equal(G, G.T)), "input_nnz": int(graph.nnz)})
                # soft (interruptible) deadline for the whole call: one search costs ~50 ms, there are C(ncomp, 2) of them, the
                # first call per metric also compiles the closure's callees; generous because the children share the machine
                soft = (20.0 if first.get(metric) else 40.0) + 0.5 * ncomp * (ncomp - 1) / 2
                first[metric] = True
                setup_search_tab(index, case)
                emit({"ev": "connect", "id": case["id"]})
                obs["phase"] = "connect"
                signal.setitimer(signal.ITIMER_REAL, soft)
                t0 = time.time()
                try:
                    result = gu.connect_graph(graph, index, search_size=case["search_size"])
                finally:
                    signal.setitimer(signal.ITIMER_REAL, 0)
                rec["connect_s"] = round(time.time() - t0, 3)
                flush_search_lines(rec)
                obs["phase"] = "predicate"
                R = result.toarray()
                bad = rec["violations"]
                if not np.array_equal(R, R.T):
                    i, j = [int(v) for v in np.argwhere(R != R.T)[0]]
                    bad.append(["asymmetric", "result[%d,%d]=%r but result[%d,%d]=%r" % (i, j, float(R[i, j]), j, i, float(R[j, i]))])
                lost = np.argwhere((G != 0) & (R != G))
                if len(lost):
                    i, j = [int(v) for v in lost[0]]
                    bad.append(["input-edge-changed", "input entry (%d,%d)=%r is %r in the result (%d such entries)"
                                % (i, j, float(G[i, j]), float(R[i, j]), len(lost))])
                nres, _ = connected_components(result)
                if nres != 1:
                    zero = [e for e in obs["edges"] if e[2] == 0.0]
                    if zero:
                        bad.append(["disconnected:zero-length-edge",
                                    "result has %d connected components (input had %d): %d of the %d connecting edges found have (surrogate) length 0.0 "
                                    "- e.g. internal vertices (%d,%d) - and `result[i, j] = 0.0` stores nothing in the sparse result"
                                    % (nres, ncomp, len(zero), len(obs["edges"]), zero[0][0], zero[0][1])])
                    else:
                        bad.append(["disconnected", "result has %d connected components (input had %d), %d connecting edges were returned"
                                    % (nres, ncomp, len(obs["edges"]))])
                added = np.argwhere((G == 0) & (R != 0))
                rec["added_entries"] = int(len(added))
                worst = 0.0
                for i, j in added:
                    i, j = int(i), int(j)
                    if lab[i] == lab[j]:
                        bad.append(["edge-inside-component", "added entry (%d,%d) joins two points of input component %d" % (i, j, int(lab[i]))])
                        break
                    td = true_distance(metric, X[i], X[j])
                    err = abs(float(R[i, j]) - td) / td if td > 0 else (0.0 if R[i, j] == 0 else float("inf"))
                    worst = max(worst, err)
                    if not abs(float(R[i, j]) - td) <= REL_TOL * td + ABS_TOL[metric] + (FLOAT32_EPS if td == 0.0 else 0.0):
                        bad.append(["edge-weight", "added entry (%d,%d) has weight %r, the %s distance of its endpoints is %r (rel. err %.3g)"
                                    % (i, j, float(R[i, j]), metric, td, err)])
                        break
                rec["worst_rel_err"] = worst
                if len(added) > ncomp * (ncomp - 1):
                    bad.append(["too-many-edges", "%d entries added for %d components" % (len(added), ncomp)])
        except LoopCycle:
            c = obs["cycle"]
            rec["violations"].append(["timeout:alternating-loop-cycle",
                                      "find_component_connection_edge: the loop state of round %d recurs at round %d (the loop is deterministic: "
                                      "it never exits); state (query_side, indices[0], indices[1], candidate_indices, changed) = %s"
                                      % (c["first_round"], c["again_round"], c["state"])])
        except BaseException as e:  # noqa
            if "cycle" in obs:
                c = obs["cycle"]
                rec["violations"].append(["timeout:alternating-loop-cycle", "loop state of round %d recurs at round %d; state = %s"
                                          % (c["first_round"], c["again_round"], c["state"])])
            elif "soft_where" in obs:
                rec["violations"].append(["timeout:soft", "connect_graph still running after the soft deadline, innermost package frame %r, "
                                                          "%d loop rounds in the current call" % (obs["soft_where"], obs.get("loop", {}).get("rounds", 0))])
            elif isinstance(e, (KeyboardInterrupt, SystemExit)):
                raise
            else:
                rec["exception"] = "%s: %s" % (type(e).__name__, str(e)[:300])
                rec["exception_phase"] = obs.get("phase", "build")
        rec["rs"] = obs["rs"]
        rec["fe_calls"] = obs.get("fe_calls", [])
        rec["n_edges_found"] = len(obs["edges"])
        rec["max_rounds"] = obs.get("max_rounds", 0)
        emit(rec)
    emit({"ev": "bye"})


# =============================================================================================
# API level: the parent side
# =============================================================================================
class Batch:
    def __init__(self, name, cases, tmp):
        self.name, self.todo, self.tmp = name, list(cases), tmp
        self.gen = 0
        self.proc = None
        self.records = {}            # id -> done record
        self.hard = []               # (case, last announced call)
        self.abandoned = []
        self.launch()

    def launch(self):
        self.gen += 1
        self.casefile = os.path.join(self.tmp, "%s_%d.cases.json" % (self.name, self.gen))
        self.outfile = os.path.join(self.tmp, "%s_%d.out.jsonl" % (self.name, self.gen))
        json.dump(self.todo, open(self.casefile, "w"))
        open(self.outfile, "w").close()
        self.pos = 0
        self.current = None
        self.last_call = None
        self.n_done_here = 0
        self.n_connect_here = 0
        self.phase = "build"
        self.last_progress = time.time()
        self.finished = False
        self.proc = subprocess.Popen([PY, "-m", "harness.c20", "--worker", self.casefile, self.outfile], cwd=VERIF,
                                     stdout=subprocess.DEVNULL, stderr=open(os.path.join(self.tmp, self.name + ".err"), "a"),
                                     env=dict(os.environ, PYTHONDONTWRITEBYTECODE="1"))

    def poll(self, first_deadline, case_deadline, max_restarts):
        """Read new progress lines; enforce the per-case hard deadline.  Returns True while the batch is alive."""
        if self.finished:
            return False
        with open(self.outfile) as f:
            f.seek(self.pos)
            chunk = f.read()
        if chunk and chunk.endswith("\n"):
            self.pos += len(chunk.encode())
            for line in chunk.split("\n"):
                if not line:
                    continue
                d = json.loads(line)
                self.last_progress = d["t"]
                if d["ev"] == "start":
                    self.current = d["id"]; self.last_call = None; self.phase = "build"
                elif d["ev"] == "connect":
                    self.phase = "connect"; self.n_connect_here += 1
                elif d["ev"] == "call":
                    self.last_call = d["what"]
                elif d["ev"] == "done":
                    self.records[d["id"]] = d
                    self.todo = [c for c in self.todo if c["id"] != d["id"]]
                    self.current = None; self.n_done_here += 1
                elif d["ev"] == "bye":
                    self.finished = True
        if self.finished:
            self.proc.wait()
            return False
        if self.phase == "build":      # NNDescent + prepare (JIT-heavy in a fresh process)
            limit = first_deadline if self.n_done_here == 0 else case_deadline
        else:                          # inside connect_graph: the soft alarm (40 s / 20 s) fires first on interruptible code
            limit = 60.0 if self.n_connect_here <= 1 else 30.0
        dead = self.proc.poll() is not None
        if time.time() - self.last_progress > limit or dead:
            self.proc.kill(); self.proc.wait()
            if self.current is not None:
                case = next(c for c in self.todo if c["id"] == self.current)
                self.todo = [c for c in self.todo if c["id"] != self.current]
                if dead:
                    try:
                        tail = open(os.path.join(self.tmp, self.name + ".err")).read()[-400:]
                    except OSError:
                        tail = ""
                    self.records[case["id"]] = {"ev": "done", "id": case["id"], "violations": [], "rs": [],
                                                "exception_phase": self.phase,
                                                "exception": "child process died (exit %r): %s" % (self.proc.returncode, tail)}
                else:
                    self.hard.append((case, self.last_call, limit, self.phase))
            elif dead and not self.todo:
                self.finished = True
                return False
            if self.todo and self.gen <= max_restarts:
                self.launch()
                return True
            self.abandoned += self.todo
            self.todo = []
            self.finished = True
            return False
        return True


def check_api_record(res, case, rec):
    key_case = {k: case[k] for k in ("metric", "family", "k", "search_size", "sizes", "dim", "dseed", "index_seed")}
    fam, metric = case["family"], case["metric"]
    res.count("api_family_" + fam); res.count("api_metric_" + metric)
    res.traces += 1
    if rec.get("exception"):
        if rec.get("exception_phase") == "connect":
            res.violation("connect:exception:bit-packed" if fam == "bits" else "connect:exception",
                          "connect_graph raised " + rec["exception"], key_case)
        else:       # building the index / evaluating the predicate failed: not connect_graph's doing, no verdict
            res.notes.append("infrastructure: %s phase raised %s for %r" % (rec.get("exception_phase"), rec["exception"], key_case))
            res.count("api_infrastructure_errors")
    ncomp = rec.get("n_components", 0)
    sizes = rec.get("component_sizes", [])
    small = [s for s in sizes if s < case["search_size"]]
    res.count("api_components_%s" % ("1" if ncomp <= 1 else "2" if ncomp == 2 else "3-4" if ncomp <= 4 else "5+"))
    res.count("api_component_smaller_than_search_size", len(small))
    res.count("api_added_entries", rec.get("added_entries", 0))
    res.hist["api_loop_rounds_max"] = max(res.hist.get("api_loop_rounds_max", 0), rec.get("max_rounds", 0))
    if ncomp >= 2 and not rec.get("input_symmetric", True):
        res.notes.append("adjacency_matrix_representation returned an asymmetric matrix for %r" % (key_case,))
    res.case((metric, fam, case["k"], case["search_size"], tuple(case["sizes"]), case["dim"], case["dseed"], case["index_seed"]),
             nontrivial=(ncomp >= 2 and len(small) >= 1),
             sample=once("connect_graph " + metric, {**key_case, "n": rec.get("n"), "component_sizes": sizes,
                                                      "added_entries": rec.get("added_entries"), "worst_rel_err": rec.get("worst_rel_err")})
             if (ncomp >= 2 and len(small) >= 1 and not rec.get("violations")) else None)
    for kind, what in rec.get("violations", []):
        res.violation("connect:" + kind, what, {**key_case, "component_sizes": sizes})
    sc = rec.get("search_corr")
    if sc:
        res.count("api_restricted_search_rows_compared", sc["compared"])
        if sc["mismatch"]:
            res.corr_fail("custom_search_closure_bit_exact", {**key_case, **sc["mismatch"]["info"]}, sc["mismatch"]["model"], sc["mismatch"]["impl"])
    if rec.get("fe_calls") and not rec.get("violations"):
        check_loop_calls(res, key_case, rec["fe_calls"])
    # every rejection_sample call the real code made: clamp precondition + exact agreement with the model
    calls = rec.get("rs", [])
    if calls:
        model = run_driver(["rejsample %d %d %d %d %d" % (c[0], c[1], c[2][0], c[2][1], c[2][2]) for c in calls])
        for c, m in zip(calls, model):
            res.count("api_rejection_sample_calls")
            impl = ints_row(c[3]) + " | " + ints_row(c[4])
            if m != impl:
                res.corr_fail("rejection_sample_exact_api", {"n_samples": c[0], "pool_size": c[1], "state": c[2], **key_case}, m, impl)
            bad = rej_predicate(c[0], c[1], c[3])
            if bad:
                res.violation("connect:rejection_sample:spec", bad, {"n_samples": c[0], "pool_size": c[1], "state": c[2]})
            if c[0] != min(case["search_size"], c[1]):
                res.corr_fail("clamped_sample_size", {"n_samples": c[0], "pool_size": c[1], **key_case},
                              "min(search_size, |component|) = %d" % min(case["search_size"], c[1]), c[0])


def altloop_line(call):
    rounds = call["rounds"]
    secs = []
    for rd in rounds:
        sd = rd["side"]
        secs.append("%d ; %s ; %s ; %d ; %s ; %s" % (sd, ints_row(rd["idx"][sd]), ints_row(rd["cand"]), len(rd["inds"][0]),
                                                 ints_row([v for row in rd["inds"] for v in row]), ints_row([v for row in rd["dists"] for v in row])))
    return "altloop %d | %s | %s | %s" % (len(rounds) + 5, ints_row(rounds[0]["idx"][0]), ints_row(rounds[0]["idx"][1]), " | ".join(secs))


def check_loop_calls(res, key_case, calls):
    """the real loop of find_component_connection_edge, round by round, against Model/Connect.lean `altLoopSeen` driven by the
    recorded search results: same loop keys at the top of every iteration, same number of searches, same best edge"""
    usable = []
    for c in calls:
        rs = c["rounds"]
        ok = bool(rs) and rs[0]["side"] == 0 and all(rd["inds"] and rd["inds"][0] for rd in rs)
        for rd in rs:
            sd = rd["side"]
            if rd["cand"] != rd["idx"][1 - sd]:
                res.corr_fail("alt_loop_candidates", {**key_case, "round": rd["side"]}, "candidate_indices = indices[1 - query_side]", rd["cand"][:10])
                ok = False
            if any(v < 0 for row in rd["inds"] for v in row[:1]) or len(rd["inds"]) != len(rd["idx"][sd]):
                ok = False            # a query row without any result: np.unique would hand on -1 (outside the model, reported by the predicate)
                res.count("api_loop_calls_unfilled_first_column")
        if ok:
            usable.append(c)
    if not usable:
        return
    model = run_driver([altloop_line(c) for c in usable])
    for c, m in zip(usable, model):
        res.count("api_loop_calls_compared"); res.count("api_loop_rounds_compared", len(c["rounds"]))
        keys = " | ".join("%d %s ; %s ; %d %d" % (rd["side"], ints_row(rd["idx"][0]), ints_row(rd["idx"][1]), int(rd["ch"][0]), int(rd["ch"][1]))
                          for rd in c["rounds"])
        impl_tail = "%s | %d %d %d" % (keys, c["ret"][0], c["ret"][1], c["ret"][2])
        parts = m.split(" | ", 1)
        head = parts[0].split()
        if len(parts) == 2 and len(head) == 2 and head[1] == "1":
            res.count("api_loop_exits_through_cycle_guard")
        if len(parts) != 2 or len(head) != 2 or int(head[0]) != len(c["rounds"]) or parts[1] != impl_tail:
            res.corr_fail("alt_loop_rounds", {**key_case, "searches": len(c["rounds"])}, m[:400], ("%d ? | " % len(c["rounds"])) + impl_tail[:400])


def api_collect(res, batches, all_cases, first_deadline, case_deadline, max_restarts, budget):
    t_end = res.t0 + budget          # measured from the start of the run (the kernel level ran while the children compiled)
    alive = True
    while alive:
        alive = False
        for b in batches:
            if b.poll(first_deadline, case_deadline, max_restarts):
                alive = True
        if time.time() > t_end:
            for b in batches:
                if not b.finished:
                    b.proc.kill(); b.proc.wait()
                    b.abandoned += b.todo; b.todo = []; b.finished = True
            res.notes.append("API level stopped at the overall budget of %d s" % budget)
            break
        if alive:
            time.sleep(0.3)
    got = sum(len(b.records) + len(b.hard) for b in batches)
    if all_cases and got * 2 < len(all_cases) and not any("overall budget" in n_ for n_ in res.notes):
        tails = []
        for b in batches:
            try:
                tails.append(open(os.path.join(b.tmp, b.name + ".err")).read()[-300:])
            except OSError:
                pass
        # no verdict is not a pass: the watched children did not get through their cases (exit 2, infrastructure)
        raise RuntimeError("C20 API level: only %d of %d cases produced a record (children died or restarts were exhausted); stderr tails: %r"
                           % (got, len(all_cases), tails))
    byid = {c["id"]: c for c in all_cases}
    for b in batches:
        for cid, rec in sorted(b.records.items()):
            check_api_record(res, byid[cid], rec)
        for case, last_call, limit, phase in b.hard:
            key_case = {k: case[k] for k in ("metric", "family", "k", "search_size", "sizes", "dim", "dseed", "index_seed")}
            if phase != "connect":      # NNDescent(...) / prepare() did not finish: not connect_graph's doing, no verdict
                res.notes.append("infrastructure: building the index made no progress for %d s, case skipped: %r" % (limit, key_case))
                res.count("api_build_timeouts")
                continue
            res.case(("hard", case["id"], case["dseed"]), True, sample=key_case)
            res.count("api_hard_timeouts")
            why = ""
            import re as _re
            m = _re.match(r"rejection_sample\(n_samples=(\d+), pool_size=(\d+)\)", last_call or "")
            if m and int(m.group(1)) > int(m.group(2)):
                why = " - more distinct samples than the pool holds: it never returns (theorem rejection_sample_diverges)"
            res.violation("connect:timeout", "connect_graph: no result and no progress for %d s (child process killed; the code was not interruptible, "
                          "i.e. inside a compiled kernel); last call announced by the real code: %s%s" % (limit, last_call or "none", why), key_case)
        if b.abandoned:
            res.notes.append("batch %s: %d cases not run (restarts exhausted after hard timeouts, or budget)" % (b.name, len(b.abandoned)))
            res.count("api_cases_not_run", len(b.abandoned))


# =============================================================================================
def run(res, tier, seed, search):
    rng = random.Random(seed * 7919 + 20)
    res.rule = ("kernel: generator streams from API-like / negative / edge / derived states, bit-exact; rejection_sample(n, pool) for "
                "n <= pool (incl. n = pool, pool = 1, n = 0) vs model exactly (samples + state), non-trivial = n >= 2 and 2n >= pool "
                "(rejections occur); n > pool and degenerate states only in a killed child.  API: 2..8 separated clusters of sizes 1..40 "
                "(families gauss / lattice (ties) / dup (>= 2k+3 copies of one point) / per metric euclidean, cosine, manhattan, hamming, jaccard and hellinger (clusters with disjoint supports: all cross distances exactly 1); "
                "k in 2..15, search_size in {3,5,10,25}), graph = adjacency_matrix_representation(neighbor_graph); non-trivial = the graph "
                "has >= 2 components and at least one smaller than search_size; distinct = hash of the case description")
    quick = tier == "quick"
    per_metric = 10 if quick else 40
    if search:
        per_metric = int(per_metric * 1.5)
    fams = ["gauss", "gauss", "gauss", "lattice", "gauss", "dup", "lattice", "gauss"]
    cases_by_batch, all_cases = {}, []
    cid = 0
    for metric in METRICS:
        cs = []
        for i in range(per_metric if metric not in ("jaccard", "hellinger") else max(4, per_metric // 2)):
            cs.append(gen_api_case(rng, metric, fams[(i + seed) % len(fams)], cid)); cid += 1
        if metric == "hamming":
            # one bit-packed index per run (the component search closure is typed for float32 rows)
            b = gen_api_case(rng, "hamming", "bits", cid); cid += 1
            b["update"] = False
            cs.insert(0, b)
        cases_by_batch[metric] = cs
        all_cases += cs
    corpus = os.path.join(VERIF, "corpus", "C20.jsonl")
    if os.path.exists(corpus):
        for l in open(corpus):
            if l.strip() and not l.startswith("#"):
                c = json.loads(l); c["id"] = cid; cid += 1
                cases_by_batch[c["metric"]].insert(0, c); all_cases.append(c); res.count("corpus")
    # children first (they spend ~40 s compiling), the kernel level runs meanwhile in this process
    tmp = tempfile.mkdtemp(prefix="c20_")
    batches = [Batch(name, cases, tmp) for name, cases in cases_by_batch.items()]
    try:
        kernel_rng(res, rng, 40 if quick else 400, 64)
        kernel_rejection(res, rng, 300 if quick else 3000, 1 if quick else 4)
        api_collect(res, batches, all_cases, first_deadline=240.0, case_deadline=60.0,
                    max_restarts=2 if quick else 6, budget=150 if quick else 660)
    finally:
        for b in batches:
            if b.proc and b.proc.poll() is None:
                b.proc.kill()
        shutil.rmtree(tmp, ignore_errors=True)


def replay(res, doc):
    cases = []
    for i, c in enumerate(doc.get("cases", [])):
        case = dict(c["case"]); case["id"] = i
        if "dseed" in case:
            cases.append(case)
    if not cases:
        return run(res, doc.get("tier", "quick"), doc.get("seed", 0), False)
    tmp = tempfile.mkdtemp(prefix="c20_")
    batches = [Batch("replay", cases, tmp)]
    try:
        api_collect(res, batches, cases, 240.0, 60.0, 3, 600)
    finally:
        shutil.rmtree(tmp, ignore_errors=True)


if __name__ == "__main__":
    if len(sys.argv) >= 4 and sys.argv[1] == "--worker":
        worker_main(sys.argv[2], sys.argv[3])
    else:
        std_main("C20", run, replay)
