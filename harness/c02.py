"""C02 — query answers are true, in the caller's row order, and never fabricated.

(a) kernel level, bit-exact: real small indexes over integer-valued dense data; for every query the
    inputs the numba `search_closure` sees are reproduced from the real objects (search-graph CSR,
    distance table from the real `_distance_func`, leaf range from the real `_tree_search`, the
    generator values from the real `tau_rand_int` on the copy of `search_rng_state` that `query`
    itself makes) and handed to the Lean model (`Model/Search.lean`, float32); the raw result heap,
    the visited table, the sorted row and the translated / corrected public `query` answer are
    compared bit-for-bit.  The hypotheses of `C02.search_sound` (CSR well-formed, leaf duplicate
    free, draws `< n`) are checked on the real inputs as well.
(a') the same for the SPARSE `search_closure` of `_init_sparse_search_function` (real CSR indexes over
    integer-valued data): the model is unchanged — it takes the distances of the query as a table, and
    the table comes from the real sparse kernel `_distance_func(ind_v, data_v, q_ind, q_data)` on the
    stored (permuted) CSR rows; leaf from the real `sparse_tree_search_closure`; the query is handed to
    `query()` as sorted CSR / unsorted CSR / CSR with a stored zero / ndarray and the closure gets what
    `query()`'s sparse branch makes of it (`check_array`, `csr_matrix`, `sorted_indices`).
(a'') multi-row batches and `parallel_batch_queries=True`, both closures.  SERIAL mode, 2..6 rows: row i's leaf and
    draws are taken from the generator state as it stands when row i starts (ONE copy of `search_rng_state` carried
    through the rows: the real `_tree_search` and the real `tau_rand_int` advance it exactly as far as the code does; a
    zero-norm row under cosine / dot is `continue`d and draws nothing); every row's raw heap and sorted row, the visited
    table after the LAST row (the only one observable; the call is given a table full of ones) and the public answer
    are compared with the model of that row, the caller's state array must be unchanged.  PARALLEL mode (indexes built
    with `parallel_batch_queries=True`), 1..6 rows: row i is compared with the model run on the leaf / draws obtained
    from `search_rng_state + i` and an empty visited table; the caller's table (handed over full of ones) and state
    must be untouched; the batch must equal, bit for bit, its rows submitted one by one with the states `+ i`, and the
    same call repeated under `numba.set_num_threads(1 / 2 / 4)`.
(b) API level: the property predicate on the real `query` output for dense / CSR / bit-packed
    indexes x tree_init x compressed x parallel_batch_queries, k > n_neighbors, k > n, zero-norm
    queries under cosine / dot, data points as queries, epsilon in {0, 0.1, 0.5}; distances are
    compared with independent float64 references in the CALLER's row numbering.
"""
import sys, os, json, time, warnings
sys.path.insert(0, os.path.dirname(os.path.dirname(os.path.abspath(__file__))))
from harness.common import *
setup_numba_cache()
import numpy as np, scipy.sparse as sp
import numba
warnings.filterwarnings("ignore")
from pynndescent import NNDescent, utils
from pynndescent import distances as pynnd_dist

EPSILONS = [0.0, 0.1, 0.5]
RTOL, ATOL = 1e-5, 1e-6

# ----------------------------------------------------------------------------------------------
# independent float64 references (x = caller's data row, q = query), all on float64 copies of the
# float32 / uint8 values the index was given


def ref_euclidean(x, q):
    return float(np.sqrt(((x - q) ** 2).sum()))


def ref_manhattan(x, q):
    return float(np.abs(x - q).sum())


def ref_cosine(x, q):
    """1 - cos, saturated at 1 when the similarity is <= 0: the documented range of the surrogate
    pair (alternative_cosine, correct_alternative_cosine), see C09 ('metric_clamped')."""
    nx, nq = float(np.sqrt((x * x).sum())), float(np.sqrt((q * q).sum()))
    if nx == 0.0 and nq == 0.0:
        return 0.0
    if nx == 0.0 or nq == 0.0:
        return 1.0
    c = float((x * q).sum()) / (nx * nq)
    return 1.0 if c <= 0.0 else 1.0 - c


def ref_dot(x, q):
    """dot is documented for unit vectors; the search normalises the query itself."""
    nq = float(np.sqrt((q * q).sum()))
    if nq == 0.0:
        return 1.0
    c = float((x * q).sum()) / nq
    return 1.0 if c <= 0.0 else 1.0 - c


def ref_hamming(x, q):
    return float((x != q).sum()) / x.shape[0]


def ref_jaccard(x, q):
    a, b = x != 0, q != 0
    u = int((a | b).sum())
    return 0.0 if u == 0 else 1.0 - int((a & b).sum()) / u


_POP = np.array([bin(i).count("1") for i in range(256)])


def ref_bit_hamming(x, q):
    return float(_POP[np.bitwise_xor(x.astype(np.uint8), q.astype(np.uint8))].sum())


def ref_bit_jaccard(x, q):
    """the package documents (tests/test_distances.py::test_bit_jaccard, C07's spec table) bit_jaccard as
    -ln(Jaccard similarity) = -ln(|x & q| / |x | q|); both empty -> 0; disjoint -> inf (never a neighbour)"""
    x, q = x.astype(np.uint8), q.astype(np.uint8)
    u, i = int(_POP[x | q].sum()), int(_POP[x & q].sum())
    if u == 0:
        return 0.0
    return float("inf") if i == 0 else -float(np.log(i / u))


REFS = {"euclidean": ref_euclidean, "manhattan": ref_manhattan, "cosine": ref_cosine, "dot": ref_dot,
        "hamming": ref_hamming, "jaccard": ref_jaccard, "bit_hamming": ref_bit_hamming, "bit_jaccard": ref_bit_jaccard}


# ----------------------------------------------------------------------------------------------
# the property predicate on one answer row (real output)

def far_end(idx):
    """what the distance correction makes of the `inf` of an unfilled slot"""
    c = getattr(idx, "_distance_correction", None)
    v = np.array([np.inf], dtype=np.float32)
    return float(c(v)[0]) if c is not None else float("inf")


def row_predicate(metric, D64, q64, k, n, inds, dists, far):
    """returns None or (kind, description).  D64: the CALLER's rows (float64 / uint8), q64: the query."""
    if inds.shape != (k,) or dists.shape != (k,):
        return ("shape", "row has shape %r / %r, expected (%d,)" % (inds.shape, dists.shape, k))
    real = [int(v) for v in inds if v != -1]
    for v in real:
        if v < 0 or v >= n:
            return ("range", "slot holds %d: neither -1 nor a row number in [0,%d)" % (v, n))
    if len(set(real)) != len(real):
        return ("duplicate", "a data point is reported twice: %r" % (inds.tolist(),))
    seen_empty = False
    for v in inds:
        if v == -1:
            seen_empty = True
        elif seen_empty:
            return ("order", "a -1 slot precedes a real one: %r" % (inds.tolist(),))
    if np.isnan(dists).any():
        return ("distance", "NaN distance: %r" % (dists.tolist(),))
    if any(dists[j] > dists[j + 1] for j in range(k - 1)):
        return ("ascending", "distances not closest-first: %r" % (dists.tolist(),))
    ref = REFS[metric]
    for j, v in enumerate(inds):
        d = float(dists[j])
        if v == -1:
            if not (d == far):
                return ("sentinel_distance", "unfilled slot %d carries distance %r, expected %r" % (j, d, far))
        else:
            r = ref(D64[int(v)], q64)
            if not abs(d - r) <= RTOL * abs(r) + ATOL:
                return ("distance", "slot %d names caller row %d at distance %r; the metric gives %r" % (j, int(v), d, r))
    return None


# ----------------------------------------------------------------------------------------------
# (a) kernel level

def visited_set(table, n):
    return np.flatnonzero(np.unpackbits(table, bitorder="little")[:n]).tolist()


def closure_inputs(idx, q, k):
    """What `search_closure` sees for this single-row batch, taken from the real objects in the
    order the closure uses them.  Returns (leaf, draws [3 more than the code consumes], whether the tree
    search consumed generator values, number of draws the code makes).  `q`: the dense query row, or the
    pair (indices, data) of the CSR query row for the sparse closure (`sparse_tree_search_closure`)."""
    n = idx._raw_data.shape[0]                  # sparse closure: `n_index_points = data_indptr.shape[0] - 1`
    st = np.copy(idx.search_rng_state)          # `internal_rng_state = np.copy(rng_state)`
    before = st.copy()
    targs = q if isinstance(q, tuple) else (q,)
    b = idx._tree_search(*targs, st)            # may consume generator values on hyperplane ties
    consumed = not np.array_equal(before, st)
    if idx.tree_init:
        leaf = [int(v) for v in idx._search_forest[0].indices[int(b[0]):int(b[1])]]
    else:
        leaf = []                               # the dummy `tree_indices[0:0]`
    want = min(k, idx.n_neighbors) - len(leaf)
    draws = []
    for _ in range(max(want, 0) + 3):           # 3 more than the code draws: the model must not consume them
        v = np.int32(utils.tau_rand_int(st))
        with np.errstate(over="ignore"):
            draws.append(int(np.abs(v) % n))
    return leaf, draws, consumed, max(want, 0)


def hypotheses_ok(n, indptr, indices, leaf, draws):
    if len(indptr) != n + 1 or indptr[0] != 0 or indptr[-1] != len(indices):
        return "indptr shape"
    if np.any(np.diff(indptr) < 0):
        return "indptr not monotone"
    if len(indices) and (indices.min() < 0 or indices.max() >= n):
        return "CSR index out of range"
    if len(set(leaf)) != len(leaf):
        return "leaf candidates not distinct"
    if any(c < 0 or c >= n for c in leaf) or any(c < 0 or c >= n for c in draws):
        return "candidate out of range"
    return None


def gen_int_data(rng, n, dim, style):
    if style == "tiny":        # very tie-heavy: few distinct points, many exact duplicates
        X = rng.integers(0, 4, size=(n, dim))
    elif style == "grid":
        X = rng.integers(-4, 9, size=(n, dim))
    elif style == "line":      # points on an integer line: every integer distance occurs, so candidates sit exactly ON the
        X = np.zeros((n, dim))     # float32 bound fl(fl(1+eps) * root) (e.g. root 10, eps .1: bound 11.0, candidate at 11)
        X[:, 0] = rng.integers(0, n, size=n)
    elif style == "half":      # half-integers, wider
        X = rng.integers(-20, 21, size=(n, dim)) / 2.0
    else:                      # "real": gaussian; distances are arbitrary float32 values (dense around the bound)
        X = rng.standard_normal((n, dim)) * 3.0
    return np.ascontiguousarray(X, dtype=np.float32)


def gen_queries(rng, X, m, style="grid"):
    n, dim = X.shape
    lo, hi = float(X.min()), float(X.max())
    out = []
    for j in range(m):
        kind = ["point", "near", "half", "random", "far"][j % 5]
        if style == "real" and kind in ("near", "half", "random"):
            q = X[int(rng.integers(n))] + rng.standard_normal(dim) * {"near": 0.3, "half": 1.0, "random": 4.0}[kind]
        elif kind == "point":
            q = X[int(rng.integers(n))].copy()
        elif kind == "near":
            q = X[int(rng.integers(n))] + rng.integers(-1, 2, size=dim)
        elif kind == "half":
            q = X[int(rng.integers(n))] + rng.integers(-1, 2, size=dim) / 2.0
        elif kind == "random":
            q = rng.integers(int(lo) - 1, int(hi) + 2, size=dim).astype(float)
        else:
            q = np.full(dim, hi + 5.0) * rng.choice([-1.0, 1.0], size=dim)
        out.append((kind, np.ascontiguousarray(q, dtype=np.float32)))
    return out


def k_choices(n, nn):
    ks = {1, 2, 3, nn, nn + 3, 2 * nn + 1, max(1, nn - 1)}
    if n <= 64:
        ks |= {n, n + 2}
    ks = sorted(ks)
    return ks


def kernel_level(res, rng, plans, n_queries, combos_per_query, brng=None, n_batches=0, par=False):
    """plans: list of (metric, tree_init, n, dim, n_neighbors, style).  Single-row batches (n_queries x combos_per_query,
    serial indexes only), then `n_batches` multi-row batches drawn from the separate stream `brng` on the same index.
    par: the indexes are built with parallel_batch_queries=True (pass n_queries=0 and rng=brng: batches only)."""
    for (metric, tree_init, n, dim, nn, style) in plans:
        pending, t_plan = [], time.time()      # (line, context) for the driver, one driver process per index
        X = gen_int_data(rng, n, dim, style)
        seed = int(rng.integers(1 << 30))
        cfg = {"metric": metric, "tree_init": tree_init, "n": n, "dim": dim, "n_neighbors": nn, "style": style,
               "random_state": seed, "data": X.tolist() if n <= 40 else "gen_int_data(default_rng(seed+202), ...) in plan order"}
        if rng is brng and n > 40:
            cfg["data"] = "gen_int_data(default_rng(seed+20220202), ...) in plan order (the stream of the batch cases)"
        if par:
            cfg["parallel_batch_queries"] = True
        try:
            idx = NNDescent(X, metric=metric, n_neighbors=nn, random_state=seed, tree_init=tree_init,
                            parallel_batch_queries=par)
            idx.prepare()
        except Exception as e:  # noqa
            res.violation("query:raises", "%s: %s" % (type(e).__name__, str(e)[:200]), cfg)
            continue
        res.count("index_%s_tree%d%s" % (metric, int(tree_init), "_parallel" if par else ""))
        t_built = time.time() - t_plan
        g = idx._search_graph
        indptr, indices = np.asarray(g.indptr), np.asarray(g.indices)
        vo = np.asarray(idx._vertex_order)
        raw = idx._raw_data
        dist = idx._distance_func
        corr = idx._distance_correction
        far = far_end(idx)
        D64 = X.astype(np.float64)
        if not np.array_equal(raw, X[vo]):
            res.corr_fail("search_theorem_hypotheses", cfg, "raw = data ∘ vo", "_raw_data is not X[_vertex_order]")
        graph_part = "%s | %s" % (ints_row(indptr), ints_row(indices))
        ks = k_choices(n, nn)
        if style == "line":     # k-th neighbour at distance ~k/2: roots 10, 20 (x 1.1 = an integer distance that occurs)
            ks = sorted({3, nn, 2 * nn, 2 * nn + 1, 2 * nn + 2, 4 * nn, 4 * nn + 1})
        for (qkind, q) in gen_queries(rng, X, n_queries, style):
            dq = np.array([np.float32(dist(raw[v], q)) for v in range(n)], dtype=np.float32)
            dq_part = bits_row(dq)
            for _ in range(combos_per_query):
                k = int(ks[int(rng.integers(len(ks)))])
                eps = float(EPSILONS[int(rng.integers(len(EPSILONS)))])
                if style == "line" and rng.random() < 0.7:
                    eps = 0.1
                leaf, draws, consumed, want = closure_inputs(idx, q, k)
                hyp = hypotheses_ok(n, indptr, indices, leaf, draws)
                case = {"index": cfg, "query": q.tolist(), "k": k, "epsilon": eps}
                if hyp:
                    res.corr_fail("search_theorem_hypotheses", case, "hypotheses of C02.search_sound", hyp)
                # the real closure on this one row
                r = idx._search_function(q[None, :], k, eps, idx._visited, idx.search_rng_state)
                hi, hd = r[0][0].copy(), r[1][0].copy()
                vis = visited_set(idx._visited, n)
                si, sd = idx._deheap_function(r[0].copy(), r[1].copy())
                pub_i, pub_d = idx.query(q[None, :], k=k, epsilon=eps)
                line = "search %d %d %d | %s | %s | %s | %s | %d" % (
                    n, k, nn, graph_part, dq_part, ints_row(leaf), ints_row(draws), f32bits(np.float32(1.0 + eps)))
                ctx = dict(case=case, heap=bits_row(hd) + " ; " + ints_row(hi), srt=bits_row(sd[0]) + " ; " + ints_row(si[0]),
                           vis=vis, pub_i=pub_i[0], pub_d=pub_d[0], vo=vo, corr=corr, far=far, D64=D64, metric=metric,
                           n=n, k=k, qkind=qkind, leaf=len(leaf), want=want, consumed=consumed, eps=eps, nn=nn,
                           dq=dq, hi=hi, hd=hd, style=style)
                pending.append((line, ctx))
        if n_batches:
            dense_batches(res, brng, idx, X, cfg, style, n_batches, par, pending)
        judge_pending(res, pending)
        if par or metric in ("cosine", "dot"):
            res.notes.append("dense kernel %s tree_init=%s parallel=%s n=%d %s: build+prepare %.1f s, cases %.1f s" % (
                metric, tree_init, par, n, style, t_built, time.time() - t_plan - t_built))


# ----------------------------------------------------------------------------------------------
# (a') kernel level, sparse closure (`_init_sparse_search_function`)

def gen_sparse_int_data(rng, n, dim, style, distinct):
    """dense float32 matrix M (every row non-empty: empty CSR operands make `sparse_dot_product` /
    `sparse_select_side` read out of bounds) to be handed over as csr_matrix(M).  `distinct`: no two equal
    rows (tree_init=True: two equal pivots give an all -1 hyperplane row, again an out-of-bounds read —
    memory safety is outside the model, C14's note); distances still tie heavily."""
    def draw(m):
        if style == "tiny":
            V = rng.integers(0, 4, size=(m, dim)).astype(float)
        elif style == "grid":
            V = rng.integers(-4, 9, size=(m, dim)).astype(float)
        elif style == "line":        # one stored entry per row: every integer distance occurs (candidates ON the rounded bound)
            V = np.zeros((m, dim))
            V[:, 0] = rng.integers(1, 2 * n + 1, size=m)
            return V
        elif style == "half":
            V = rng.integers(-20, 21, size=(m, dim)) / 2.0
        else:                        # "real"
            V = rng.standard_normal((m, dim)) * 3.0
        V = V * (rng.random((m, dim)) < 0.55)
        for i in range(m):
            if not V[i].any():
                V[i, int(rng.integers(dim))] = 1.0
        return V
    M = np.ascontiguousarray(draw(n), dtype=np.float32)
    if distinct:
        for _ in range(60):
            seen, dup = set(), []
            for i in range(n):
                key = M[i].tobytes()
                if key in seen:
                    dup.append(i)
                seen.add(key)
            if not dup:
                break
            M[dup] = draw(len(dup)).astype(np.float32)
        else:
            for i in dup:            # value space exhausted: make the leftovers distinct by hand
                M[i, dim - 1] = np.float32(100 + i)
    return M


def on_bound_ks(dq, eps):
    """the k for which a COMPLETED search ends with a stored point exactly on the float32 bound: the k-th smallest distance r
    closes its tie group and some row lies at fl32(fl32(1 + eps) * r) > r.  (Whether `d < distance_bound` is evaluated on
    the float32 product or on a wider one decides such a candidate; random k hits this in ~0.5 % of the cases only.)"""
    sd = np.sort(dq)
    b = (np.float32(1.0 + eps) * sd).astype(np.float32)
    present = set(dq.tolist())
    return [j + 1 for j in range(len(sd) - 1) if sd[j] > 0 and sd[j + 1] > sd[j] and b[j] > sd[j] and float(b[j]) in present]


QUERY_FORMS = ["csr", "unsorted", "ndarray", "stored_zero"]


def sparse_query_forms(q, form):
    """(what the caller hands to `query`, what the sparse branch of `query` hands to the closure).
    The second is computed the way `query` does it: check_array(accept_sparse='csr', float32),
    csr_matrix(...) unless already CSR, sorted_indices() unless sorted."""
    from sklearn.utils import check_array
    dim = q.shape[0]
    nz = np.flatnonzero(q).astype(np.int32)
    if form == "unsorted" and len(nz) >= 2:
        ind = nz[::-1].copy()
        Q = sp.csr_matrix((q[ind].astype(np.float32), ind, np.array([0, len(ind)], dtype=np.int32)), shape=(1, dim))
    elif form == "ndarray":
        Q = q[None, :].copy()
    elif form == "stored_zero" and len(nz) < dim:
        z = int(np.flatnonzero(q == 0)[0])
        ind = np.sort(np.append(nz, np.int32(z))).astype(np.int32)
        Q = sp.csr_matrix((q[ind].astype(np.float32), ind, np.array([0, len(ind)], dtype=np.int32)), shape=(1, dim))
    else:
        form = "csr"
        Q = sp.csr_matrix(q[None, :].astype(np.float32))
    P = check_array(Q.copy() if sp.issparse(Q) else Q, accept_sparse="csr", dtype=np.float32)
    if not sp.isspmatrix_csr(P):
        P = sp.csr_matrix(P, dtype=np.float32)
    if not P.has_sorted_indices:
        P = P.sorted_indices()
    return form, Q, P


def sparse_kernel_level(res, rng, plans, n_queries, combos_per_query, brng=None, n_batches=0, par=False):
    """plans: list of (metric, tree_init, n, dim, n_neighbors, style).  Same comparison as `kernel_level`, on the
    closure of `_init_sparse_search_function`; findings are named `sparse_search_closure_bit_exact`, counters `s_…`
    (multi-row batches: `sparse_search_closure_batch_bit_exact` / `…_parallel_bit_exact`, counters `sb_…` / `sp_…`)."""
    for (metric, tree_init, n, dim, nn, style) in plans:
        pending, t_plan = [], time.time()
        M = gen_sparse_int_data(rng, n, dim, style, distinct=tree_init)
        X = sp.csr_matrix(M)
        seed = int(rng.integers(1 << 30))
        cfg = {"sparse": True, "metric": metric, "tree_init": tree_init, "n": n, "dim": dim, "n_neighbors": nn, "style": style,
               "random_state": seed,
               "data": M.tolist() if n <= 40 else "csr_matrix(gen_sparse_int_data(default_rng(seed+202202), ...)) in plan order"}
        if rng is brng and n > 40:
            cfg["data"] = "csr_matrix(gen_sparse_int_data(default_rng(seed+2022020202), ...)) in plan order (the stream of the batch cases)"
        if par:
            cfg["parallel_batch_queries"] = True
        try:
            idx = NNDescent(X, metric=metric, n_neighbors=nn, random_state=seed, tree_init=tree_init,
                            parallel_batch_queries=par)
            idx.prepare()
        except Exception as e:  # noqa
            res.violation("query:raises", "%s: %s" % (type(e).__name__, str(e)[:200]), cfg)
            continue
        res.count("s_index_%s_tree%d%s" % (metric, int(tree_init), "_parallel" if par else ""))
        t_built = time.time() - t_plan
        g = idx._search_graph
        indptr, indices = np.asarray(g.indptr), np.asarray(g.indices)
        vo = np.asarray(idx._vertex_order)
        raw = idx._raw_data                       # CSR, rows permuted: `self._raw_data[self._vertex_order, :]`
        rp, ri, rd = np.asarray(raw.indptr), np.asarray(raw.indices), np.asarray(raw.data)
        dist = idx._distance_func
        corr = idx._distance_correction
        far = far_end(idx)
        D64 = M.astype(np.float64)
        if not (sp.isspmatrix_csr(raw) and raw.shape == X.shape and np.array_equal(raw.toarray(), M[vo])):
            res.corr_fail("search_theorem_hypotheses", cfg, "raw = data ∘ vo", "_raw_data is not X[_vertex_order]")
        if not all(np.all(np.diff(ri[rp[v]:rp[v + 1]]) > 0) and rp[v + 1] > rp[v] for v in range(n)):
            res.corr_fail("search_theorem_hypotheses", cfg, "stored CSR rows sorted, non-empty", "a stored row is empty or unsorted")
        if tree_init:       # an internal node whose hyperplane is all -1 is routed through with an out-of-bounds read: not generated
            t = idx._search_forest[0]
            res.count("s_empty_hyperplane_nodes", int(((t.children[:, 0] > 0) & (t.hyperplanes[:, 0, :] < 0).all(axis=1)).sum()))
        graph_part = "%s | %s" % (ints_row(indptr), ints_row(indices))
        ks = k_choices(n, nn)
        if style == "line":
            ks = sorted({3, nn, 2 * nn, 2 * nn + 1, 2 * nn + 2, 4 * nn, 4 * nn + 1})
        for j, (qkind, q) in enumerate(gen_queries(rng, M, n_queries, style)):
            if qkind != "point":                  # sparsify the query as well
                q = (q * (rng.random(dim) < 0.7)).astype(np.float32)
            if not q.any():
                q[int(rng.integers(dim))] = np.float32(1.0)
            form, Q, P = sparse_query_forms(q, QUERY_FORMS[(j // 5 + j) % len(QUERY_FORMS)])
            qi, qp, qd = P.indices, P.indptr, P.data
            dq = np.array([np.float32(dist(ri[rp[v]:rp[v + 1]], rd[rp[v]:rp[v + 1]], qi, qd)) for v in range(n)], dtype=np.float32)
            dq_part = bits_row(dq)
            for _ in range(combos_per_query):
                k = int(ks[int(rng.integers(len(ks)))])
                eps = float(EPSILONS[int(rng.integers(len(EPSILONS)))])
                if style == "line" and rng.random() < 0.7:
                    eps = 0.1
                if style == "line" and eps > 0 and rng.random() < 0.6:
                    kd = on_bound_ks(dq, eps)
                    if kd:
                        k = int(kd[int(rng.integers(len(kd)))])
                        res.count("s_k_aimed_at_rounded_bound")
                leaf, draws, consumed, want = closure_inputs(idx, (qi, qd), k)
                hyp = hypotheses_ok(n, indptr, indices, leaf, draws)
                case = {"index": cfg, "query": q.tolist(), "query_form": form, "k": k, "epsilon": eps}
                if hyp:
                    res.corr_fail("search_theorem_hypotheses", case, "hypotheses of C02.search_sound", hyp)
                st0 = idx.search_rng_state.copy()
                r = idx._search_function(qi, qp, qd, k, eps, idx._visited, idx.search_rng_state)
                hi, hd = r[0][0].copy(), r[1][0].copy()
                vis = visited_set(idx._visited, n)
                if not np.array_equal(st0, idx.search_rng_state):     # the draws are taken from a copy: `query` below sees the same ones
                    res.corr_fail("sparse_search_closure_bit_exact", {**case, "stage": "rng state"},
                                  "search_rng_state unchanged " + ints_row(st0), ints_row(idx.search_rng_state))
                si, sd = idx._deheap_function(r[0].copy(), r[1].copy())
                pub_i, pub_d = idx.query(Q, k=k, epsilon=eps)
                line = "search %d %d %d | %s | %s | %s | %s | %d" % (
                    n, k, nn, graph_part, dq_part, ints_row(leaf), ints_row(draws), f32bits(np.float32(1.0 + eps)))
                ctx = dict(case=case, heap=bits_row(hd) + " ; " + ints_row(hi), srt=bits_row(sd[0]) + " ; " + ints_row(si[0]),
                           vis=vis, pub_i=pub_i[0], pub_d=pub_d[0], vo=vo, corr=corr, far=far, D64=D64, metric=metric,
                           n=n, k=k, qkind=qkind, leaf=len(leaf), want=want, consumed=consumed, eps=eps, nn=nn,
                           dq=dq, hi=hi, hd=hd, style=style, name="sparse_search_closure_bit_exact", pfx="s_", form=form)
                pending.append((line, ctx))
        if n_batches:
            sparse_batches(res, brng, idx, M, cfg, style, n_batches, par, pending)
        t_real = time.time() - t_plan
        judge_pending(res, pending)
        res.notes.append("sparse kernel %s tree_init=%s%s n=%d %s: build+prepare %.1f s, real calls %.1f s, model %.1f s" % (
            metric, tree_init, " parallel" if par else "", n, style, t_built, t_real - t_built, time.time() - t_plan - t_real))


# ----------------------------------------------------------------------------------------------
# (a'') multi-row batches: serial mode (the generator state is carried from row to row) and
#       `parallel_batch_queries=True` (row i: state `rng_state + i`, private visited table)

THREAD_COUNTS = (1, 2, 4)
DIRTY = 0xFF        # what the visited table handed to the closure is filled with before the call (serial: always; parallel:
                    # every other batch, the others get a cleared table)


def closure_row(idx, row):
    """`current_query` for the row (None: the dense closure `continue`s — zero norm under alternative_cosine /
    alternative_dot).  The sparse closure compares its SPARSE kernel with the dense ones: it never normalises."""
    if isinstance(row, tuple) or not (idx._distance_func is pynnd_dist.alternative_cosine
                                      or idx._distance_func is pynnd_dist.alternative_dot):
        return row
    norm = np.sqrt((row ** 2).sum())                    # float32 throughout, as in the closure
    return np.ascontiguousarray(row / norm, dtype=np.float32) if norm > 0.0 else None


def draw_from(st, n):
    v = np.int32(utils.tau_rand_int(st))                # advances `st` in place
    with np.errstate(over="ignore"):
        return int(np.abs(v) % n)


def batch_inputs(idx, rows, k, parallel):
    """What `search_closure` sees for every row of a batch, from the real objects, in the order the loop uses them.
    serial: ONE copy of `search_rng_state` (`internal_rng_state`) is advanced by the real `_tree_search` and the real
    `tau_rand_int` exactly as far as row i advances it, row i+1 starts from there; parallel: row i starts from the fresh
    array `internal_rng_state + i`.  A `continue`d row touches nothing.  The 3 surplus draws the model must not
    consume are taken from a throw-away copy."""
    n = idx._raw_data.shape[0]
    base = np.copy(idx.search_rng_state)                # `internal_rng_state = np.copy(rng_state)`
    st = base                                           # serial: `query_rng_state = internal_rng_state` (the same array)
    out = []
    for i, row in enumerate(rows):
        if parallel:
            st = base + i                               # `query_rng_state = internal_rng_state + i`
        start = st.copy()
        cur = closure_row(idx, row)
        if cur is None:
            out.append(dict(skipped=True, cur=None, leaf=[], draws=[], consumed=False, want=0, start=start))
            continue
        b = idx._tree_search(*(cur if isinstance(cur, tuple) else (cur,)), st)
        consumed = not np.array_equal(start, st)
        if idx.tree_init:
            leaf = [int(v) for v in idx._search_forest[0].indices[int(b[0]):int(b[1])]]
        else:
            leaf = []
        want = max(min(k, idx.n_neighbors) - len(leaf), 0)
        draws = [draw_from(st, n) for _ in range(want)]
        peek = st.copy()
        draws += [draw_from(peek, n) for _ in range(3)]
        out.append(dict(skipped=False, cur=cur, leaf=leaf, draws=draws, consumed=consumed, want=want, start=start))
    return out


def same_result(r, HI, HD):
    return (r[0].shape == HI.shape and np.array_equal(r[0], HI)
            and np.array_equal(np.ascontiguousarray(r[1]).view(np.uint32), HD.view(np.uint32)))


def heap_txt(hd, hi):
    return bits_row(hd) + " ; " + ints_row(hi)


def guarded(res, name, case, stage, f):
    """a direct call of the real closure; the unmodified closure never raises on these inputs (a changed one may: e.g. a
    table that is not cleared leaves the seed set empty and the first heappop raises) — recorded, the run goes on"""
    try:
        return f()
    except Exception as e:  # noqa
        res.corr_fail(name, {**case, "stage": stage}, "the closure returns", "raised %s: %s" % (type(e).__name__, str(e)[:200]))
        return None


def one_batch(res, idx, env, rows, qlog, qkinds, call, public, k, eps, parallel, extra, pending, fill=DIRTY, batch_no=0):
    """One batch on the real closure + one model command per row.
    rows[i]: what the closure gets as row i (dense float32 row / (indices, data) of the CSR row); qlog[i]: the logical
    query row (case, predicate); call(lo, hi, visited, state): the real closure on rows lo..hi-1 of the batch;
    public(): `idx.query` on the caller's form of the whole batch."""
    n, nn, name, pfx = env["n"], env["nn"], env["name"], env["pfx"]
    m = len(rows)
    case = {"index": env["cfg"], "mode": "parallel" if parallel else "serial", "batch": [q.tolist() for q in qlog],
            "k": k, "epsilon": eps, "visited_table_filled_with": fill, **extra}
    ins = batch_inputs(idx, rows, k, parallel)
    st0 = idx.search_rng_state.copy()
    table = np.full_like(idx._visited, fill)
    r = guarded(res, name, case, "call", lambda: call(0, m, table, idx.search_rng_state))
    res.count(pfx + "batches"); res.count(pfx + "batch_of_%d" % m)
    if r is None:
        return
    HI, HD = r[0].copy(), np.ascontiguousarray(r[1]).copy()
    if HI.shape != (m, k) or HD.shape != (m, k):
        res.corr_fail(name, {**case, "stage": "shape"}, "(%d, %d)" % (m, k), "%r / %r" % (HI.shape, HD.shape))
        return
    if not np.array_equal(st0, idx.search_rng_state):       # the draws are taken from a copy
        res.corr_fail(name, {**case, "stage": "rng state"}, "caller's state unchanged " + ints_row(st0),
                      ints_row(idx.search_rng_state))
    vis_last = None
    if parallel:
        if not (table == fill).all():                       # `visited_nodes = np.zeros_like(visited)`: only its shape is used
            res.corr_fail(name, {**case, "stage": "caller's visited table"}, "untouched (every row has a private table)",
                          "bytes changed at %r" % (np.flatnonzero(table != fill).tolist()[:20],))
        t_now = numba.get_num_threads()
        avail = [t for t in THREAD_COUNTS if t <= numba.config.NUMBA_NUM_THREADS]
        res.count(pfx + "thread_counts_unavailable", len(THREAD_COUNTS) - len(avail))
        try:
            # the batch = its rows one by one with the states `+ i` (a one-row prange: the thread count cannot matter; one
            # thread keeps the launch cheap — on a busy machine a 16-thread OpenMP launch costs ~0.1 s)
            numba.set_num_threads(1)
            for i in range(m):
                r1 = guarded(res, env["name_rows"], {**case, "row": i}, "call",
                             lambda: call(i, i + 1, np.full_like(idx._visited, fill), idx.search_rng_state + i))
                if r1 is not None and not same_result(r1, HI[i:i + 1], HD[i:i + 1]):
                    res.corr_fail(env["name_rows"], {**case, "row": i},
                                  "row alone, rng_state + %d: %s" % (i, heap_txt(r1[1][0], r1[0][0])),
                                  "row %d of the batch: %s" % (i, heap_txt(HD[i], HI[i])))
                res.count(pfx + "rows_resubmitted_alone")
            for t in avail:                                 # the first call ran with the default thread count `t_now`
                numba.set_num_threads(t)
                rt = guarded(res, env["name_threads"], {**case, "threads": t}, "call",
                             lambda: call(0, m, np.full_like(idx._visited, fill), idx.search_rng_state))
                res.count(pfx + "repeats_with_%d_threads" % t)
                if rt is not None and not same_result(rt, HI, HD):
                    bad = [i for i in range(m) if not same_result((rt[0][i:i + 1], rt[1][i:i + 1]), HI[i:i + 1], HD[i:i + 1])]
                    res.corr_fail(env["name_threads"], {**case, "threads": t, "first_call_threads": t_now, "rows": bad},
                                  "first call: " + " / ".join(heap_txt(HD[i], HI[i]) for i in bad),
                                  "%d threads: " % t + " / ".join(heap_txt(rt[1][i], rt[0][i]) for i in bad))
        finally:
            numba.set_num_threads(t_now)
    else:
        # the whole table, padding bits included: what the last row left behind (each row starts with `visited_nodes[:] = 0`)
        vis_last = np.flatnonzero(np.unpackbits(table, bitorder="little")).tolist()
    # the parallel deheap_sort and the public query(): under the default thread count / 1 / 2 / 4 in turn
    t_now = numba.get_num_threads()
    opts = [t_now] + [t for t in THREAD_COUNTS if t <= numba.config.NUMBA_NUM_THREADS]
    t_pub = opts[batch_no % len(opts)] if parallel else t_now
    if parallel:
        case["query_threads"] = t_pub
        res.count(pfx + "query_with_%s_threads" % ("default" if batch_no % len(opts) == 0 else str(t_pub)))
    try:
        numba.set_num_threads(t_pub)
        si, sd = idx._deheap_function(r[0].copy(), r[1].copy())
        try:
            pub_i, pub_d = public()
        except Exception as e:  # noqa
            res.violation("query:raises", "query: %s: %s" % (type(e).__name__, str(e)[:200]), case)
            return
    finally:
        numba.set_num_threads(t_now)
    if pub_i.shape != (m, k) or pub_d.shape != (m, k):
        res.violation("query:shape", "answer has shape %r, expected %r" % (pub_i.shape, (m, k)), case)
        return
    moved = False                                           # serial: has an earlier row of this batch advanced the state?
    for i in range(m):
        a = ins[i]
        uses = a["consumed"] or a["want"] > 0
        res.count(pfx + "rows_starting_from_an_advanced_state", int(moved))
        res.count(pfx + "rows_drawing_from_an_advanced_state", int(moved and uses))
        res.count(pfx + "rows_with_state_plus_i", int(parallel and i > 0))
        res.count(pfx + "rows_drawing_from_state_plus_i", int(parallel and i > 0 and uses))
        res.count(pfx + "skipped_rows", int(a["skipped"]))
        moved = moved or (uses and not parallel)
        if a["skipped"]:
            # the model's `skippedRow` (make_heap row, deheap_sort), obtained from the search command itself: no leaf and
            # n_neighbors = 0 -> init adds nothing, the first heappop meets the empty seed set (flag 0), state untouched
            dq = np.zeros(n, dtype=np.float32)
            line = "search %d %d 0 | %s | %s | %s | %s | %d" % (n, k, env["graph_part"], bits_row(dq), "", "",
                                                                f32bits(np.float32(1.0 + eps)))
        else:
            dq = env["table"](a["cur"])
            hyp = hypotheses_ok(n, env["indptr"], env["indices"], a["leaf"], a["draws"])
            if hyp:
                res.corr_fail("search_theorem_hypotheses", {**case, "row": i}, "hypotheses of C02.search_sound", hyp)
            line = "search %d %d %d | %s | %s | %s | %s | %d" % (
                n, k, nn, env["graph_part"], bits_row(dq), ints_row(a["leaf"]), ints_row(a["draws"]),
                f32bits(np.float32(1.0 + eps)))
        ctx = dict(case={**case, "row": i, "query": qlog[i].tolist(), "state_at_row_start": a["start"].tolist()},
                   heap=heap_txt(HD[i], HI[i]), srt=heap_txt(sd[i], si[i]),
                   vis=(vis_last if (not parallel and i == m - 1) else None), pub_i=pub_i[i], pub_d=pub_d[i], vo=env["vo"],
                   corr=env["corr"], far=env["far"], D64=env["D64"], metric=env["metric"], n=n, k=k, qkind=qkinds[i],
                   leaf=len(a["leaf"]), want=a["want"], consumed=a["consumed"], eps=eps, nn=nn, dq=dq, hi=HI[i], hd=HD[i],
                   style=env["style"], name=name, pfx=pfx, skipped=a["skipped"],
                   canon=("parallel" if parallel else "serial", m, i, tuple(int(v) for v in a["start"])))
        if "query_form" in extra:
            ctx["form"] = extra["query_form"]
        pending.append((line, ctx))


def pick_k_eps(brng, ks, style):
    k = int(ks[int(brng.integers(len(ks)))])
    eps = float(EPSILONS[int(brng.integers(len(EPSILONS)))])
    if style == "line" and brng.random() < 0.7:
        eps = 0.1
    return k, eps


def pick_batch(brng, pool, sizes, b):
    """m rows out of the pool (m cycles through `sizes`); now and then the same query twice in one batch (serial: the
    second occurrence starts from another generator state; parallel: from `+ i`)"""
    m = sizes[b % len(sizes)]
    sel = [int(v) for v in brng.choice(len(pool), size=m, replace=len(pool) < m)]
    if m >= 2 and brng.random() < 0.3:
        sel[int(brng.integers(1, m))] = sel[0]
    return [pool[j] for j in sel]


POW2_NORM = [(1,), (2,), (4,), (8,), (1, 1, 1, 1), (2, 2, 2, 2), (4, 4, 4, 4), (3, 2, 1, 1, 1), (6, 4, 2, 2, 2), (7, 3, 2, 1, 1),
             (5, 5, 3, 2, 1), (6, 5, 1, 1, 1)]        # sums of squares 1, 4, 16, 64


def gen_angular_queries(rng, X, m):
    """queries for the normalising dense closures (cosine): zero rows (the `continue` branch), vectors whose norm is a power
    of two (so that `query_points[i] / norm` is exact however the fastmath closure evaluates it: the normalised query handed to
    `_tree_search` / `_distance_func` here is then certainly the closure's), data points with such a norm"""
    n, dim = X.shape
    pats = [p for p in POW2_NORM if len(p) <= dim]
    sq = (X.astype(np.float64) ** 2).sum(axis=1)
    good = [i for i in range(n) if sq[i] in (1.0, 4.0, 16.0, 64.0, 256.0)]
    out = []
    for _ in range(m):
        u = rng.random()
        if u < 0.3:
            out.append(("zero", np.zeros(dim, dtype=np.float32)))
        elif u < 0.45 and good:
            out.append(("point", X[good[int(rng.integers(len(good)))]].copy()))
        else:
            q = np.zeros(dim)
            p = pats[int(rng.integers(len(pats)))]
            q[:len(p)] = p
            q = rng.permutation(q) * rng.choice([-1.0, 1.0], size=dim)
            out.append(("pow2norm", np.ascontiguousarray(q, dtype=np.float32)))
    return out


def dense_batches(res, brng, idx, X, cfg, style, n_batches, parallel, pending):
    n, nn, metric = X.shape[0], idx.n_neighbors, cfg["metric"]
    g = idx._search_graph
    indptr, indices = np.asarray(g.indptr), np.asarray(g.indices)
    raw, dist = idx._raw_data, idx._distance_func
    par = "parallel_" if parallel else "batch_"
    env = dict(n=n, nn=nn, cfg=cfg, indptr=indptr, indices=indices, graph_part="%s | %s" % (ints_row(indptr), ints_row(indices)),
               vo=np.asarray(idx._vertex_order), corr=idx._distance_correction, far=far_end(idx), D64=X.astype(np.float64),
               metric=metric, style=style, name="search_closure_%sbit_exact" % par, pfx="ap_" if parallel else "ab_",
               name_rows="parallel_batch_equals_rows_one_by_one", name_threads="parallel_batch_thread_count_invariant",
               table=lambda cur: np.array([np.float32(dist(raw[v], cur)) for v in range(n)], dtype=np.float32))
    ks = k_choices(n, nn)
    if style == "line":
        ks = sorted({3, nn, 2 * nn, 2 * nn + 1, 2 * nn + 2, 4 * nn, 4 * nn + 1})
    sizes = [1, 2, 3, 4, 5, 6] if parallel else [2, 3, 4, 5, 6]
    angular = metric in ("cosine", "dot")
    pool = gen_angular_queries(brng, X, 24) if angular else gen_queries(brng, X, 20, style)
    for b in range(n_batches):
        sel = pick_batch(brng, pool, sizes, b)
        if angular and not parallel and b % 3 == 0:          # a `continue`d row last: the table must come back empty
            sel[-1] = ("zero", np.zeros(X.shape[1], dtype=np.float32))
        k, eps = pick_k_eps(brng, ks, style)
        Q = np.ascontiguousarray(np.stack([q for (_, q) in sel]), dtype=np.float32)
        one_batch(res, idx, env, [Q[i] for i in range(len(sel))], [Q[i] for i in range(len(sel))], [kd for (kd, _) in sel],
                  lambda lo, hi, vis, st, Q=Q, k=k, eps=eps: idx._search_function(Q[lo:hi], k, eps, vis, st),
                  lambda Q=Q, k=k, eps=eps: idx.query(Q, k=k, epsilon=eps), k, eps, parallel, {}, pending,
                  fill=DIRTY if (not parallel or (b // len(sizes) + b) % 2 == 0) else 0, batch_no=b)
    if len(idx._search_function.signatures) != 1:           # every call above must have hit the one compiled specialisation
        res.notes.append("dense closure compiled %d specialisations" % len(idx._search_function.signatures))


def as_query_passes(Q):
    """what the sparse branch of `query` hands to the closure for the caller's Q"""
    from sklearn.utils import check_array
    P = check_array(Q.copy() if sp.issparse(Q) else Q, accept_sparse="csr", dtype=np.float32)
    if not sp.isspmatrix_csr(P):
        P = sp.csr_matrix(P, dtype=np.float32)
    if not P.has_sorted_indices:
        P = P.sorted_indices()
    return P


def sparse_batch_forms(qs, form):
    """the caller's multi-row query matrix in the given form, built from raw indptr / indices / data"""
    m, dim = len(qs), qs[0].shape[0]
    if form == "ndarray":
        return np.ascontiguousarray(np.stack(qs), dtype=np.float32)
    ind, dat, ptr = [], [], [0]
    for q in qs:
        nz = np.flatnonzero(q).astype(np.int32)
        if form == "unsorted":
            nz = nz[::-1]
        elif form == "stored_zero" and len(nz) < dim:
            nz = np.sort(np.append(nz, np.int32(np.flatnonzero(q == 0)[0]))).astype(np.int32)
        ind.append(nz); dat.append(q[nz].astype(np.float32)); ptr.append(ptr[-1] + len(nz))
    return sp.csr_matrix((np.concatenate(dat), np.concatenate(ind).astype(np.int32), np.array(ptr, dtype=np.int32)), shape=(m, dim))


def sparse_batches(res, brng, idx, M, cfg, style, n_batches, parallel, pending):
    n, dim = M.shape
    nn, metric = idx.n_neighbors, cfg["metric"]
    g = idx._search_graph
    indptr, indices = np.asarray(g.indptr), np.asarray(g.indices)
    raw, dist = idx._raw_data, idx._distance_func
    rp, ri, rd = np.asarray(raw.indptr), np.asarray(raw.indices), np.asarray(raw.data)
    par = "parallel_" if parallel else "batch_"
    env = dict(n=n, nn=nn, cfg=cfg, indptr=indptr, indices=indices, graph_part="%s | %s" % (ints_row(indptr), ints_row(indices)),
               vo=np.asarray(idx._vertex_order), corr=idx._distance_correction, far=far_end(idx), D64=M.astype(np.float64),
               metric=metric, style=style, name="sparse_search_closure_%sbit_exact" % par, pfx="sp_" if parallel else "sb_",
               name_rows="sparse_parallel_batch_equals_rows_one_by_one", name_threads="sparse_parallel_batch_thread_count_invariant",
               table=lambda cur: np.array([np.float32(dist(ri[rp[v]:rp[v + 1]], rd[rp[v]:rp[v + 1]], cur[0], cur[1]))
                                           for v in range(n)], dtype=np.float32))
    ks = k_choices(n, nn)
    if style == "line":
        ks = sorted({3, nn, 2 * nn, 2 * nn + 1, 2 * nn + 2, 4 * nn, 4 * nn + 1})
    sizes = [1, 2, 3, 4, 5, 6] if parallel else [2, 3, 4, 5, 6]
    pool = []
    for (qkind, q) in gen_queries(brng, M, 20, style):
        if qkind != "point":
            q = (q * (brng.random(dim) < 0.7)).astype(np.float32)
        if not q.any():                                     # an empty operand is read out of bounds: not generated
            q[int(brng.integers(dim))] = np.float32(1.0)
        pool.append((qkind, q))
    for b in range(n_batches):
        sel = pick_batch(brng, pool, sizes, b)
        k, eps = pick_k_eps(brng, ks, style)
        form = QUERY_FORMS[b % len(QUERY_FORMS)]
        qs = [q for (_, q) in sel]
        Q = sparse_batch_forms(qs, form)
        P = as_query_passes(Q)
        qi, qp, qd = P.indices, P.indptr, P.data
        if qi.dtype != np.int32 or qp.dtype != np.int32 or qd.dtype != np.float32:
            res.notes.append("sparse batch: query() would pass %s/%s/%s arrays" % (qi.dtype, qp.dtype, qd.dtype))

        def call(lo, hi, vis, st, qi=qi, qp=qp, qd=qd, k=k, eps=eps):
            if (lo, hi) == (0, len(qp) - 1):
                return idx._search_function(qi, qp, qd, k, eps, vis, st)
            a, z = int(qp[lo]), int(qp[hi])
            return idx._search_function(qi[a:z], (qp[lo:hi + 1] - qp[lo]).astype(qp.dtype), qd[a:z], k, eps, vis, st)
        one_batch(res, idx, env, [(qi[qp[i]:qp[i + 1]], qd[qp[i]:qp[i + 1]]) for i in range(len(sel))], qs, [kd for (kd, _) in sel],
                  call, lambda Q=Q, k=k, eps=eps: idx.query(Q, k=k, epsilon=eps), k, eps, parallel, {"query_form": form}, pending,
                  fill=DIRTY if (not parallel or (b // len(sizes) + b) % 2 == 0) else 0, batch_no=b)
    if len(idx._search_function.signatures) != 1:
        res.notes.append("sparse closure compiled %d specialisations" % len(idx._search_function.signatures))


def judge_pending(res, pending):
    if not pending:
        return
    outs = run_driver([p[0] for p in pending])
    # second pass: translation through the Lean `translate`
    xl_lines, xl_ctx = [], []
    for (line, c), out in zip(pending, outs):
        parts = out.split(" | ")
        c["model"] = parts
        if len(parts) == 4:
            mi = parts[2].split(" ; ")[1]
            xl_lines.append("xlate | %s | %s" % (ints_row(c["vo"]), mi))
            xl_ctx.append(c)
    xl_out = run_driver(xl_lines) if xl_lines else []
    for c, o in zip(xl_ctx, xl_out):
        c["model_xl"] = o
    for (line, c) in pending:
        judge_kernel_case(res, c)


def judge_kernel_case(res, c):
    case, parts = c["case"], c["model"]
    n, k = c["n"], c["k"]
    name, a_ = c.get("name", "search_closure_bit_exact"), c.get("pfx", "a_")      # dense: a_…, sparse closure: s_…
    filled = int((c["pub_i"] >= 0).sum())
    # batches: only the table the LAST row of a serial call leaves behind is observable (c["vis"] None otherwise); the
    # counters / non-triviality of the other rows use the model's table, for which the raw-heap comparison vouches
    nvis = len(c["vis"]) if c.get("vis") is not None else (len(parts[3].split()) if len(parts) == 4 else 0)
    ties = len(set(c["pub_d"].tolist())) < k
    res.count(a_ + "eps_%g" % c["eps"]); res.count(a_ + "q_" + c["qkind"])
    res.count(a_ + "unfilled_rows", int(filled < k)); res.count(a_ + "k_gt_nn", int(k > c["nn"])); res.count(a_ + "k_gt_n", int(k > n))
    res.count(a_ + "tied_rows", int(ties)); res.count(a_ + "tree_consumed_rng", int(c["consumed"]))
    res.count(a_ + "random_draws", c["want"]); res.count(a_ + "visited_all", int(nvis == n))
    res.count(a_ + "visited_total", nvis)
    expanded = nvis > c["leaf"] + c["want"]
    nontrivial = expanded and nvis > k
    res.case((a_, case["index"]["random_state"], case["query"], k, c["eps"]) + c.get("canon", ()) if a_ != "a_" else
             (case["index"]["random_state"], case["query"], k, c["eps"]), nontrivial,
             sample={"metric": c["metric"], "n": n, "k": k, "epsilon": c["eps"], "query": case["query"],
                     "answer": c["pub_i"].tolist(), "visited": nvis})
    res.traces += 1
    ok = True
    # the table handed to the model must be what the closure itself computed: the closure calls the same
    # kernel, but compiled into its own body (fastmath) — on integer-valued data every distance is exact;
    # on the 'real' stream a differently associated sum would be a property of the compiler, not of the model
    table_ok = all(c["hd"][j].view(np.uint32) == c["dq"][c["hi"][j]].view(np.uint32) for j in range(k) if c["hi"][j] >= 0)
    res.count(a_ + "style_" + c["style"])
    if "form" in c:
        res.count(a_ + "query_form_" + c["form"])
    if not table_ok:
        res.count(a_ + "inlined_distance_differs_from_table")
        if c["style"] != "real" and c["metric"] not in ("cosine", "dot"):     # log2 / sqrt of the angular surrogates: as 'real'
            res.corr_fail(name, {**case, "stage": "distance table"},
                          "dist(data[v], q) from _distance_func", "the closure holds a different float32 for the same pair")
    elif len(parts) != 4:
        res.corr_fail(name, case, " | ".join(parts), "driver rejected the command"); ok = False
    else:
        flag, mheap, msrt = parts[0], parts[1], parts[2]
        if flag != ("0" if c.get("skipped") else "1"):      # skipped row: the model is asked for the untouched row (flag 0)
            res.corr_fail(name, case, "flag " + flag, "real closure returned: fuel n+1 did not suffice / empty seed set")
            ok = False
        if mheap != c["heap"]:
            res.corr_fail(name, {**case, "stage": "raw heap"}, mheap, c["heap"]); ok = False
        elif c.get("vis") is not None and [int(v) for v in parts[3].split()] != c["vis"]:
            res.corr_fail(name, {**case, "stage": "visited table"}, parts[3], ints_row(c["vis"])); ok = False
        elif msrt != c["srt"]:
            res.corr_fail(name, {**case, "stage": "deheap_sort"}, msrt, c["srt"]); ok = False
        else:
            # public answer = translate ∘ sort ∘ search, distances through the real correction ufunc
            md = np.array([int(v) for v in msrt.split(" ; ")[0].split()], dtype=np.uint32).view(np.float32)
            if c["corr"] is not None:
                md = c["corr"](md)
            exp = bits_row(md) + " ; " + c.get("model_xl", "?")
            got = bits_row(c["pub_d"]) + " ; " + ints_row(c["pub_i"])
            if exp != got:
                res.corr_fail(name, {**case, "stage": "translated answer"}, exp, got); ok = False
    q64 = np.asarray(case["query"], dtype=np.float64)
    bad = row_predicate(c["metric"], c["D64"], q64, k, n, c["pub_i"], c["pub_d"], c["far"])
    if bad:
        res.violation("query:" + bad[0], bad[1], case)
    return ok and not bad


# ----------------------------------------------------------------------------------------------
# (b) API level

def gen_api_data(rng, kind, metric, n, dim):
    """returns (X handed to NNDescent, float64/uint8 logical rows in the caller's numbering)"""
    if kind == "bits":
        B = rng.integers(0, 256, size=(n, dim)).astype(np.uint8)
        if n >= 6:
            B[int(rng.integers(n))] = B[int(rng.integers(n))]
        return B, B
    if metric in ("hamming", "jaccard"):
        X = (rng.random((n, dim)) < 0.45).astype(np.float32)
        X[X.sum(axis=1) == 0, int(rng.integers(dim))] = 1.0
    elif metric == "dot":
        X = np.abs(rng.standard_normal((n, dim))) + 0.05
        X = (X / np.sqrt((X ** 2).sum(axis=1, keepdims=True))).astype(np.float32)
    else:
        style = rng.choice(["gauss", "gauss", "smallint"])
        X = rng.standard_normal((n, dim)) if style == "gauss" else rng.integers(-2, 5, size=(n, dim)).astype(float)
        if metric == "cosine":
            if rng.random() < 0.5:
                X = np.abs(X) + 0.1                 # all similarities positive
            X[(X ** 2).sum(axis=1) == 0, 0] = 1.0
        X = X.astype(np.float32)
    if n >= 6:                                          # planted duplicates
        for _ in range(max(1, n // 15)):
            a, b = rng.integers(0, n, 2)
            X[a] = X[b]
    if kind == "sparse":
        M = X * (rng.random(X.shape) < 0.6)
        for i in range(n):
            if not M[i].any():
                M[i, int(rng.integers(dim))] = 1.0
        M = M.astype(np.float32)
        return sp.csr_matrix(M), M.astype(np.float64)
    return np.ascontiguousarray(X), X.astype(np.float64)


def gen_api_queries(rng, kind, metric, D, m):
    """logical query rows (same dtype family as the data); includes data points, perturbed points,
    fresh points and — for angular metrics — zero-norm rows.  Returns (rows, zero_norm flags)."""
    n, dim = D.shape
    rows, zero = [], []
    for j in range(m):
        t = j % 4
        if kind == "bits":
            if t == 0:
                q = D[int(rng.integers(n))].copy()
            elif t == 1:
                q = D[int(rng.integers(n))] ^ np.uint8(1 << int(rng.integers(8)))
            else:
                q = rng.integers(0, 256, size=dim).astype(np.uint8)
            rows.append(q); zero.append(False); continue
        if t == 0:
            q = D[int(rng.integers(n))].copy()
        elif t == 1:
            q = D[int(rng.integers(n))] + 0.25 * rng.standard_normal(dim) if metric not in ("hamming", "jaccard") \
                else np.where(rng.random(dim) < 0.2, 1.0 - D[int(rng.integers(n))], D[int(rng.integers(n))])
        elif t == 2:
            q = gen_api_data(rng, "dense", metric, 1, dim)[1][0]
        else:
            if metric in ("cosine", "dot"):
                q = np.zeros(dim)
            else:
                q = D[int(rng.integers(n))] * 3.0 + 1.0
        if kind == "sparse" and t in (1, 2):
            q = q * (rng.random(dim) < 0.7)
        q = np.asarray(q, dtype=np.float32).astype(np.float64)
        if metric == "dot" and (q ** 2).sum() > 0 and t % 2 == 0:
            # every other dot query is handed over unit-norm; the rest are NOT: the search must normalise them itself
            q = (q / np.sqrt((q ** 2).sum())).astype(np.float32).astype(np.float64)
        rows.append(q); zero.append(bool(metric in ("cosine", "dot") and not q.any()))
    return rows, zero


API_BASE = [
    # kind, metric, tree_init, parallel, compressed
    ("dense", "euclidean", True, False, False),
    ("dense", "euclidean", False, True, False),     # the configuration of D4
    ("dense", "euclidean", True, False, True),
    ("dense", "cosine", True, False, False),        # zero-norm queries (D5)
    ("sparse", "euclidean", True, False, False),
    ("bits", "bit_hamming", True, False, False),
    ("dense", "dot", False, False, False),          # normalising metric, random seeding (no tree)
]
API_ROTATE = [      # quick tier: one of these per seed (JIT budget); thorough tier: all
    ("sparse", "cosine", False, False, False),
    ("dense", "euclidean", True, True, False),
    ("dense", "dot", True, False, False),
    ("dense", "jaccard", False, False, False),
    ("bits", "bit_jaccard", False, False, True),
    ("sparse", "manhattan", True, True, False),
    ("dense", "hamming", True, True, False),
    ("dense", "manhattan", False, False, True),
    ("dense", "cosine", False, True, True),
    ("sparse", "euclidean", False, False, True),
]


def api_level(res, rng, configs, sizes, n_queries):
    for (kind, metric, tree_init, par, compressed) in configs:
        t_cfg = time.time()
        for (n, nn) in sizes:
            dim = int(rng.integers(3, 7)) if kind != "bits" else int(rng.integers(2, 5))
            if metric in ("hamming", "jaccard"):
                dim = 10
            X, D = gen_api_data(rng, kind, metric, n, dim)
            seed = int(rng.integers(1 << 30))
            cfg = {"kind": kind, "metric": metric, "tree_init": tree_init, "parallel_batch_queries": par,
                   "compressed": compressed, "n": n, "dim": dim, "n_neighbors": nn, "random_state": seed,
                   "data": D.tolist() if n <= 40 else "gen_api_data(default_rng(seed+202), ...) in plan order"}
            res.count("b_%s_%s" % (kind, metric)); res.count("b_tree%d_par%d_comp%d" % (tree_init, par, compressed))
            try:
                idx = NNDescent(X, metric=metric, n_neighbors=nn, random_state=seed, tree_init=tree_init,
                                parallel_batch_queries=par, compressed=compressed)
                idx.prepare()
                far = far_end(idx)
            except Exception as e:  # noqa
                res.violation("query:raises", "construction/prepare: %s: %s" % (type(e).__name__, str(e)[:200]), cfg)
                continue
            rows, zero = gen_api_queries(rng, kind, metric, D, n_queries)
            Qlog = np.array(rows)
            if kind == "sparse":
                Q = sp.csr_matrix(Qlog.astype(np.float32))
                if (n // 2) % 2 == 0:
                    # callers also hand over CSR matrices whose rows are not in column order (built from raw indptr/indices/data)
                    from harness import api as _api
                    Q = _api.unsort_csr(np.random.default_rng(int(rng.integers(1 << 30))), Q)
            elif kind == "bits":
                Q = Qlog.astype(np.uint8)
            else:
                Q = Qlog.astype(np.float32)
            ks = sorted({1, 3, nn, nn + 4, 2 * nn + 1} | ({n, n + 3} if n <= 64 else set()))
            for k in ks:
                eps = float(EPSILONS[int(rng.integers(len(EPSILONS)))])
                case = {"config": cfg, "k": k, "epsilon": eps}
                try:
                    inds, dists = idx.query(Q, k=k, epsilon=eps)
                except Exception as e:  # noqa
                    res.violation("query:raises", "query: %s: %s" % (type(e).__name__, str(e)[:200]), case)
                    continue
                if inds.shape != (len(rows), k) or dists.shape != (len(rows), k):
                    res.violation("query:shape", "answer has shape %r, expected %r" % (inds.shape, (len(rows), k)), case)
                    continue
                for r in range(len(rows)):
                    bad = row_predicate(metric, D, rows[r], k, n, inds[r], dists[r], far)
                    filled = int((inds[r] >= 0).sum())
                    res.count("b_rows"); res.count("b_unfilled_rows", int(filled < k)); res.count("b_zero_norm_rows", int(zero[r]))
                    if zero[r]:     # dense closures `continue` (row stays -1); the sparse closure answers with points at distance 1
                        res.count("b_zero_norm_%s_%s" % (kind, "all_empty" if filled == 0 else "answered"))
                    res.count("b_k_gt_nn", int(k > nn)); res.count("b_k_gt_n", int(k > n)); res.count("b_eps_%g" % eps)
                    res.case((seed, k, eps, r, kind, metric), filled >= 1 or zero[r],
                             sample={"kind": kind, "metric": metric, "n": n, "k": k, "epsilon": eps, "row": inds[r].tolist()})
                    if bad:
                        res.violation("query:" + bad[0], bad[1], {**case, "row": r, "query": np.asarray(rows[r]).tolist(),
                                                                 "indices": inds[r].tolist(), "distances": dists[r].tolist()})
        res.notes.append("API %s/%s tree_init=%s parallel=%s compressed=%s: %.1f s" % (kind, metric, tree_init, par, compressed,
                                                                                      time.time() - t_cfg))


# ----------------------------------------------------------------------------------------------
# the visited bit table behaves as a set (tiny kernel-level check of mark_visited / has_been_visited)

def bit_table(res, rng):
    for _ in range(20):
        n = int(rng.integers(1, 300))
        table = np.zeros((n >> 3) + 1, dtype=np.uint8)
        marked = set()
        for _ in range(60):
            c = int(rng.integers(n))
            got = bool(utils.has_been_visited(table, np.int32(c)))
            if got != (c in marked):
                res.corr_fail("visited_table_is_a_set", {"n": n, "c": c, "marked": sorted(marked)}, c in marked, got)
            utils.mark_visited(table, np.int32(c)); marked.add(c)
        if visited_set(table, n) != sorted(marked):
            res.corr_fail("visited_table_is_a_set", {"n": n, "marked": sorted(marked)}, sorted(marked), visited_set(table, n))
        res.count("bit_tables")


def check_visited_kernels(res, rng, n_cases):
    """the TRANSLATED has_been_visited / mark_visited (Gen/Kernels.lean, run by the driver) against the numba kernels, bit for
    bit, on random byte tables (incl. 0xff bytes, first / last bit of the table); translator validation"""
    lines, want = [], []
    for c_ in range(n_cases):
        m = int(rng.choice([1, 2, 3, 8, 33]))
        table = rng.choice(np.array([0, 1, 2, 4, 128, 255, 170, 85], dtype=np.uint8), m).astype(np.uint8)
        for cand in {0, 8 * m - 1, int(rng.integers(0, 8 * m)), int(rng.integers(0, 8 * m))}:
            lines.append("gk_visited %d %s %d" % (m, ints_row(table), cand))
            want.append(("has_been_visited", "1" if utils.has_been_visited(table, np.int32(cand)) else "0"))
            t2 = table.copy()
            utils.mark_visited(t2, np.int32(cand))
            lines.append("gk_mark %d %s %d" % (m, ints_row(table), cand))
            want.append(("mark_visited", ints_row(t2)))
    for line, (name, w), got in zip(lines, want, run_driver(lines)):
        res.count("translated:" + name)
        if got != w:
            res.corr_fail("translated-kernel:" + name, {"cmd": line}, got, w)


def run(res, tier, seed, search):
    check_visited_kernels(res, np.random.default_rng(seed + 20202), 60 if tier == "quick" else 600)
    rng = np.random.default_rng(seed + 202)
    rng_s = np.random.default_rng(seed + 202202)    # the sparse kernel-level cases: own stream, the other parts keep theirs
    rng_b = np.random.default_rng(seed + 20220202)  # multi-row / parallel batches: own streams again (the single-row cases,
    rng_sb = np.random.default_rng(seed + 2022020202)   # their indexes and the API level are what they were before)
    res.rule = ("(a) real dense indexes over integer-valued data (euclidean = squared surrogate + sqrt, manhattan; tree_init T/F; "
                "n 20..300, dim 2..6; tie-heavy 'tiny' / grid / half-integer / integer-line (candidates exactly on the rounded bound) streams, plus a gaussian 'real' stream guarded by a check that the closure's own distances equal the table) x queries {data point, +-1 neighbour, half-integer "
                "offset, random, far} x k in {1,2,3,nn-1,nn,nn+3,2nn+1,n,n+2} x eps in {0,.1,.5}: raw heap, visited table, sorted row and "
                "public answer compared bit-for-bit with the Lean model; non-trivial = the expansion loop visited vertices beyond the init "
                "candidates and more than k vertices were visited; (a') the same on real CSR indexes (sparse search_closure; "
                "sparse_squared_euclidean + sqrt, sparse_manhattan; tree_init T/F; n 20..300, dim 2..12, ~55% stored, every row non-empty, "
                "rows distinct when tree_init; tiny / grid / half / line / real streams; query handed over as sorted CSR / unsorted CSR / "
                "CSR with a stored zero / ndarray; on the line stream 40 % of the k are chosen so that a stored point lies exactly on "
                "the float32 bound of the completed search; search_rng_state must be left unchanged), counters s_…; (a'') on the same serial "
                "indexes (dense ab_…, sparse sb_…) batches of 2..6 rows (a query may occur twice in a batch): row i's leaf and draws "
                "come from ONE copy of search_rng_state advanced by the real _tree_search / tau_rand_int exactly as far as the rows "
                "before it advance it; every row's raw heap, sorted row and public answer, the visited table the LAST row leaves in "
                "a table handed over full of ones, and the unchanged caller state are compared with the model of that row; one serial dense "
                "cosine index (ab_…; queries: zero rows — `continue`d, no draw — and vectors with a power-of-two norm so that the "
                "normalisation is exact; every third batch ends with a zero row); indexes built with parallel_batch_queries=True (dense "
                "ap_…, sparse sp_…; quick: one each, tree routing alternating with the seed), batches of 1..6 rows: row i against the "
                "model run on leaf / draws from search_rng_state + i and an empty table; caller's table (ones / zeros alternating) and "
                "state untouched; the batch equals its rows submitted one by one with rng_state + i and the same call under "
                "numba.set_num_threads(1 / 2 / 4), bit for bit; non-trivial (batch rows) = as in (a), the visited set of a row "
                "whose table cannot be observed being the model's; (b) real query() on dense/CSR/bit-packed x tree_init x parallel x "
                "compressed, rows judged by the predicate (distinct, in range, -1 last, ascending, true float64 distance in caller "
                "numbering, zero-norm rows empty); non-trivial = at least one filled slot or a zero-norm row; distinct = hash of "
                "(index seed, query, k, eps)")
    bit_table(res, rng)
    t0 = time.time()
    quick = (tier == "quick" and not search)
    if quick:
        plans = [("euclidean", True, 60, 3, 5, "grid"), ("euclidean", True, 24, 2, 4, "tiny"),
                 ("euclidean", True, 300, 6, 10, "half"), ("euclidean", False, 120, 2, 8, "tiny"),
                 ("euclidean", True, 100, 5, 8, "real"),
                 ("manhattan", False, 80, 4, 6, "grid"), ("manhattan", False, 20, 2, 3, "tiny"),
                 ("manhattan", False, 200, 5, 15, "half"), ("manhattan", False, 100, 4, 6, "real"),
                 ("manhattan", False, 120, 2, 10, "line")]
        kernel_level(res, rng, plans, n_queries=20, combos_per_query=4,   # manhattan x tree_init=True: thorough tier
                     brng=rng_b, n_batches=6)                             # + serial batches of 2..6 rows on the same indexes
        res.notes.append("kernel level: %.0f s" % (time.time() - t0)); t0 = time.time()
        # parallel_batch_queries=True: one dense and one sparse index (each compiles another closure); tree routing alternates
        # with the seed, one of the two always seeds by random draws alone (every row then depends on `rng_state + i`), the
        # tree-routed one has n_neighbors = 12 >= most leaves (rows with k >= 12 top the leaf up with draws);
        # plus one serial cosine index: zero-norm rows are `continue`d between rows that draw
        Tp = (seed % 2 == 1)
        kernel_level(res, rng_b, [("euclidean", Tp, 90, 3, 12 if Tp else 6, "tiny" if Tp else "grid")], 0, 0, brng=rng_b, n_batches=24, par=True)
        kernel_level(res, rng_b, [("cosine", False, 70, 5, 6, "grid")], 0, 0, brng=rng_b, n_batches=15)
        res.notes.append("kernel level, parallel dense closure + serial cosine batches: %.0f s" % (time.time() - t0)); t0 = time.time()
        # the cost is JIT only (first sparse index ~19 s, of which ~17 s would otherwise be paid by the first sparse API
        # configuration; second metric ~12 s; a further closure 1.5 s; the cases themselves are ~free): one index per
        # metric plus two cheap ones, tree_init alternating with the seed (the full cross is the thorough tier)
        T = (seed % 2 == 0)
        splans = [("euclidean", T, 120, 8, 6, "grid"), ("manhattan", not T, 150, 6, 8, "tiny"),
                  ("manhattan", not T, 120, 2, 10, "line"), ("manhattan", not T, 24, 4, 4, "tiny")]
        sparse_kernel_level(res, rng_s, splans, n_queries=60, combos_per_query=5, brng=rng_sb, n_batches=10)
        sparse_kernel_level(res, rng_sb, [("euclidean", not Tp, 100, 8, 6 if Tp else 12, "grid")], 0, 0, brng=rng_sb, n_batches=24, par=True)
        res.notes.append("kernel level, sparse closure: %.0f s" % (time.time() - t0)); t0 = time.time()
        api_level(res, rng, API_BASE + [API_ROTATE[seed % len(API_ROTATE)]], sizes=[(12, 5), (90, 6)], n_queries=12)
        res.notes.append("API level: %.0f s" % (time.time() - t0))
    else:
        plans = []
        for metric in ("euclidean", "manhattan"):
            for tree_init in (True, False):
                for (n, dim, nn, style) in [(20, 2, 3, "tiny"), (24, 2, 4, "tiny"), (60, 3, 5, "grid"), (80, 4, 6, "grid"),
                                            (120, 2, 8, "tiny"), (200, 5, 15, "half"), (300, 6, 10, "half"), (150, 3, 30, "grid"),
                                            (100, 5, 8, "real"), (250, 6, 12, "real"), (120, 2, 10, "line"), (200, 3, 6, "line")]:
                    plans.append((metric, tree_init, n, dim, nn, style))
        kernel_level(res, rng, plans, n_queries=30, combos_per_query=5, brng=rng_b, n_batches=10)
        pplans = [(metric, tree_init, n, dim, nn, style) for metric in ("euclidean", "manhattan") for tree_init in (True, False)
                  for (n, dim, nn, style) in [(24, 2, 4, "tiny"), (90, 3, 12, "grid"), (200, 5, 15, "half")]]
        kernel_level(res, rng_b, pplans, 0, 0, brng=rng_b, n_batches=30, par=True)
        cplans = [("cosine", tree_init, n, dim, nn, "grid") for tree_init in (True, False) for (n, dim, nn) in [(30, 4, 4), (150, 6, 12)]]
        kernel_level(res, rng_b, cplans, 0, 0, brng=rng_b, n_batches=20)
        kernel_level(res, rng_b, cplans[1:3], 0, 0, brng=rng_b, n_batches=20, par=True)   # parallel cosine: skipped rows in a prange
        splans = []
        for metric in ("euclidean", "manhattan"):
            for tree_init in (True, False):
                for (n, dim, nn, style) in [(20, 4, 3, "tiny"), (24, 4, 4, "tiny"), (60, 6, 5, "grid"), (120, 8, 6, "grid"),
                                            (150, 6, 8, "tiny"), (200, 10, 15, "half"), (300, 12, 10, "half"),
                                            (100, 8, 8, "real"), (120, 2, 10, "line"), (200, 3, 6, "line")]:
                    splans.append((metric, tree_init, n, dim, nn, style))
        sparse_kernel_level(res, rng_s, splans, n_queries=30, combos_per_query=5, brng=rng_sb, n_batches=10)
        spplans = [(metric, tree_init, n, dim, nn, style) for metric in ("euclidean", "manhattan") for tree_init in (True, False)
                   for (n, dim, nn, style) in [(24, 4, 4, "tiny"), (100, 8, 12, "grid"), (120, 2, 10, "line")]]
        sparse_kernel_level(res, rng_sb, spplans, 0, 0, brng=rng_sb, n_batches=30, par=True)
        api_level(res, rng, API_BASE + API_ROTATE, sizes=[(7, 5), (12, 5), (40, 8), (90, 6), (250, 12)], n_queries=24)


if __name__ == "__main__":
    std_main("C02", run)
