"""C12 — low_memory never changes the result.
kernel level: both update appliers bit-exact vs the Lean model on the same update lists (and equal to each other);
              whole nn_descent in both modes vs model and vs each other;
API level   : NNDescent(low_memory=True) vs (low_memory=False): identical neighbor_graph arrays, search graph and answers."""
import sys, os, warnings
sys.path.insert(0, os.path.dirname(os.path.dirname(os.path.abspath(__file__))))
from harness.common import *
setup_numba_cache()
warnings.filterwarnings("ignore")
import numpy as np, numba
from pynndescent import NNDescent
from harness import api, descent_kernels as dk

COMBOS = [("euclidean", "dense32"), ("cosine", "csr"), ("manhattan", "dense32"), ("euclidean", "csr"),
          ("jaccard", "dense32"), ("hellinger", "csr"), ("correlation", "dense32"), ("bit_hamming", "bits")]


def kernel_pipeline(res, rng, n_cases):
    for c in range(n_cases + 3):
        cfg = dk.nnd_case(rng, small=(c % 2 == 0)); cfg["sparse"] = (c % 3 == 2)
        if c >= n_cases:
            # the stop test `c <= delta * n_neighbors * n` counts ROWS: sparse data with several stored values per row, a delta
            # large enough for the test to decide, and enough iterations for it to matter
            cfg.update({"sparse": True, "n": int(rng.choice([90, 160])), "k": int(rng.choice([3, 5])), "dim": 5, "spread": 6,
                        "delta": float(rng.choice([0.02, 0.05, 0.1])), "n_iters": 10, "max_candidates": int(rng.choice([5, 10])),
                        "init": "none", "tree": bool(rng.integers(2))})
        il, ll, _ = dk.run_nnd_pair(cfg, True)
        ih, lh, _ = dk.run_nnd_pair(cfg, False)
        ml, mh = run_driver([ll, lh])
        res.traces += 2
        res.case(("pipeline",) + tuple(sorted(cfg.items())), nontrivial=(cfg["n_iters"] > 0 and cfg["n"] > cfg["k"]),
                 sample={"cfg": cfg})
        res.count("pipeline_cases")
        if ml != il:
            res.corr_fail("nn_descent_low_bit_exact", {"cfg": cfg}, ml[:200], il[:200])
        if mh != ih:
            res.corr_fail("nn_descent_high_bit_exact", {"cfg": cfg}, mh[:200], ih[:200])
        if il != ih:
            res.violation("lowmem:nn_descent", "nn_descent(low_memory=True) and (False) return different arrays", {"cfg": cfg})


def api_case(res, rng, metric, kind, with_update=False):
    n = int(rng.choice([30, 120, 400])); k = int(rng.choice([3, 8, 15])); dim = int(rng.choice([3, 6]))
    if kind == "bits":
        dim = 3
    X, L = api.gen_dataset(rng, metric, kind, n, dim)
    Q, _ = api.gen_dataset(rng, metric, kind, 20, dim)
    kw = api.metric_kwds(metric, rng, dim)
    cfg = {"tree_init": bool(rng.integers(4) > 0), "n_jobs": [None, 2, 3][int(rng.integers(3))],
           "max_candidates": [None, 4, 30][int(rng.integers(3))], "n_iters": [None, 1, 3][int(rng.integers(3))],
           "delta": [0.001, 0.0, 0.05][int(rng.integers(3))], "init": bool(rng.integers(4) == 0),
           "seed": int(rng.integers(10 ** 6))}
    extra = {}
    if cfg["init"]:
        G = rng.integers(0, n, size=(n, k)).astype(np.int32); G[rng.random((n, k)) < 0.3] = -1
        extra["init_graph"] = G
    case = {"metric": metric, "kind": kind, "n": n, "k": k, "dim": dim, "kwds": kw, "cfg": cfg}
    out = {}
    try:
        for low in (True, False):
            idx = NNDescent(X, metric=metric, metric_kwds=kw, n_neighbors=k, random_state=cfg["seed"], low_memory=low,
                            tree_init=cfg["tree_init"], n_jobs=cfg["n_jobs"], max_candidates=cfg["max_candidates"],
                            n_iters=cfg["n_iters"], delta=cfg["delta"], **extra)
            g = idx.neighbor_graph
            idx.prepare()
            a = idx.query(Q, k=min(5, n))
            # the graph the index exposes once it has been prepared and queried, and after an append-only update: the two modes
            # must still agree (a mode-dependent in-place step of prepare() shows here, not right after the build)
            g2 = idx.neighbor_graph
            out[low] = (g[0].copy(), g[1].copy(), idx._search_graph.indptr.copy(), idx._search_graph.indices.copy(), a[0], a[1],
                        g2[0].copy(), g2[1].copy())
            if with_update and kind != "csr":       # update() is not implemented for sparse data
                idx.update(xs_fresh=Q[:6])
                g3 = idx.neighbor_graph
                out[low] = out[low] + (g3[0].copy(), g3[1].copy())
    except Exception as e:  # noqa
        res.violation("lowmem:%s:%s:exception" % (kind, metric), "%s: %s" % (type(e).__name__, str(e)[:200]), case)
        return
    names = ["graph indices", "graph distances", "search graph indptr", "search graph indices", "answer indices", "answer distances",
             "graph indices after prepare", "graph distances after prepare", "graph indices after update", "graph distances after update"]
    res.case((metric, kind, n, k, dim, tuple(sorted((a, str(b)) for a, b in cfg.items())), np.asarray(L).tobytes()), True,
             sample={**case, "row0_low": out[True][0][0].tolist(), "row0_high": out[False][0][0].tolist()})
    res.count("api_" + kind); res.traces += 1
    for nm, a, b in zip(names, out[True], out[False]):
        if not np.array_equal(a, b):
            nd = int(np.sum(np.any(np.atleast_2d(a != b), axis=-1))) if a.shape == b.shape else -1
            res.violation("lowmem:%s:%s:%s" % (kind, metric, nm.replace(" ", "-")),
                          "%s differ between low_memory=True and False (%d rows)" % (nm, nd), case)
            break


def big_case(res, rng, kind, extra=None):
    """more than one block of 16384 vertices: the per-block bookkeeping (change counts, thresholds re-read per block,
    in_graph carried across blocks) only exists beyond that size"""
    # a last block of a handful of vertices: its own change count is below the stop threshold, the SUM over the blocks is not
    n = 16384 + (int(rng.choice([60, 700])) if extra is None else extra); k = 4
    X = rng.standard_normal((n, 3)).astype(np.float32)
    if kind == "csr":
        import scipy.sparse as sp
        X = sp.csr_matrix(X * (rng.random(X.shape) < 0.8))
    # random initialisation: every row's list is built by the local joins alone, so a vertex whose candidates are skipped
    # (block boundaries) or a lost change count shows in thousands of rows; tree initialisation hides most of it
    cfg = {"tree_init": False, "seed": int(rng.integers(10 ** 6)), "n_iters": int(rng.choice([3, 4]))}
    out = {}
    for low in (True, False):
        idx = NNDescent(X, n_neighbors=k, random_state=cfg["seed"], low_memory=low, tree_init=cfg["tree_init"],
                        n_iters=cfg["n_iters"], max_candidates=6, n_trees=2)
        out[low] = idx._neighbor_graph
    case = {"kind": kind, "n": n, "k": k, "cfg": cfg}
    res.case(("big", kind, n, tuple(sorted(cfg.items()))), True, sample=case)
    res.count("api_big_" + kind); res.traces += 1
    if not (np.array_equal(out[True][0], out[False][0]) and np.array_equal(out[True][1], out[False][1])):
        nd = int(np.sum(np.any(out[True][0] != out[False][0], axis=1)))
        res.violation("lowmem:%s:multi-block" % kind, "n=%d (> one block of 16384 vertices): %d rows differ between low_memory=True and False"
                      % (n, nd), case)


def run(res, tier, seed, search):
    rng = np.random.default_rng(seed + 1212)
    res.rule = ("appliers: random well-formed heaps + truthful update lists (self pairs, repeats, T in 1..16), both real appliers vs "
                "model and each other, non-trivial = some but not all pushes accepted; pipeline: nn_descent both modes vs model and "
                "each other; API: both modes on the same data/seed/params, arrays + search graph + answers compared exactly")
    na, npipe, combos_n, reps = (60, 8, 4, 2) if tier == "quick" else (600, 50, len(COMBOS), 5)
    if search:
        na, npipe, reps = na * 3, npipe * 3, reps * 2
    dk.check_appliers(res, rng, na)
    kernel_pipeline(res, rng, npipe)
    start = (seed * combos_n) % len(COMBOS)
    for i in range(combos_n):
        metric, kind = COMBOS[(start + i) % len(COMBOS)]
        for r in range(reps):
            api_case(res, rng, metric, kind, with_update=(r == 0))
    dk.check_blocks(res, rng, 40 if tier == "quick" else 300)
    big_case(res, rng, "dense32")
    big_case(res, rng, "dense32", extra=3)
    big_case(res, rng, "csr", extra=3)        # the sparse module has its own copy of the block loop and of the stop test
    if tier != "quick" or search:
        big_case(res, rng, "csr"); big_case(res, rng, "dense32")
    numba.set_num_threads(numba.config.NUMBA_NUM_THREADS)


if __name__ == "__main__":
    std_main("C12", run)
