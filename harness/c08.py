"""C08 — sparse metrics agree with dense.  For every name present in both
`sparse.sparse_named_distances` and `distances.named_distances`: the REAL sparse kernel
on enc(x), enc(y) (sorted int32 indices + float32 values, no stored zeros) against the
REAL dense kernel on x, y (on the union of supports for Jensen-Shannon / symmetric KL),
over all support patterns for small dim x value samples, plus larger random pairs; and
kernel-level exact checks of the merge helpers on integer-valued data.

Violation keys: sparse:<name>:<kind>  (kind in value, nan, exception; helper kernels:
sparse:<helper>:exact).  The D18 corner is reported as sparse:correlation:empty-vs-constant.
"""
import sys, os, json, zlib, math, itertools
sys.path.insert(0, os.path.dirname(os.path.dirname(os.path.abspath(__file__))))
from harness.common import *
setup_numba_cache()
import numpy as np
from pynndescent import distances as D
from pynndescent import sparse as S
from harness import refmetrics as R
import numba
# two worker threads: the only parallel kernel reached from here (sinkhorn's K_from_cost, a few dozen
# entries) costs ~85 ms per call in barrier waits with 16 threads on a loaded machine, 0.02 ms with 2
numba.set_num_threads(min(2, numba.get_num_threads()))

MAX_PER_KEY = 2
UNION_RESTRICTED = {"jensen-shannon", "jensen_shannon", "symmetric-kl", "symmetric_kl", "symmetric_kullback_liebler"}
OT_NAMES = {"kantorovich", "wasserstein"}
DIMS_LARGE = [8, 16, 50, 200]
P_SPARSE_MINKOWSKI = [1.0, 2.0, 3.0, 0.5, 1.5]
P_SPARSE_W1D = [1, 2, 3, 0.5, 1.0, 2.0]


def f32(a):
    return np.ascontiguousarray(np.asarray(a, dtype=np.float64).astype(np.float32))


def enc(x):
    """Dense float32 vector -> (strictly increasing int32 indices, float32 values), no stored zeros."""
    idx = np.flatnonzero(x != 0).astype(np.int32)
    return np.ascontiguousarray(idx), np.ascontiguousarray(x[idx].astype(np.float32))


def well_formed(ind, data):
    return bool(np.all(np.diff(ind) > 0)) and bool(np.all(data != 0)) and ind.dtype == np.int32 and data.dtype == np.float32


class Reporter:
    def __init__(self, res):
        self.res = res
        self.listed = {}

    def violation(self, key, what, case):
        k = self.listed.get(key, 0)
        self.listed[key] = k + 1
        if k < MAX_PER_KEY:
            self.res.violation(key, what, case)
        else:
            self.res.count("violation:" + key)


def canonical(name):
    f = S.sparse_named_distances[name]
    for n, g in S.sparse_named_distances.items():
        if g is f and n in D.named_distances:
            return n
    return name


# --------------------------------------------------------------------------
# value samples on a support pattern
# --------------------------------------------------------------------------
def values_on(rng, sup, style, dom, other=None):
    """Dense float32 vector with support exactly `sup` (tuple of 0/1)."""
    sup = np.asarray(sup, dtype=bool)
    n, k = len(sup), int(sup.sum())
    v = np.zeros(n)
    if k == 0:
        return f32(v)
    if style == "ones":
        vals = np.ones(k)
    elif style == "smallint":
        vals = rng.integers(1, 4, k).astype(np.float64)
        if dom == "real":
            vals *= rng.choice([1.0, 1.0, -1.0], k)
    elif style == "row-mean":
        # first stored entry equals the mean over all n coordinates: a = k-1, others n-1
        vals = np.full(k, float(n - 1)) if k >= 2 and n >= 2 else np.ones(k)
        if k >= 2 and n >= 2:
            vals[0] = float(k - 1)
    elif style == "equal":
        vals = np.full(k, 2.0)
    elif style == "constant-frac":
        vals = np.full(k, 0.1)
    else:  # random
        vals = rng.uniform(0.05, 1.0, k) if dom != "real" else rng.normal(size=k)
        vals[vals == 0] = 0.5
    v[sup] = vals
    return f32(v)


STYLES = ["ones", "smallint", "smallint", "row-mean", "equal", "constant-frac", "random", "random"]


def pattern_pairs(rng, maxdim, dom):
    for d in range(1, maxdim + 1):
        pats = list(itertools.product([0, 1], repeat=d))
        for pa in pats:
            for pb in pats:
                for st in STYLES:
                    yield "pattern-" + st, values_on(rng, pa, st, dom), values_on(rng, pb, st, dom)


def random_pairs(rng, n, dom):
    for d in DIMS_LARGE:
        for dens in (0.1, 0.4, 0.9):
            for i in range(n):
                st = ["random", "smallint", "ones"][i % 3]
                pa = rng.uniform(size=d) < dens; pb = rng.uniform(size=d) < dens
                yield "random-" + st, values_on(rng, pa, st, dom), values_on(rng, pb, st, dom)
        for i in range(max(n // 2, 1)):
            pa = rng.uniform(size=d) < 0.5
            x = values_on(rng, pa, "random", dom)
            yield "identical", x, x.copy()
            pb = pa & (rng.uniform(size=d) < 0.5)
            yield "nested", x, values_on(rng, pb, "random", dom)
            yield "nested-same-values", x, f32(x * pb)
            yield "disjoint", f32(x * pb), f32(x * (pa & ~pb))
            yield "scaled", x, f32(2.0 * x.astype(np.float64))
            yield "full-vs-sparse", values_on(rng, np.ones(d, bool), "random", dom), x


def huge_pairs(rng, n):
    """scale-free metrics on rows at the top of the float32 range: every entry and every square is finite in float32 (|v| = 2^63,
    v^2 = 2^126) but a float32 running sum of six squares is not; the norms must be accumulated in double precision on both sides"""
    for d in (6, 9, 16):
        for i in range(n):
            x = f32(rng.choice([-1.0, 1.0], size=d) * 2.0 ** 63)
            if i % 2:
                x = f32(x * (rng.uniform(size=d) < 0.8)); x[:6] = np.float32(2.0 ** 63)
            y = f32(rng.standard_normal(d) * (rng.uniform(size=d) < 0.8)); y[0] = np.float32(1.5)
            yield "huge", x, y          # (two huge rows are not generated: their float32 dot product overflows in both kernels' shared helper)


# --------------------------------------------------------------------------
# one comparison
# --------------------------------------------------------------------------
_ground = {}


def ground(dim):
    """Ground metric for kantorovich: |i - j| scaled, as a numba function of two indices and as a matrix."""
    if dim not in _ground:
        gv = np.ascontiguousarray((np.arange(dim, dtype=np.float32) / max(dim - 1, 1)).reshape(dim, 1))
        _ground[dim] = (S.create_ground_metric(gv, D.euclidean),
                        np.abs(gv.astype(np.float64) - gv.astype(np.float64).T))
    return _ground[dim]


def metric_args(name, rng, dim):
    """(sparse extra args, dense extra args, json description)"""
    if name in S.sparse_need_n_features:
        return (dim,), (), {"n_features": dim}
    if name == "minkowski":
        p = P_SPARSE_MINKOWSKI[int(rng.integers(len(P_SPARSE_MINKOWSKI)))]
        return (p,), (p,), {"p": p}
    if R.SPEC[name]["ref"] is R.ref_wasserstein_1d:
        p = P_SPARSE_W1D[int(rng.integers(len(P_SPARSE_W1D)))]
        return (p,), (p,), {"p": p}
    if name in OT_NAMES:
        gm, cost = ground(dim)
        return (gm,), (cost,), {"ground": "euclidean on i/(dim-1)"}
    return (), (), {}


def call(f, *a):
    try:
        return "ok", float(f(*a))
    except Exception as e:
        return "exc", "%s: %s" % (type(e).__name__, e)


def compare(rep, name, kind, x, y, sargs, dargs, jargs):
    res = rep.res
    cname = canonical(name)
    sp = S.sparse_named_distances[name]
    dn = D.named_distances[name]
    spec = R.SPEC[name]
    i1, d1 = enc(x); i2, d2 = enc(y)
    assert well_formed(i1, d1) and well_formed(i2, d2)
    case = {"metric": name, "gen": kind, "x": x.tolist(), "y": y.tolist(), "args": jargs}
    e1, e2 = len(i1) == 0, len(i2) == 0
    nontrivial = (not np.array_equal(x, y)) and not e1 and not e2
    rel = ("empty" if (e1 or e2) else "identical" if np.array_equal(i1, i2) else
           "disjoint" if not set(i1) & set(i2) else
           "nested" if set(i1) <= set(i2) or set(i2) <= set(i1) else "overlap")
    res.case((name, x.tobytes().hex(), y.tobytes().hex(), repr(jargs)), nontrivial,
             sample={"metric": name, "x": x.tolist()[:6], "y": y.tolist()[:6], "args": jargs})
    res.count("metric:" + name); res.count("gen:" + kind); res.count("support:" + rel)
    if name in UNION_RESTRICTED:
        u = (x != 0) | (y != 0)
        dx, dy = np.ascontiguousarray(x[u]), np.ascontiguousarray(y[u])
    else:
        dx, dy = x, y
    ds, dv = call(dn, dx, dy, *dargs)
    ss, sv = call(sp, i1, d1, i2, d2, *sargs)
    ss2, sv2 = call(sp, i2, d2, i1, d1, *sargs)
    if ds == "exc" or (ds == "ok" and math.isnan(dv)):
        res.count("dense-undefined")            # C07's business; nothing to agree with
        if ss == "exc":
            return True
    if ss == "exc" or ss2 == "exc":
        rep.violation("sparse:%s:exception" % cname, "sparse kernel raises %s; dense gives %r" % (sv if ss == "exc" else sv2, dv), case)
        return False
    if math.isnan(sv) or math.isnan(sv2):
        if ds == "ok" and math.isnan(dv):
            return True
        rep.violation("sparse:%s:nan" % cname, "sparse kernel returns NaN (swapped: %r); dense gives %r" % (sv2, dv), case)
        return False
    if ds != "ok" or math.isnan(dv):
        return True
    kw = _kw_for(name, dargs)
    scale = R.abs_scale(name, x, y, kw)
    band = spec["band"](x, y, kw, scale) if spec["band"] is not None else None     # pre-image band, widened to the dense value
    ok = True
    for tag, v in (("", sv), (" (arguments swapped)", sv2)):
        if not R.close(v, dv, name, scale, band):
            key = "sparse:%s:value" % cname
            # D18: sparse_correlation(empty, constant) = 1.0, dense correlation(0-vector, constant) = 0.0
            if cname == "correlation" and (e1 != e2) and v == 1.0 and dv == 0.0:
                full = x if e2 else y
                if np.all(full != 0) and np.all(full == full[0]):
                    key = "sparse:correlation:empty-vs-constant"
            rep.violation(key, "sparse%s = %r, dense = %r (tolerance scale %.3g)" % (tag, v, dv, scale), case)
            ok = False
            break
    return ok


def _kw_for(name, dargs):
    order = R.SPEC[name]["argorder"]
    return {k: v for k, v in zip(order, dargs)}


# --------------------------------------------------------------------------
# helper kernels, exact on integer-valued data
# --------------------------------------------------------------------------
def rand_sparse(rng, universe, maxlen):
    k = int(rng.integers(0, maxlen + 1))
    idx = np.sort(rng.choice(universe, size=min(k, universe), replace=False)).astype(np.int32)
    val = rng.choice([-3.0, -2.0, -1.0, 1.0, 2.0, 3.0], len(idx)).astype(np.float32)
    return np.ascontiguousarray(idx), np.ascontiguousarray(val)


def helper_checks(rep, rng, n):
    res = rep.res
    have = lambda f: hasattr(S, f)

    def bad(fn, what, case):
        rep.violation("sparse:%s:exact" % fn, what, case)

    for it in range(n):
        universe = int(rng.choice([3, 6, 12, 40]))
        i1, v1 = rand_sparse(rng, universe, min(universe, 10))
        i2, v2 = rand_sparse(rng, universe, min(universe, 10))
        if it % 7 == 0:
            i2, v2 = i1.copy(), v1.copy()
        if it % 5 == 0:                         # cancelling / equal entries on the common indices
            pos = {int(k): j for j, k in enumerate(i1)}
            for j, k in enumerate(i2):
                if int(k) in pos:
                    v2[j] = -v1[pos[int(k)]] if it % 10 == 0 else v1[pos[int(k)]]
        a, b = dict(zip(i1.tolist(), v1.tolist())), dict(zip(i2.tolist(), v2.tolist()))
        case = {"ind1": i1.tolist(), "data1": v1.tolist(), "ind2": i2.tolist(), "data2": v2.tolist()}
        nontriv = len(i1) > 0 and len(i2) > 0 and not np.array_equal(i1, i2)
        res.case(("helpers", repr(case)), nontriv); res.count("helpers")
        keys = sorted(set(a) | set(b))

        def merged(op):
            out = [(k, op(a.get(k, 0.0), b.get(k, 0.0))) for k in keys]
            return [(k, v) for k, v in out if v != 0]

        if have("sparse_sum"):
            ri, rd = S.sparse_sum(i1, v1, i2, v2)
            if list(zip(ri.tolist(), rd.tolist())) != merged(lambda p, q: p + q):
                bad("sparse_sum", "got %r" % (list(zip(ri.tolist(), rd.tolist())),), case)
        if have("sparse_diff"):
            ri, rd = S.sparse_diff(i1, v1, i2, v2)
            if list(zip(ri.tolist(), rd.tolist())) != merged(lambda p, q: p - q):
                bad("sparse_diff", "got %r" % (list(zip(ri.tolist(), rd.tolist())),), case)
        common = sorted(set(a) & set(b))
        if have("sparse_mul"):
            ri, rd = S.sparse_mul(i1, v1, i2, v2)
            got = list(zip([int(k) for k in ri], [float(v) for v in rd]))
            if got != [(k, a[k] * b[k]) for k in common]:
                bad("sparse_mul", "got %r" % (got,), case)
        if have("sparse_dot_product") and len(i1) and len(i2):     # precondition: both non-empty (reads ind[0])
            got = float(S.sparse_dot_product(i1, v1, i2, v2))
            if got != float(sum(a[k] * b[k] for k in common)):
                bad("sparse_dot_product", "got %r, expected %r" % (got, sum(a[k] * b[k] for k in common)), case)
        if have("fast_intersection_size"):
            got = int(S.fast_intersection_size(i1, i2))
            if got != len(common):
                bad("fast_intersection_size", "got %d, expected %d" % (got, len(common)), case)
        if have("arr_intersect"):
            got = S.arr_intersect(i1, i2).tolist()
            if got != common:
                bad("arr_intersect", "got %r" % (got,), case)
        if have("arr_union"):
            got = S.arr_union(i1, i2).tolist()
            if got != keys:
                bad("arr_union", "got %r" % (got,), case)
        if have("arr_unique"):
            m = int(rng.integers(1, 14))
            arr = rng.integers(0, universe, m).astype(np.int32)
            got = S.arr_unique(arr).tolist()
            if got != sorted(set(arr.tolist())):
                bad("arr_unique", "got %r" % (got,), {"arr": arr.tolist()})
        if have("dense_union"):
            r1, r2 = S.dense_union(i1, v1, i2, v2)
            keep = [k for k in keys if a.get(k, 0.0) + b.get(k, 0.0) != 0]
            if r1.tolist() != [a.get(k, 0.0) for k in keep] or r2.tolist() != [b.get(k, 0.0) for k in keep]:
                if all(v > 0 for v in list(a.values()) + list(b.values())):
                    bad("dense_union", "got %r, %r" % (r1.tolist(), r2.tolist()), case)
                else:
                    res.count("dense_union-cancelling-entries-dropped")   # outside the non-negative domain of its callers


def names_in_both():
    return [n for n in S.sparse_named_distances if n in D.named_distances]


def run(res, tier, seed, search):
    quick = tier == "quick"
    maxdim = 4 if quick else 5
    nrand = 6 if quick else 300
    if search:
        nrand *= 3
    res.rule = ("per name in both metric tables: real sparse kernel on enc(x), enc(y) (both argument orders) vs real "
                "dense kernel on x, y (restricted to the union of supports for Jensen-Shannon / symmetric KL) under "
                "refmetrics.close; ALL 2^d x 2^d support patterns for d <= %d x value samples %s, plus random pairs "
                "of dim %s (identical, nested, disjoint, scaled, full); n_features / p / ground metric supplied; "
                "merge helpers compared exactly with Python dict arithmetic on integer-valued data; non-trivial = "
                "x != y and both supports non-empty; distinct = hash of (name, x, y, args)"
                % (maxdim, sorted(set(STYLES)), DIMS_LARGE))
    rep = Reporter(res)
    helper_checks(rep, np.random.default_rng([seed, 8]), 1500 if quick else 30000)
    # kernel-level correspondence with the Lean model (Model/Sparse.lean through the driver): merge kernels exact,
    # metric pre-images within 1e-5, on all support patterns for dim <= 5 + random pairs
    from harness import c08_kernels
    import random as _random
    c08_kernels.run_kernels(res, _random.Random(seed * 7919 + 88), 300 if quick else 3000)
    corpus = os.path.join(VERIF, "corpus", "C08.jsonl")
    if os.path.exists(corpus):
        for l in open(corpus):
            if l.strip():
                replay_case(rep, json.loads(l)); res.count("corpus")
    only_sparse = sorted(set(S.sparse_named_distances) - set(D.named_distances))
    if only_sparse:
        res.notes.append("sparse-only names (no dense counterpart to agree with): %s" % only_sparse)
    for name in names_in_both():
        spec = R.SPEC[name]
        dom = spec["domain"]
        rng = np.random.default_rng([seed, zlib.crc32(name.encode()), 8])
        ot = name in OT_NAMES
        gens = [pattern_pairs(rng, min(maxdim, 3) if ot else maxdim, dom),
                random_pairs(rng, max(nrand // 3, 1) if ot else nrand, dom)]
        if name == "cosine":
            # (correlation is not generated here: its sparse kernel centres in float32 and already loses such rows on the
            # pinned tree - the documented range limit of DESIGN 12.4)
            gens.append(huge_pairs(rng, 4 if quick else 40))
        for g in gens:
            for kind, x, y in g:
                if ot and (len(x) > 16 or len(x) < 2):
                    continue
                if spec["zero"] == "never" and (not np.any(x) or not np.any(y)):
                    continue
                sargs, dargs, jargs = metric_args(name, rng, len(x))
                compare(rep, name, kind, x, y, sargs, dargs, jargs)


def replay_case(rep, case):
    if "metric" not in case:
        return None
    name = case["metric"]
    x, y = f32(case["x"]), f32(case["y"])
    j = case.get("args", {})
    if name in S.sparse_need_n_features:
        sargs, dargs = (j.get("n_features", len(x)),), ()
    elif "p" in j:
        sargs, dargs = (j["p"],), (j["p"],)
    elif name in OT_NAMES:
        gm, cost = ground(len(x)); sargs, dargs = (gm,), (cost,)
    else:
        sargs, dargs = (), ()
    return compare(rep, name, case.get("gen", "replay"), x, y, sargs, dargs, j)


def replay(res, doc):
    rep = Reporter(res)
    for c in doc.get("cases", []):
        replay_case(rep, c.get("case", c))


if __name__ == "__main__":
    std_main("C08", run, replay)
