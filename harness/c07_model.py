"""C07 / C09 — correspondence of the Lean metric model (lean/PynnVerif/Model/Metrics.lean, executed
over float64 by the driver: `metric <kernel> | x… | y… [| p]`, `corr <correction> | v…`) with the
REAL numba kernels of `pynndescent.distances` and the REAL correction ufuncs of
`pynndescent.distances` / `pynndescent.sparse`.

`run_model(res, rng, n_cases)` is called by harness/c07.py (named metrics) and harness/c09.py
(surrogates, corrections); it can also be run on its own:

    /venv/bin/python -m harness.c07_model --tier quick --seed 0 --out /tmp/x.json

The kernels accumulate in float32 (typed kernels) or float64 on float32 data, the model in float64 on
the same (exactly representable) data: values are compared under the tolerance rule of
harness/refmetrics.py (`close(a, r, name, scale)`: on the value, or on the pre-image for kernels
whose last step amplifies rounding), never bit-for-bit.  Surrogate kernels (`alternative_*`) have no
entry in the reference table: they are compared on the similarity `2^-d` they encode (and the
`FLOAT32_MAX` / `+inf` saturation values must agree exactly).

A disagreement is reported as `res.corr_fail("metric_model:<kernel>", …)` /
`res.corr_fail("corr_model:<correction>", …)`; on every disagreement of a named metric the property
predicate is ALSO evaluated on the real output (value close to the float64 reference of refmetrics)
and reported with `res.violation("metric:<name>:value", …)` when it fails.
"""
import sys, os, math
sys.path.insert(0, os.path.dirname(os.path.dirname(os.path.abspath(__file__))))
from harness.common import *
setup_numba_cache()
import numpy as np
from pynndescent import distances as D
from pynndescent import sparse as S
from harness import refmetrics as R

F32MAX = R.F32MAX

# kernel __name__ -> (public name used for the tolerance rule / reference, domain)
#   domain: real | unit (L2-normalised reals) | mass (non-negative, positive mass) | binary
KERNELS = {
    "euclidean": ("euclidean", "real"),
    "squared_euclidean": ("sqeuclidean", "real"),
    "manhattan": ("manhattan", "real"),
    "chebyshev": ("chebyshev", "real"),
    "minkowski": ("minkowski", "real"),
    "cosine": ("cosine", "real"),
    "dot": ("dot", "unit"),
    "true_angular": ("true_angular", "real"),
    "correlation": ("correlation", "real"),
    "hellinger": ("hellinger", "mass"),
    "canberra": ("canberra", "real"),
    "bray_curtis": ("braycurtis", "real"),
    "hamming": ("hamming", "real"),
    "jaccard": ("jaccard", "binary"),
    "matching": ("matching", "binary"),
    "dice": ("dice", "binary"),
    "kulsinski": ("kulsinski", "binary"),
    "rogers_tanimoto": ("rogerstanimoto", "binary"),
    "sokal_michener": ("sokalmichener", "binary"),
    "sokal_sneath": ("sokalsneath", "binary"),
    "russellrao": ("russellrao", "binary"),
    "yule": ("yule", "binary"),
}
# surrogates: kernel __name__ -> domain
SURROGATES = {
    "alternative_cosine": "real",
    "alternative_dot": "unit",
    "alternative_hellinger": "mass",
    "alternative_jaccard": "binary",
}
# correction __name__ -> (ufunc, public name whose tolerance rule applies)
CORRECTIONS = {
    "correct_alternative_cosine": (D.correct_alternative_cosine, "cosine"),
    "true_angular_from_alt_cosine": (D.true_angular_from_alt_cosine, "true_angular"),
    "correct_alternative_hellinger": (D.correct_alternative_hellinger, "hellinger"),
    "correct_alternative_jaccard": (D.correct_alternative_jaccard, "jaccard"),
    "sparse_correct_alternative_cosine": (S.sparse_correct_alternative_cosine, "cosine"),
    "sparse_correct_alternative_hellinger": (S.sparse_correct_alternative_hellinger, "hellinger"),
}
DIMS = [1, 2, 3, 5, 8, 16, 33]
P_VALUES = [1.0, 2.0, 3.0, 0.5, 1.5]


def f32(a):
    return np.ascontiguousarray(np.asarray(a, dtype=np.float64).astype(np.float32))


def f64bits(v):
    return str(int(np.asarray(v, dtype=np.float64).view(np.uint64)))


def bits_row64(a):
    return " ".join(str(int(b)) for b in np.asarray(a, dtype=np.float64).view(np.uint64).ravel())


def from_bits64(tok):
    return float(np.asarray(int(tok), dtype=np.uint64).view(np.float64))


def kernel_of(kname):
    return getattr(D, kname)


def gen_pair(rng, domain, d, kind):
    """One pair of float32 vectors (kinds mix random reals with tie-heavy integers and the branches)."""
    if domain == "binary":
        dens = [0.1, 0.5, 0.9][int(rng.integers(3))]
        x = (rng.uniform(size=d) < dens).astype(np.float64)
        y = (rng.uniform(size=d) < dens).astype(np.float64)
        if kind == "identical":
            y = x.copy()
        elif kind == "zero":
            x = np.zeros(d)
        elif kind == "zero-both":
            x = np.zeros(d); y = np.zeros(d)
        elif kind == "disjoint":
            y = y * (1 - x)
        elif kind == "scaled":                      # non-zero-ness, not value
            y = y * rng.choice([-2.0, 0.5, 7.0], d)
        return f32(x), f32(y)
    if domain == "mass":
        x = rng.uniform(0, 1, d); x[rng.uniform(size=d) < 0.3] = 0.0
        y = rng.uniform(0, 1, d); y[rng.uniform(size=d) < 0.3] = 0.0
        if kind == "smallint":
            x = rng.integers(0, 4, d).astype(np.float64); y = rng.integers(0, 4, d).astype(np.float64)
        elif kind == "identical":
            y = x.copy()
        elif kind == "scaled":
            y = 3.0 * x
        elif kind == "zero":
            x = np.zeros(d)
        elif kind == "zero-both":
            x = np.zeros(d); y = np.zeros(d)
        elif kind == "disjoint":
            y = y * (x == 0)
        return f32(x), f32(y)
    x = rng.normal(size=d); y = rng.normal(size=d)
    if kind == "smallint":
        x = rng.integers(-2, 4, d).astype(np.float64); y = rng.integers(-2, 4, d).astype(np.float64)
    elif kind == "identical":
        y = x.copy()
    elif kind == "scaled":
        y = float(rng.choice([0.5, 2.0, -1.0, 3.0])) * x
    elif kind == "zero":
        x = np.zeros(d)
    elif kind == "zero-both":
        x = np.zeros(d); y = np.zeros(d)
    elif kind == "disjoint":
        h = d // 2
        x[h:] = 0.0; y[:h] = 0.0
    elif kind == "nonneg":
        x = np.abs(x); y = np.abs(y)
    x, y = f32(x), f32(y)
    if domain == "unit":
        out = []
        for v in (x, y):
            n = math.sqrt(float(np.dot(v.astype(np.float64), v.astype(np.float64))))
            if n == 0.0:
                return None
            out.append(f32(v.astype(np.float64) / n))
        x, y = out
    return x, y


KINDS = ["normal", "normal", "smallint", "smallint", "nonneg", "identical", "scaled", "zero", "zero-both", "disjoint"]


def close_surrogate(a, m, scale, res=None):
    """Surrogate values encode the similarity s = 2^-d and are compared on s (the pre-image, as for
    `1 - s` kernels).  Saturation values (FLOAT32_MAX for s <= 0, +inf) must be the same value --
    except at the branch threshold itself: when the exact similarity is 0 up to rounding (e.g.
    normalised orthogonal integer vectors) the float32 accumulator of the kernel and the float64
    accumulator of the model can fall on different sides of `result <= 0`; one side then saturates
    and the other encodes a similarity inside the absolute tolerance of 0.  That is agreement under
    the tolerance rule and is counted separately (`metric_model:saturation-boundary`)."""
    a = float(a); m = float(m)
    if math.isnan(a) or math.isnan(m):
        return False
    if a == F32MAX or m == F32MAX or math.isinf(a) or math.isinf(m):
        if a == m:
            return True
        sat, other = (a, m) if (a == F32MAX or math.isinf(a)) else (m, a)
        if sat == F32MAX and not math.isinf(other) and other != F32MAX and 2.0 ** -other <= R.ABS_TOL * scale:
            if res is not None:
                res.count("metric_model:saturation-boundary")
            return True
        return False
    return R.close_plain(2.0 ** -a, 2.0 ** -m, scale)


def check_translated(res, kname, case, gout, out, a, pub, close_to_impl):
    """the TRANSLATED kernel's value (driver, `gmetric`) against the real numba kernel under the same tolerance rule as the
    model's (`translated-kernel:<kernel>`), and against the hand-written model bit for bit (`translated-kernel-vs-model:`:
    Props/C07.lean proves them equal on every carrier, the driver's Float included)"""
    res.count("translated:compared")
    if gout in ("bad-op", "oob"):
        res.corr_fail("translated-kernel:" + kname, case, gout, a)
        return
    if gout != out:
        tm, mm = from_bits64(gout), from_bits64(out)
        if not (math.isnan(tm) and math.isnan(mm)):
            res.corr_fail("translated-kernel-vs-model:" + kname, case, mm, tm)
    if not close_to_impl(from_bits64(gout)):
        res.corr_fail("translated-kernel:" + kname, case, from_bits64(gout), a)


def run_model(res, rng, n_cases):
    """n_cases pairs per kernel (named metrics and surrogates) and 64*n_cases values per correction."""
    cmds, meta = [], []
    for kname, (pub, domain) in list(KERNELS.items()) + [(k, (None, d)) for k, d in SURROGATES.items()]:
        f = kernel_of(kname)
        for c in range(n_cases):
            d = DIMS[int(rng.integers(len(DIMS)))]
            kind = KINDS[c % len(KINDS)]
            pair = gen_pair(rng, domain, d, kind)
            if pair is None:
                continue
            x, y = pair
            extra, args = "", []
            if kname == "minkowski":
                p = P_VALUES[int(rng.integers(len(P_VALUES)))]
                extra, args = " | " + f64bits(p), [p]
            cmds.append("metric %s | %s | %s%s" % (kname, bits_row64(x), bits_row64(y), extra))
            meta.append((kname, pub, kind, x, y, args, f))
    # every case is ALSO run through the TRANSLATED kernel (Gen/MetricKernels.lean, regenerated from the source text of
    # distances.py by harness/translate_metrics.py; driver command `gmetric`, same protocol)
    outs = run_driver(cmds + ["g" + c for c in cmds]) if cmds else []
    outs, gouts = outs[:len(cmds)], outs[len(cmds):]
    for (kname, pub, kind, x, y, args, f), out, gout in zip(meta, outs, gouts):
        case = {"kernel": kname, "gen": kind, "x": x.tolist(), "y": y.tolist(), "args": args}
        zx, zy = not np.any(x), not np.any(y)
        res.case(("model", kname, x.tobytes().hex(), y.tobytes().hex(), repr(args)),
                 (not np.array_equal(x, y)) and not zx and not zy,
                 sample={"kernel": kname, "x": x.tolist()[:6], "y": y.tolist()[:6]})
        res.count("metric_model:" + kname); res.count("model-gen:" + kind)
        if out == "bad-op":
            res.corr_fail("metric_model:" + kname, case, "bad-op", None)
            continue
        m = from_bits64(out)
        try:
            a = float(f(x, y, *args))
        except Exception as e:                      # the model is total; an exception is a disagreement
            res.corr_fail("metric_model:" + kname, case, m, "%s: %s" % (type(e).__name__, e))
            continue
        if pub is None:
            ok = close_surrogate(a, m, max(1.0, len(x) / 8.0), res)
        else:
            kw = dict(p=args[0]) if args else {}
            scale = R.abs_scale(pub, x, y, kw)
            if math.isnan(a) and math.isnan(m):
                ok = True                           # same (undefined) value; the NaN clause is c07.py's business
            else:
                ok = R.close(a, m, pub, scale)
        check_translated(res, kname, case, gout, out, a, pub,
                         (lambda t: close_surrogate(a, t, max(1.0, len(x) / 8.0), res)) if pub is None
                         else (lambda t: (math.isnan(a) and math.isnan(t)) or R.close(a, t, pub, scale)))
        if not ok:
            res.corr_fail("metric_model:" + kname, case, m, a)
            if pub is not None:
                # property predicate on the REAL output for this input
                s = R.SPEC[pub]
                undefined = (zx or zy) and s["zero"] != "ok"
                if not undefined:
                    r = s["ref"](x, y, **(dict(p=args[0]) if args else {}))
                    if r is not None and not R.close(a, r, pub, R.abs_scale(pub, x, y, kw)):
                        res.violation("metric:%s:value" % pub,
                                      "f(x,y)=%r, reference %r (found through the Lean model: %r)" % (a, r, m), case)
    # corrections: float32 inputs as the index feeds them (surrogate outputs are float32)
    n = 64 * n_cases
    vals = np.concatenate([
        rng.uniform(0.0, 40.0, n // 4), 10.0 ** rng.uniform(-9, 2, n // 4), -(10.0 ** rng.uniform(-9, 0, n // 8)),
        rng.uniform(0.0, 2e-7, n // 8), rng.uniform(100.0, 1100.0, n // 8),
        np.array([0.0, -0.0, 1.0, 1e-7, 9.9e-8, 1.1e-7, 2.0 ** -23, 149.0, 150.0, 1074.0, 1075.0, 1e30, F32MAX, np.inf]),
    ]).astype(np.float32)
    cmds = ["corr %s | %s" % (cname, bits_row64(vals.astype(np.float64))) for cname in CORRECTIONS]
    gnames = [c for c in CORRECTIONS if not c.startswith("sparse_")]       # the dense ufuncs are translated
    outs = run_driver(cmds + ["gcorr %s | %s" % (c, bits_row64(vals.astype(np.float64))) for c in gnames])
    gouts = dict(zip(gnames, outs[len(cmds):]))
    for cname, out in zip(CORRECTIONS, outs):
        uf, pub = CORRECTIONS[cname]
        if out == "bad-op":
            res.corr_fail("corr_model:" + cname, {"correction": cname}, "bad-op", None)
            continue
        ms = [from_bits64(t) for t in out.split()]
        with np.errstate(all="ignore"):
            a = np.asarray(uf(vals), dtype=np.float64)
        if cname in gouts:
            gts = gouts[cname].split()
            if gouts[cname] != out:                 # the refinement holds on every Arith carrier: bit for bit
                res.corr_fail("translated-kernel-vs-model:" + cname, {"correction": cname}, out[:200], gouts[cname][:200])
            for v, ai, t in zip(vals, a, gts):
                res.count("translated:compared")
                ti = from_bits64(t) if t != "oob" else float("nan")
                if t == "oob" or not ((math.isnan(ai) and math.isnan(ti)) or R.close(ai, ti, pub)):
                    res.corr_fail("translated-kernel:" + cname, {"correction": cname, "v": float(v), "bits": f32bits(v)}, t if t == "oob" else ti, float(ai))
        for v, ai, mi in zip(vals, a, ms):
            res.case(("corr", cname, f32bits(v)), True)
            res.count("corr_model:" + cname)
            if math.isnan(ai) and math.isnan(mi):
                continue
            if not R.close(ai, mi, pub):
                res.corr_fail("corr_model:" + cname, {"correction": cname, "v": float(v), "bits": f32bits(v)}, mi, float(ai))
    return res


def run(res, tier, seed, search):
    res.rule = ("Lean metric model (float64, driver) vs the real numba kernels on the same float32-representable "
                "pairs under refmetrics.close; non-trivial = x != y and neither all-zero; corrections on float32 "
                "values incl. 0, the sparse dead band, saturation and +inf")
    rng = np.random.default_rng([seed, 709])
    n = 40 if tier == "quick" else 600
    if search:
        n *= 3
    run_model(res, rng, n)


if __name__ == "__main__":
    std_main("C07", run)
