"""API-level property predicates (DESIGN.md Appendix G), evaluated on REAL output.

graph_problems(L, k, metric, kwds, inds, dists)    C01 / C04 / C13 / C18
answer_problems(L, Q, k, metric, kwds, inds, dists) C02 / C04 / C06 / C18
`L`, `Q`: dense float64 logical matrices in the caller's row numbering (bit-packed: uint8).
Each returns a list of (kind, description); empty = the predicate holds."""
import math
import numpy as np
from harness import refmetrics as R


def _row(M, i):
    return np.asarray(M[i])


def _ref(metric, x, y, kwds):
    s = R.SPEC[metric]
    if s.get("unit_norm"):
        nx, ny = np.linalg.norm(x), np.linalg.norm(y)
        if nx == 0 or ny == 0:
            return None
        x = (x.astype(np.float32) / np.float32(nx)).astype(np.float64)
        y = (y.astype(np.float32) / np.float32(ny)).astype(np.float64)
    try:
        v = s["ref"](x, y, **kwds)
    except ZeroDivisionError:
        return None
    if v is None:
        return None
    return R.clamp(metric, v)


def closer_eq(metric, a, b, slack=1e-6):
    """a is at least as close as b (up to slack)"""
    if R.SPEC[metric]["orientation"] == "similarity":
        return a >= b - slack * max(1.0, abs(b))
    return a <= b + slack * max(1.0, abs(b))


def _check_rows(L, Qm, k, metric, kwds, inds, dists, what, max_value_checks=4000):
    out = []
    n = L.shape[0]
    nq = Qm.shape[0]
    if inds.shape != (nq, k) or dists.shape != (nq, k):
        return [("shape", "%s arrays have shapes %s / %s, expected %s" % (what, inds.shape, dists.shape, (nq, k)))]
    if np.isnan(dists).any():
        i, j = np.argwhere(np.isnan(dists))[0]
        out.append(("nan", "%s row %d slot %d: distance is NaN (index %d)" % (what, i, j, inds[i, j])))
        return out
    budget = max_value_checks
    for i in range(nq):
        row = inds[i]
        real = row >= 0
        if (row >= n).any() or (row < -1).any():
            out.append(("range", "%s row %d names %s, not a row of the %d-point dataset" % (what, i, row[(row >= n) | (row < -1)][:3], n)))
            break
        r = row[real]
        if len(set(r.tolist())) != len(r):
            out.append(("duplicate", "%s row %d names a point twice: %s" % (what, i, row.tolist())))
            break
        if real.any() and (~real).any() and np.argmax(~real) < np.max(np.nonzero(real)[0]):
            out.append(("sentinel-order", "%s row %d has a real entry after a -1: %s" % (what, i, row.tolist())))
            break
        d = dists[i]
        for j in range(k - 1):
            if real[j] and real[j + 1] and not closer_eq(metric, float(d[j]), float(d[j + 1])):
                out.append(("order", "%s row %d not closest-first at slot %d: %r then %r" % (what, i, j, float(d[j]), float(d[j + 1]))))
                break
        if real.any() and (~real).any():
            last = float(d[np.max(np.nonzero(real)[0])])
            for j in np.nonzero(~real)[0]:
                if not closer_eq(metric, last, float(d[j])):
                    out.append(("sentinel-closer", "%s row %d: -1 slot carries %r, closer than the last real entry %r"
                                % (what, i, float(d[j]), last)))
                    break
        if out:
            break
        x = _row(Qm, i)
        for j in range(k):
            if real[j] and budget > 0:
                budget -= 1
                y = _row(L, int(row[j]))
                ref = _ref(metric, x.astype(np.float64), y.astype(np.float64), kwds)
                if ref is None:
                    continue
                sc = R.abs_scale(metric, x, y, kwds)
                if not R.close(float(d[j]), ref, metric, scale=sc):
                    out.append(("distance", "%s row %d slot %d: reported %r for point %d, %s distance is %r"
                                % (what, i, j, float(d[j]), int(row[j]), metric, ref)))
                    break
        if out:
            break
    return out


def graph_problems(L, k, metric, kwds, inds, dists):
    return _check_rows(L, L, k, metric, kwds, np.asarray(inds), np.asarray(dists), "graph")


def answer_problems(L, Q, k, metric, kwds, inds, dists):
    return _check_rows(L, Q, k, metric, kwds, np.asarray(inds), np.asarray(dists), "answer")
