#!/venv/bin/python
"""Source pins: normalised-AST hashes of every function (and of each module's top-level statements) of the
pinned pynndescent tree, so that a check can tell WHERE the working tree differs from the tree the model was
written against.  A changed hash is never an alarm.  It only steers the sampling budget: when a function in a
file this property is anchored in has changed, `check` also runs the failing-input search pass (3x budget,
different seed) even though no proof or correspondence broke, and the evidence names the changed functions.

  harness/srcpin.py --write     rewrite /verif/srcpins.json from $PYNN_REPO (maintainer, on the pinned tree)
  harness/srcpin.py             print the functions that differ from the pins
"""
import ast, glob, hashlib, json, os, sys

VERIF = os.path.dirname(os.path.dirname(os.path.abspath(__file__)))
REPO = os.environ.get("PYNN_REPO", "/repo")
PINS = os.path.join(VERIF, "srcpins.json")


def _strip_doc(node):
    b = getattr(node, "body", None)
    if isinstance(b, list) and b and isinstance(b[0], ast.Expr) and isinstance(b[0].value, ast.Constant) and isinstance(b[0].value.value, str):
        node.body = b[1:] or [ast.Pass()]


def _h(node):
    for n in ast.walk(node):
        _strip_doc(n)
    return hashlib.sha1(ast.dump(node, annotate_fields=False, include_attributes=False).encode()).hexdigest()[:16]


def compute(repo=REPO):
    out = {}
    for path in sorted(glob.glob(os.path.join(repo, "pynndescent", "*.py"))):
        fname = os.path.basename(path)
        try:
            tree = ast.parse(open(path).read())
        except SyntaxError:
            out[fname + "::<unparsable>"] = "x"
            continue
        rest = []

        def walk(body, prefix):
            for n in body:
                if isinstance(n, (ast.FunctionDef, ast.AsyncFunctionDef)):
                    out["%s::%s%s" % (fname, prefix, n.name)] = _h(n)     # nested closures are part of their parent
                elif isinstance(n, ast.ClassDef):
                    walk(n.body, prefix + n.name + ".")
                elif not prefix:
                    rest.append(n)
        walk(tree.body, "")
        out[fname + "::<module level>"] = _h(ast.Module(body=rest, type_ignores=[]))
    return out


def changed(repo=REPO):
    """names whose hash differs from the pins (added / removed / edited)"""
    if not os.path.exists(PINS):
        return None
    pins, cur = json.load(open(PINS)), compute(repo)
    return sorted(k for k in set(pins) | set(cur) if pins.get(k) != cur.get(k))


if __name__ == "__main__":
    if "--write" in sys.argv:
        with open(PINS, "w") as f:
            json.dump(compute(), f, indent=0, sort_keys=True)
        print("wrote", PINS)
    else:
        for k in changed() or []:
            print(k)
