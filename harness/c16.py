"""C16 — the search graph is a bounded-degree subgraph of the neighbour graph.

1. kernel level: `degree_prune_internal` bit-exact against the Lean model (`prune`), and the bound
   predicate on the real output (rows longer / shorter / equal to the bound, with ties);
2. end to end: for `diversify_prob` in {1, 0.5, 0} the Lean pipeline model (`searchgraph edges`)
   predicts the edge set of `index._search_graph` from the real `index._neighbor_graph` and the
   distance table of the index's own `_distance_func`; compared, un-permuted through
   `index._vertex_order`, edge for edge (this also ties the four diversify kernels in place, the
   "reverse" pass over the shared CSR arrays and the scipy glue).  For 0.5 the outcomes of the
   generator tests are reproduced: row `i` of `diversify` AND row `i` of `diversify_csr` evaluate
   `tau_rand(local_rng_state) < diversify_prob` on the private array `local_rng_state = rng_state + i`
   (a fresh allocation inside the `prange` body; `self.rng_state` is passed to both passes and is
   never advanced by them), so the draws do not depend on the thread schedule and both passes
   restart the SAME stream per row; the harness records `index.rng_state` before `prepare`, checks
   that it is unchanged afterwards, and replays `tau_rand(rng_state + i)` with the real generator;
3. API level: the predicate `search_graph(index)` of DESIGN Appendix G evaluated on real indexes
   across n_neighbors, pruning_degree_multiplier (incl. m = 1, 2), diversify_prob in {1, 0.5, 0},
   dense / CSR, tree_init, metrics euclidean / cosine / correlation (with duplicates and 2-D
   correlation data: zero and slightly negative lengths).
"""
import sys, os, random, warnings
sys.path.insert(0, os.path.dirname(os.path.dirname(os.path.abspath(__file__))))
from harness.common import *
setup_numba_cache()
import numpy as np, numba, scipy.sparse as sp
warnings.filterwarnings("ignore")
from pynndescent import NNDescent
from pynndescent import pynndescent_ as pn
from pynndescent.utils import tau_rand
from harness.c15 import _table_dense, _table_sparse, f64bits_row

EPS32 = np.float32(pn.FLOAT32_EPS)
INF = float("inf")


# ----------------------------------------------------------------------------------------------
# 1. degree_prune_internal
# ----------------------------------------------------------------------------------------------
def prune_predicate(m, before, after):
    """property on the real output of one row (all lengths > 0); returns (kind, text) or None"""
    n = len(before)
    kept = [j for j in range(n) if after[j] != 0.0]
    if any(after[j] != 0.0 and np.float32(after[j]).view(np.uint32) != np.float32(before[j]).view(np.uint32) for j in range(n)):
        return "subset", "a kept entry's length was changed"
    if n <= m:
        if len(kept) != n:
            return "short-row-changed", "a row no longer than the bound lost an entry"
        return None
    if not kept:
        return "keeps-min", "every entry of a non-empty row was removed"
    cmax = max(before[j] for j in kept)
    if min(before) != min(before[j] for j in kept):
        return "keeps-min", "no entry of minimal length was kept"
    if any(before[j] <= cmax for j in range(n) if j not in kept):
        return "removed-shorter", "an entry no longer than the longest kept one was removed"
    if sum(1 for j in kept if before[j] < cmax) >= m:
        return "bound", "%d kept entries are strictly shorter than the longest kept one, bound m=%d" % (sum(1 for j in kept if before[j] < cmax), m)
    return None


def check_prune(res, rng, ncases):
    for c in range(ncases):
        m = rng.choice([0, 1, 1, 2, 2, 3, 4, 5, 8])
        R = rng.choice([3, 6, 10])
        rows = []
        for r in range(R):
            L = rng.choice([0, 1, max(0, m - 1), m, m + 1, m + 2, 2 * m + 1, rng.randrange(0, 14)])
            style = rng.choice(["ties", "ties", "real", "mixed-sign", "tiny"])
            if style == "ties":
                v = [rng.choice([float(EPS32), 0.5, 1.0, 1.0, 2.0, 2.0, 3.0, 7.5]) for _ in range(L)]
            elif style == "real":
                v = [rng.random() * 4 + 1e-3 for _ in range(L)]
            elif style == "tiny":
                # lengths far below FLOAT32_EPS apart (squared distances of data at scale 1e-4): the cut is an order statistic,
                # not a tolerance band
                v = [2e-8 * (1 + rng.randrange(0, 40)) for _ in range(L)]
            else:
                v = [rng.choice([-1.0, -0.0, 0.0, 0.5, 1.0, 2.0]) for _ in range(L)]
            rows.append((style, [np.float32(x) for x in v]))
        indptr = np.cumsum([0] + [len(v) for _, v in rows]).astype(np.int32)
        data = np.array([x for _, v in rows for x in v], dtype=np.float32)
        out = data.copy()
        pn.degree_prune_internal(indptr, out, m)
        # the TRANSLATED kernel (Gen/SearchGraphKernels.lean, regenerated from the source text by harness/translate_searchgraph.py)
        # on the whole CSR, last line; max_degree = 0 is outside the translation (numba's index -1 wraps, `rd` answers oob)
        model = run_driver(["prune %d | %s" % (m, bits_row(v)) for _, v in rows]
                           + ["gk_prune %d | %s | %s" % (m, " ".join(str(int(x)) for x in indptr), bits_row(data) if len(data) else "")])
        trans = model.pop().strip()
        if m >= 1:
            res.count("translated:compared")
            want = bits_row(out) if len(out) else ""
            if trans != want:
                res.corr_fail("translated-kernel:degree_prune_internal", {"m": m, "indptr": [int(x) for x in indptr], "data_bits": bits_row(data) if len(data) else ""}, trans, want)
        else:
            res.count("translated:prune_m0_outside_translation")
        for r, (style, v) in enumerate(rows):
            o = out[indptr[r]:indptr[r + 1]]
            impl = bits_row(o) if len(v) else ""
            case = {"m": m, "len_bits": bits_row(v), "style": style}
            rel = "longer" if len(v) > m else ("equal" if len(v) == m else "shorter")
            res.count("prune_row_" + rel); res.count("prune_m%d" % m if m <= 2 else "prune_m>2")
            res.case(("prune", m, bits_row(v)), len(v) > m and m >= 1, sample={"m": m, "len": [float(x) for x in v], "out": [float(x) for x in o]} if c < 2 else None)
            if model[r].strip() != impl:
                res.corr_fail("degree_prune_bit_exact", case, model[r], impl)
            if m >= 1 and style != "mixed-sign":
                bad = prune_predicate(m, [float(x) for x in v], [float(x) for x in o])
                if bad:
                    res.violation("prune:" + bad[0], bad[1], case)


# ----------------------------------------------------------------------------------------------
# datasets / indexes
# ----------------------------------------------------------------------------------------------
def gen_data(rng, n, dim, stream, sparse):
    if stream == "gauss":
        X = rng.standard_normal((n, dim))
    elif stream == "smallint":
        X = rng.integers(-2, 4, size=(n, dim)).astype(float)
    elif stream == "dups":
        X = rng.standard_normal((n, dim))
        for _ in range(max(2, n // 6)):
            a, b = rng.integers(0, n, 2)
            X[a] = X[b]
        for _ in range(max(1, n // 10)):
            a, b = rng.integers(0, n, 2)
            X[a] = X[b] * float(rng.choice([0.5, 2.0, 3.0]))
    elif stream == "hub":
        # a hub: one point close to the origin, all others spread on a sphere around it — every point lists the hub, so the
        # hub collects n-1 reverse edges and only the degree prune bounds its row (also for large multipliers)
        U = rng.standard_normal((n, dim)); U /= np.linalg.norm(U, axis=1, keepdims=True)
        X = U * (1.0 + 0.05 * rng.random((n, 1)))
        X[0] = 0.01 * rng.standard_normal(dim)
    elif stream == "parallel":
        # clusters of parallel vectors: cosine / correlation lengths are roundings of 0 (tiny positive, zero, slightly negative)
        g = max(2, n // 6)
        base = rng.standard_normal((g, dim)).astype(np.float32)
        X = np.array([base[int(rng.integers(g))] * np.float32(rng.choice([0.5, 1.0, 2.0, 3.0])) for _ in range(n)])
    else:
        raise ValueError(stream)
    X = X.astype(np.float32)
    if sparse:
        if stream == "gauss":
            X = X * (rng.random(X.shape) < 0.85)
        if stream == "parallel":
            X[:, 0] = 0.0
        for i in range(n):
            if not X[i].any():
                X[i, int(rng.integers(0, dim))] = 1.0
        M = sp.csr_matrix(X.astype(np.float32))
        M.sort_indices()
        return M
    return np.ascontiguousarray(X)


def dist_table(idx, X):
    """table of the index's own kernel on the caller's data, caller numbering (float64 as returned)"""
    f = idx._distance_func
    if sp.issparse(X):
        return _table_sparse(X.indptr, X.indices, X.data, f)
    return _table_dense(X, f)


def real_rows(idx):
    """search-graph rows in caller numbering: list of sorted neighbour lists"""
    G = idx._search_graph.tocsr()
    vo = np.asarray(idx._vertex_order)
    n = G.shape[0]
    rows = [None] * n
    for a in range(n):
        cols = G.indices[G.indptr[a]:G.indptr[a + 1]]
        vals = G.data[G.indptr[a]:G.indptr[a + 1]]
        rows[int(vo[a])] = sorted(int(vo[b]) for b, v in zip(cols, vals) if v != 0)
    return rows


def pub(cfg):
    """the replayable part of a configuration (private entries such as the recorded generator state are reported separately)"""
    return {k_: v for k_, v in cfg.items() if not k_.startswith("_")}


def build(X, cfg):
    idx = NNDescent(X, metric=cfg["metric"], n_neighbors=cfg["k"], random_state=cfg["seed"], tree_init=cfg["tree_init"],
                    pruning_degree_multiplier=cfg["mult"], diversify_prob=cfg["dp"], low_memory=cfg.get("low_memory", True),
                    compressed=cfg.get("compressed", False))
    ng = (idx._neighbor_graph[0].copy(), idx._neighbor_graph[1].copy())
    # the generator state both diversification passes receive (construction advanced it in place; _init_search_graph does not)
    cfg["_rng_state"] = idx.rng_state.copy()
    if cfg.get("full_prepare", True):
        idx.prepare()
    else:
        # prepare() = _init_search_graph() + compilation of the search closure (1-2 s of JIT per index, does not
        # touch _search_graph); most indexes skip the closure, every fourth goes through prepare() itself
        idx._init_search_graph()
    return idx, ng


# ----------------------------------------------------------------------------------------------
# 2. end-to-end prediction
# ----------------------------------------------------------------------------------------------
def protect32(x):
    return EPS32 if x <= 0 else np.float32(x)


def forward_ties(ng):
    """True if some row holds two real entries of equal protected length (argsort order then unknown)"""
    I, D = ng
    for u in range(I.shape[0]):
        ls = [float(protect32(D[u, t])) for t in range(I.shape[1]) if I[u, t] >= 0]
        if len(set(ls)) < len(ls):
            return True
    return False


def rows_ascending(ng):
    I, D = ng
    for u in range(I.shape[0]):
        ls = [float(D[u, t]) for t in range(I.shape[1]) if I[u, t] >= 0]
        if any(ls[t] > ls[t + 1] for t in range(len(ls) - 1)):
            return False
    return True


def draw_bits(rng_state, n, B, p):
    """B outcomes of `tau_rand(rng_state + u) < p` per row u, row after row: the private stream that row u of diversify and
    row u of diversify_csr both start from (`local_rng_state = rng_state + i`), produced by the real generator"""
    out = []
    for u in range(n):
        s = rng_state + u
        out.extend(1 if tau_rand(s) < p else 0 for _ in range(B))
    return out


def predict_lines(ng, T, m, stage="edges", dp=1.0, rng_state=None):
    I, D = ng
    n, k = I.shape
    mode = {1.0: "", 0.0: " p0"}.get(dp, " d")
    l = "searchgraph %s %d %d %d %d%s | %s | %s | %d %s" % (stage, m, n, k, f32bits(EPS32), mode, ints_row(I.ravel()), bits_row(D.ravel()), n, f64bits_row(T))
    if mode == " d":
        bits = ints_row(draw_bits(rng_state, n, k * k, dp))
        l += " | " + bits + " | " + bits          # the same stream, restarted, in both passes
    return l


def check_e2e(res, X, cfg, idx, ng, T, m):
    """Given the outcomes of the generator tests the whole of _init_search_graph is a function of the neighbour graph and the
    distance table (probability 1: every test prunes; 0: none does; 0.5: replayed from the recorded generator state).
    Rows with tied (protected) lengths are visited by the second pass in an unknown order.  With probability 1, a table that is
    symmetric bit for bit and ascending rows, that pass is the identity for EVERY tie order (Props/C16, secondRow_keeps
    argument); with probability 0 both passes are the identity whatever the order; so the prediction stays exact.  Otherwise
    (asymmetric table, or probability 0.5, where Props/C16 searchGraph_nearest_needs_htie shows the tie order matters) tied
    inputs are skipped.  Returns True if the edge sets were compared."""
    dp = cfg["dp"]
    tied = forward_ties(ng)
    sym = np.array_equal(T.view(np.uint64), T.T.view(np.uint64))
    if tied and dp != 0.0 and not (dp == 1.0 and sym and rows_ascending(ng)):
        res.count("e2e_tied_skipped"); res.count("e2e_tied_skipped_dp=%g" % dp)
        return False
    rs = cfg["_rng_state"]
    if not np.array_equal(rs, idx.rng_state):
        # never observed: _init_search_graph hands self.rng_state to make_forest (which ignores it) and to the two passes
        # (which copy it per row); if it moved, the recorded state is not the one the passes saw
        res.count("e2e_rng_state_moved")
        res.notes.append("rng_state changed during prepare: %r" % pub(cfg))
        if dp not in (0.0, 1.0):
            return False
    res.count("e2e_compared_tied" if tied else "e2e_compared_tiefree"); res.count("e2e_compared_dp=%g" % dp)
    model = run_driver([predict_lines(ng, T, m, dp=dp, rng_state=rs)])[0]
    pred = [sorted(int(t) for t in r.split()) for r in model.split("|")]
    real = real_rows(idx)
    n = len(real)
    nontrivial = any(len(r) > m for r in pred) or sum(len(r) for r in real) < int(np.sum(ng[0] >= 0))
    res.case(("e2e", cfg["metric"], cfg["k"], cfg["mult"], dp, cfg["tree_init"], cfg["sparse"], n, cfg["seed"], cfg["dseed"]), nontrivial,
             sample={**pub(cfg), "n": n, "edges": sum(len(r) for r in real)})
    res.count("e2e_edges", sum(len(r) for r in real))
    if dp not in (0.0, 1.0):
        # how much the draws mattered: edges of this index that probability 1 would not have / that it alone would have
        p1 = [set(int(t) for t in r.split()) for r in run_driver([predict_lines(ng, T, m)])[0].split("|")]
        res.count("e2e_dp.5_edges_not_in_p1", sum(len(set(real[u]) - p1[u]) for u in range(min(n, len(p1)))))
        res.count("e2e_dp.5_edges_only_in_p1", sum(len(p1[u] - set(real[u])) for u in range(min(n, len(p1)))))
    if len(pred) != n or any(pred[u] != real[u] for u in range(n)):
        bad = [u for u in range(min(n, len(pred))) if pred[u] != real[u]][:5]
        res.corr_fail("searchgraph_edge_set", {**pub(cfg), "rng_state": rs.tolist(), "n": n, "m": m, "rows": bad},
                      {u: pred[u] for u in bad}, {u: real[u] for u in bad})
    return True


# ----------------------------------------------------------------------------------------------
# 3. API-level predicate  search_graph(index)
# ----------------------------------------------------------------------------------------------
def api_predicate(res, cfg, idx, ng, T, m):
    key = "searchgraph:%s:%s" % ("csr" if cfg["sparse"] else "dense", cfg["metric"])
    I, D = ng
    n, k = I.shape
    G = idx._search_graph
    case = pub(cfg)

    def viol(kind, what, extra=None):
        res.violation("searchgraph:" + kind, what, {**case, **(extra or {}), "site": key})

    if G.shape != (n, n):
        viol("square", "shape %r for %d points" % (G.shape, n)); return
    if G.diagonal().any():
        viol("self-loop", "non-zero diagonal")
    vo = np.asarray(idx._vertex_order)
    if sorted(vo.tolist()) != list(range(n)):
        viol("vertex-order", "_vertex_order is not a permutation"); return
    rows = real_rows(idx)
    lists = [set(int(v) for v in I[u] if v >= 0) for u in range(n)]
    sym = np.array_equal(T.astype(np.float32).view(np.uint32), T.T.astype(np.float32).view(np.uint32))
    res.count("api_table_symmetric" if sym else "api_table_asymmetric")

    def plen(u, w):
        return float(protect32(np.float32(T[u, w])))

    for u in range(n):
        S = rows[u]
        if u in S:
            viol("self-loop", "edge %d -> %d" % (u, u), {"u": u})
        for w in S:
            if not (w in lists[u] or u in lists[w]):
                viol("subgraph", "edge %d -> %d: neither lists the other" % (u, w), {"u": u, "w": w})
                break
        if cfg["dp"] == 0.0:
            # probability 0 removes nothing: before the degree bound applies, row u is its own list united with the reverse edges
            U = sorted((lists[u] | {w for w in range(n) if u in lists[w]}) - {u})
            if len(U) <= m and U != S and not any(plen(u, w) <= float(EPS32) for w in U):
                viol("prob0", "diversify_prob=0: point %d has %d candidate edges (bound m=%d) but %d edges; missing %r"
                     % (u, len(U), m, len(S), sorted(set(U) - set(S))[:5]), {"u": u})
                break
        if len(S) > m and sym:
            ls = [plen(u, w) for w in S]
            mx = max(ls)
            short = sum(1 for x in ls if x < mx)
            res.count("api_rows_over_bound_tied")
            if short >= m:
                viol("degree", "point %d keeps %d edges strictly shorter than its longest (%d edges), bound m=%d" % (u, short, len(S), m), {"u": u})
        if len(S) > m:
            res.count("api_rows_longer_than_m")
        others = [(float(protect32(D[u, t])), int(I[u, t])) for t in range(k) if I[u, t] >= 0 and I[u, t] != u]
        if others:
            res.count("api_points_with_neighbour")
            if not S:
                viol("no-edge", "point %d lists %d other points and has no edge" % (u, len(others)), {"u": u, "list": I[u].tolist(), "len": D[u].tolist()})
                continue
            if not sym:
                continue
            dstar = min(o[0] for o in others)
            if min(plen(u, w) for w in S) > dstar:
                viol("nearest", "point %d: list-nearest other point at %r, shortest edge %r" % (u, dstar, min(plen(u, w) for w in S)),
                     {"u": u, "list": I[u].tolist(), "len": D[u].tolist(), "edges": S})
            near = [o[1] for o in others if o[0] == dstar]
            if len(near) == 1 and near[0] not in S:
                shorter = sum(1 for w in S if plen(u, w) < dstar)
                if shorter < m:
                    viol("list-nearest-dropped", "point %d: its unique list-nearest point %d is no edge although only %d edges are shorter (m=%d)"
                         % (u, near[0], shorter, m), {"u": u, "list": I[u].tolist(), "len": D[u].tolist(), "edges": S})
    res.count("api_indexes")


# ----------------------------------------------------------------------------------------------
PLANS = [
    # (metric, sparse, data streams, rotating)
    ("euclidean", False, ["gauss", "smallint", "hub", "dups"]),
    ("cosine", False, ["gauss", "parallel", "dups", "smallint"]),
    ("correlation", False, ["gauss", "corr2d", "parallel", "dups"]),
    ("euclidean", True, ["gauss", "smallint", "gauss", "dups"]),
    ("cosine", True, ["gauss", "parallel", "dups", "smallint"]),
]


def run_plan(res, rng0, plan, count, tier, extra=0, rng_extra=None):
    """`count` rotating cases drawn from `rng0`, then `extra` cases with diversify_prob = 0.5 on tie-free gaussian data (drawn from
    `rng_extra`, so that they do not shift the others): the cases in which the replayed draws decide edges"""
    metric, sparse, streams = plan
    for c in range(count + extra):
        forced = c >= count
        rng = rng_extra if forced else rng0
        stream = "gauss" if forced else streams[c % len(streams)]
        e2e = (c % 8 < 5) and not forced                         # diversify_prob = 1 (the other three of eight: 0.5 or 0); the edge set is predicted for all
        n = int(rng.choice([6, 12, 40, 90, 120, 200] if stream == "gauss" else [3, 6, 12, 40, 40, 90, 120]))
        k = int(rng.choice([2, 4, 8, 15]))
        if forced:
            n = int(rng.choice([40, 90, 120, 200])); k = int(rng.choice([4, 8, 15]))
        dim = int(rng.choice([4, 7] if (sparse or stream == "parallel" or metric == "correlation") else [2, 4, 7]))
        if stream == "parallel":
            n = int(rng.choice([40, 90, 120])); k = int(rng.choice([2, 4]))
        if stream == "hub":
            n = int(rng.choice([60, 120])); k = int(rng.choice([2, 4])); dim = 4
        stream_ = stream
        if stream == "corr2d":
            dim, stream_ = 2, "gauss"          # centred 2-vectors are (anti)parallel: lengths 0, 2 and slightly negative roundings
            k = int(rng.choice([2, 4]))
        mult = float(rng.choice([1.5, 1.0, 0.5, 2.0, 1.0 / k, 2.0 / k, 3.0])) if stream != "hub" else float(rng.choice([2.0, 3.0, 2.5]))
        if stream == "hub" and c < len(streams):
            k, mult = 3, 1.5                         # bound round(4.5) = 4 (half to even), rows of the hub exceed it
        m = int(round(mult * k))
        if m < 1:
            mult, m = 1.0 / k, 1
        dp = 1.0 if e2e else float(rng.choice([0.5, 0.5, 0.0]))
        if forced:
            dp = 0.5
        cfg = {"metric": metric, "sparse": sparse, "stream": stream, "n": n, "k": k, "dim": dim, "mult": mult, "dp": dp,
               "tree_init": bool(rng.integers(2)), "seed": int(rng.integers(1000)), "dseed": int(rng.integers(1 << 30)),
               "low_memory": bool(rng.integers(2)), "full_prepare": (c % 4 == 0 and not forced), "compressed": (c % 3 == 1)}
        X = gen_data(np.random.default_rng(cfg["dseed"]), n, dim, stream_, sparse)
        res.count("m=%d" % m if m <= 2 else "m>2"); res.count("dp=%g" % dp); res.count("stream_" + stream)
        res.count("tree_init=%s" % cfg["tree_init"]); res.count("plan_%s_%s" % ("csr" if sparse else "dense", metric))
        try:
            idx, ng = build(X, cfg)
        except Exception as e:  # noqa
            res.violation("searchgraph:exception", "%s: %s" % (type(e).__name__, str(e)[:200]), pub(cfg))
            continue
        T = dist_table(idx, X)
        if int(np.round(idx.prune_degree_multiplier * idx.n_neighbors)) != m:
            res.notes.append("m mismatch %r" % pub(cfg))
        real = ng[0] >= 0
        res.count("lens_negative", int((ng[1][real] < 0).sum())); res.count("lens_zero", int((ng[1][real] == 0).sum()))
        res.count("padding_entries", int((~real).sum()))
        compared = check_e2e(res, X, cfg, idx, ng, T, m)
        if not e2e and not compared:
            res.case(("api", metric, sparse, stream, n, k, mult, dp, cfg["tree_init"], cfg["seed"], cfg["dseed"]), n > k)
        api_predicate(res, cfg, idx, ng, T, m)
        res.traces += 1


def check_prune_wrapper(res, prng):
    """`degree_prune(graph, max_degree)` - the routine the property names - on CSR matrices of either floating dtype (scipy's
    default is float64): afterwards no row keeps max_degree or more entries strictly shorter than its longest"""
    nrng = np.random.default_rng(prng.randrange(1 << 30))
    for dt in (np.float32, np.float64):
        for c in range(6):
            n = int(nrng.integers(4, 25)); m = int(nrng.integers(1, 6))
            A = sp.random(n, n, density=float(nrng.choice([0.3, 0.7])), format="csr", dtype=np.float64,
                          random_state=int(nrng.integers(1 << 30)))
            A.data = (np.round(A.data * 8) / 8 + 0.125).astype(dt)           # ties on purpose
            A = sp.csr_matrix(A, dtype=dt)
            before = A.copy()
            out = pn.degree_prune(A, m)
            res.case(("prune-wrapper", str(np.dtype(dt)), n, m, before.data.tobytes()), bool((np.diff(before.indptr) > m).any()))
            res.count("prune_wrapper_cases")
            for u in range(n):
                row = out.data[out.indptr[u]:out.indptr[u + 1]]
                if len(row) > m:
                    short = int((row < row.max()).sum())
                    if short >= m:
                        res.violation("searchgraph:degree:wrapper", "degree_prune(%s CSR, max_degree=%d): row %d keeps %d entries, %d of them "
                                      "strictly shorter than its longest" % (np.dtype(dt), m, u, len(row), short),
                                      {"dtype": str(np.dtype(dt)), "n": n, "m": m, "site": "degree_prune"})
                        return


def run(res, tier, seed, search):
    prng = random.Random(seed * 7919 + 16)
    rng = np.random.default_rng(seed + 1616)
    res.rule = ("(1) degree_prune_internal rows (longer/equal/shorter than m in 0..8, tie-heavy / real / mixed-sign), non-trivial = row longer than "
                "the bound with m >= 1; (2) end-to-end edge-set prediction for diversify_prob in {1, .5, 0} (five, two, one of eight indexes; for .5 "
                "the draws tau_rand(rng_state + row) < .5 of both passes are replayed from index.rng_state; tied rows skipped unless "
                "probability 0, or probability 1 with a symmetric table; on every data stream (n in 3..200, k in 2..15) plus, per plan, 3 (quick) / 8 "
                "indexes with probability .5 on tie-free gaussian data, n in 40..200, k in 4..15, where the replayed draws decide edges "
                "(m = round(mult*k) incl. 1 and 2, dense/CSR, tree_init, low_memory), non-trivial = some row longer than the bound or some edge "
                "removed by diversification; (3) API predicate on the same and on smallint / duplicate / 2-D-correlation data with "
                "diversify_prob in {1, .5, 0}, non-trivial = n > k; distinct = hash of the configuration; quick tier: dense euclidean, one CSR plan and one "
                "other dense plan, rotating with the seed (each plan costs 10-20 s of numba compilation)")
    check_prune(res, prng, 60 if tier == "quick" else 600)
    check_prune_wrapper(res, prng)
    if tier == "quick" and not search:
        # dense euclidean, one of the two dense others and ALWAYS one CSR plan (the sparse call sites of _init_search_graph are their own code)
        plans = [PLANS[0], PLANS[3 + seed % 2], PLANS[1 + (seed // 2) % 2]]
        per = [14, 8, 8]
    else:
        plans = PLANS
        per = [40 if search else 24] * len(PLANS)
    rng_extra = np.random.default_rng(seed + 161616)
    for plan, cnt in zip(plans, per):
        run_plan(res, rng, plan, cnt, tier, extra=(3 if tier == "quick" and not search else 8), rng_extra=rng_extra)


if __name__ == "__main__":
    std_main("C16", run)
