"""Translator (C06/C09/C01): the metric tables and the *extensional* metric-selection
decision tables of NNDescent, regenerated from /repo's working tree.

* tables: named_distances, fast_distance_alternatives, sparse_named_distances,
  sparse_fast_distance_alternatives, sparse_need_n_features — every entry as
  (public name, __name__ of the kernel, __name__ of the correction).
* selection at construction: the statements of NNDescent.__init__ that choose the
  distance function and correction (located by AST: the call to _set_distance_func and,
  inside the `isspmatrix_csr(self._raw_data)` branch, the `if metric in
  sparse.sparse_named_distances` chain and the `sparse_need_n_features` test) are
  compiled from the source text and executed on a stub object for EVERY public name
  and both data kinds — an exhaustive evaluation of the real chain over its finite domain.
* selection at load: the real __setstate__ is executed on a stub (search-function
  re-initialisation stubbed out) holding the attributes that construction left.
Output: lean/PynnVerif/Gen/Tables.lean (data only)."""
import ast, os, sys, textwrap, inspect, warnings
VERIF = os.path.dirname(os.path.dirname(os.path.abspath(__file__)))
sys.path.insert(0, VERIF)
from harness.common import setup_numba_cache, REPO
setup_numba_cache()
warnings.filterwarnings("ignore")
import numpy as np
import pynndescent.pynndescent_ as P
import pynndescent.distances as D
import pynndescent.sparse as S

OUT = os.path.join(VERIF, "lean", "PynnVerif", "Gen", "Tables.lean")


def fname(f):
    if f is None:
        return "none"
    n = getattr(f, "__name__", None) or getattr(getattr(f, "py_func", None), "__name__", None) or repr(f)
    return n


def lean_str(s):
    return '"' + str(s).replace("\\", "/").replace('"', "'") + '"'


def find_init_fragments():
    src = inspect.getsource(P.NNDescent.__init__)
    tree = ast.parse(textwrap.dedent(src))
    fn = tree.body[0]
    dense_stmts, sparse_stmts = [], []
    for n in ast.walk(fn):
        if isinstance(n, ast.If) and "isspmatrix_csr" in ast.dump(n.test):
            for s in n.body:
                d = ast.dump(s)
                if isinstance(s, ast.If) and ("sparse_named_distances" in d or "sparse_need_n_features" in d):
                    sparse_stmts.append(s)
    for s in ast.walk(fn):
        if isinstance(s, (ast.Assign, ast.Expr)):
            d = ast.dump(s)
            if "_distance_correction" in d and isinstance(s, ast.Assign) and isinstance(s.value, ast.Constant) and s in fn.body:
                dense_stmts.append(s)
            if isinstance(s, ast.Expr) and "_set_distance_func" in d and s in fn.body:
                dense_stmts.append(s)
    dense_stmts.sort(key=lambda s: s.lineno)
    return dense_stmts, sparse_stmts


class Stub(P.NNDescent):
    def __init__(self):  # never the real constructor
        pass

    def _init_search_function(self):
        self._reinit = "dense"

    def _init_sparse_search_function(self):
        self._reinit = "sparse"


def run_stmts(stmts, env):
    mod = ast.Module(body=stmts, type_ignores=[])
    ast.fix_missing_locations(mod)
    exec(compile(mod, "<init-fragment>", "exec"), vars(P), env)


def select_at_build(name, sparse, dense_stmts, sparse_stmts):
    st = object.__new__(Stub)
    st.metric = name
    st._dist_args = ()
    env = {"self": st, "metric": name, "metric_kwds": {}}
    try:
        run_stmts(dense_stmts, env)
        needs_nf = False
        if sparse:
            st._is_sparse = True

            class _RD:  # stands for the CSR matrix: only .shape[1] is read by the fragment
                shape = (7, 5)
            st._raw_data = _RD()
            run_stmts(sparse_stmts, env)
            needs_nf = "n_features" in env["metric_kwds"]
            kernel = env["_distance_func"]
        else:
            st._is_sparse = False
            kernel = st._distance_func
        return st, ("ok", fname(kernel), fname(st._distance_correction), needs_nf)
    except ValueError as e:
        return None, ("error", "ValueError", "none", False)


def select_at_load(st, build_outcome, sparse):
    if st is None:
        return build_outcome
    d = dict(st.__dict__)
    if sparse:
        # what construction stored: the sparse kernel (possibly wrapped with n_features)
        d["_distance_func"] = KERNELS[(build_outcome[1])]
    d["_search_forest"] = ()
    d["_dist_args"] = ()
    new = object.__new__(Stub)
    try:
        P.NNDescent.__setstate__(new, d)
        return ("ok", fname(new._distance_func), fname(new._distance_correction), build_outcome[3])
    except Exception as e:
        return ("error", type(e).__name__, "none", False)


KERNELS = {}


def main():
    for mod in (D, S):
        for k, v in vars(mod).items():
            if callable(v) and hasattr(v, "__name__"):
                KERNELS.setdefault(fname(v), v)
    dense_stmts, sparse_stmts = find_init_fragments()
    names = sorted(set(D.named_distances) | set(S.sparse_named_distances))
    rows = []
    for name in names:
        for sparse in (False, True):
            st, b = select_at_build(name, sparse, dense_stmts, sparse_stmts)
            l = select_at_load(st, b, sparse)
            rows.append((name, sparse, b, l))
    def arity_nf(f):
        try:
            return "n_features" in inspect.signature(getattr(f, "py_func", f)).parameters
        except Exception:
            return False
    L = ["/-! GENERATED by harness/translate_tables.py from /repo — data only, do not edit. -/",
         "namespace Pynn.Gen", "",
         "structure Outcome where", "  ok : Bool", "  kernel : String", "  correction : String", "  needsNFeatures : Bool",
         "deriving DecidableEq, Repr", "",
         "/-- (public name, kernel `__name__`) of `distances.named_distances`. -/",
         "def namedDistances : List (String × String) := ["]
    L.append(",\n".join("  (%s, %s)" % (lean_str(k), lean_str(fname(v))) for k, v in sorted(D.named_distances.items())) + "]")
    L += ["", "/-- (public name, surrogate kernel, correction) of `distances.fast_distance_alternatives`. -/",
          "def fastAlternatives : List (String × String × String) := ["]
    L.append(",\n".join("  (%s, %s, %s)" % (lean_str(k), lean_str(fname(v["dist"])), lean_str(fname(v["correction"])))
                        for k, v in sorted(D.fast_distance_alternatives.items())) + "]")
    L += ["", "def sparseNamedDistances : List (String × String × Bool) := [   -- (name, kernel, kernel takes n_features)"]
    L.append(",\n".join("  (%s, %s, %s)" % (lean_str(k), lean_str(fname(v)), "true" if arity_nf(v) else "false")
                        for k, v in sorted(S.sparse_named_distances.items())) + "]")
    L += ["", "def sparseFastAlternatives : List (String × String × String) := ["]
    L.append(",\n".join("  (%s, %s, %s)" % (lean_str(k), lean_str(fname(v["dist"])), lean_str(fname(v["correction"])))
                        for k, v in sorted(S.sparse_fast_distance_alternatives.items())) + "]")
    L += ["", "def sparseNeedNFeatures : List String := [" + ", ".join(lean_str(x) for x in S.sparse_need_n_features) + "]"]
    L += ["", "/-- metric selection: (name, data is CSR, outcome at construction, outcome after pickle load). -/",
          "def selection : List (String × Bool × Outcome × Outcome) := ["]
    def oc(o):
        return "⟨%s, %s, %s, %s⟩" % ("true" if o[0] == "ok" else "false", lean_str(o[1]), lean_str(o[2]), "true" if o[3] else "false")
    L.append(",\n".join("  (%s, %s, %s, %s)" % (lean_str(n), "true" if s else "false", oc(b), oc(l)) for n, s, b, l in rows) + "]")
    L += ["", "end Pynn.Gen", ""]
    text = "\n".join(L)
    os.makedirs(os.path.dirname(OUT), exist_ok=True)
    if not os.path.exists(OUT) or open(OUT).read() != text:
        open(OUT, "w").write(text)
    return rows


if __name__ == "__main__":
    rows = main()
    if "-v" in sys.argv:
        for r in rows:
            print(r)
