"""C11 — bounded top-k heap: kernel-level correspondence (bit-exact after every
single push, then deheap_sort) and the property predicate on the real output."""
import sys, os, random, json
sys.path.insert(0, os.path.dirname(os.path.dirname(os.path.abspath(__file__))))
from harness.common import *
setup_numba_cache()
import numpy as np
from pynndescent import utils

KS = [1, 2, 3, 4, 5, 7, 8, 15, 16, 30, 31, 64]
INF = float("inf")


def gen_case(rng, variant):
    k = rng.choice(KS)
    npool = rng.choice([1, 2, k, k + 1, 2 * k, 3 * k + 2])
    style = rng.choice(["ties", "ties", "real", "sorted", "rsorted", "signed", "negative", "tiny", "ulps"])
    if style == "ties":
        vals = [0.0, -0.0, 0.5, 1.0, 1.0, 2.0, 3.0, 3.0, INF, 7.25, 3.4028234663852886e38]    # FLOAT32_MAX: what the angular surrogates return
        d = [rng.choice(vals) for _ in range(npool)]
    elif style == "real":
        d = [rng.random() * 10 for _ in range(npool)]
    elif style == "tiny":
        # all distances far below float32 eps (data at scale 1e-9): "better" must stay an exact comparison
        d = [rng.random() * 1e-7 for _ in range(npool)]
    elif style == "ulps":
        # neighbouring float32 values: candidates that beat the root by one or two ulps
        base = np.float32(rng.choice([0.75, 1.0, 3.0, 1e-3]))
        d = [float(base)]
        for _ in range(npool - 1):
            v = np.float32(d[-1] if rng.random() < 0.7 else base)
            for _s in range(rng.randrange(1, 3)):
                v = np.nextafter(v, np.float32(0.0 if rng.random() < 0.7 else 10.0), dtype=np.float32)
            d.append(float(v))
        rng.shuffle(d)
    elif style == "signed":
        # distances need not be non-negative (dot / negated inner products as a callable metric)
        d = [rng.choice([-1.0, 1.0]) * rng.random() * 50 for _ in range(npool)]
    elif style == "negative":
        d = [-1.0 - rng.random() * 49 for _ in range(npool)]
    elif style == "sorted":
        d = [float(i) for i in range(npool)]
    else:
        d = [float(npool - i) for i in range(npool)]
    d = [float(np.float32(x)) for x in d]
    L = rng.randrange(0, 6 * k + 3)
    if variant == "s":
        # simple_heap_push has no duplicate scan: caller's obligation "never offered twice"
        order = list(range(npool)); rng.shuffle(order)
        offers = [(n, rng.randrange(2)) for n in order[:L]]
    else:
        offers = [(rng.randrange(npool), rng.randrange(2)) for _ in range(L)]
    case = {"variant": variant, "k": k, "d": d, "offers": offers}
    if variant != "s" and rng.random() < 0.3:
        # the same candidate re-offered at a freshly drawn priority (new_build_candidates draws tau_rand per offer)
        case["redraw"] = [float(np.float32(rng.choice([0.25, 0.5, 0.75, 1.5]) * rng.random())) for _ in offers]
    return case


def impl_run(case):
    """Run the real numba kernels; return per-op (acc, prio, idx, flags) and the sorted row."""
    k = case["k"]; v = case["variant"]
    H = utils.make_heap(1, k)                     # the real constructor: (indices, distances, flags), one row
    ix, pr, fl = H[0][0], H[1][0], H[2][0]
    trace = []
    for t_, (n, f) in enumerate(case["offers"]):
        p = np.float32(case["redraw"][t_] if "redraw" in case else case["d"][n])
        if v == "f":
            acc = utils.checked_flagged_heap_push(pr, ix, fl, p, np.int32(n), np.uint8(f))
        elif v == "c":
            acc = utils.checked_heap_push(pr, ix, p, np.int32(n))
        else:
            acc = utils.simple_heap_push(pr, ix, p, np.int32(n))
        trace.append((int(acc), pr.copy(), ix.copy(), fl.copy()))
    ix2 = ix.copy().reshape(1, k); pr2 = pr.copy().reshape(1, k)
    utils.deheap_sort(ix2, pr2)
    return trace, (pr, ix, fl), (pr2[0], ix2[0])


def fmt(acc, pr, ix, fl):
    s = bits_row(pr) + " ; " + ints_row(ix) + " ; " + ints_row(fl)
    return s if acc is None else "%d | %s" % (acc, s)


def model_lines(case):
    lines = ["hnew %d" % case["k"]]
    for t_, (n, f) in enumerate(case["offers"]):
        fbit = f if case["variant"] == "f" else 0
        lines.append("hpush %s %d %d %d" % (case["variant"], f32bits(case["redraw"][t_] if "redraw" in case else case["d"][n]), n, fbit))
    lines.append("hsort")
    return lines


GK_NAME = {"s": "simple_heap_push", "c": "checked_heap_push", "f": "checked_flagged_heap_push"}


def gk_cases(case, trace, final, srt, rng):
    """Commands that run the GENERATED kernels (Gen/Kernels.lean = output of translate_kernels.py) on the state the real
    kernel started from, with what the real kernel left behind: [(kernel name, driver line, expected output)].
    Every single push of the case (pre-state = the real row before that push), plus two real `utils.siftdown` calls."""
    k = case["k"]; v = case["variant"]
    out = []
    H = utils.make_heap(1, k)
    pre = (H[1][0].copy(), H[0][0].copy(), H[2][0].copy())
    for t_, (n, f) in enumerate(case["offers"]):
        p = case["redraw"][t_] if "redraw" in case else case["d"][n]
        fbit = f if v == "f" else 0
        line = "gk_push %s %d %s %s %s %d %d %d" % (v, k, bits_row(pre[0]), ints_row(pre[1]), ints_row(pre[2]), f32bits(p), n, fbit)
        acc, pr, ix, fl = trace[t_]
        out.append((GK_NAME[v], " ".join(line.split()), fmt(acc, pr, ix, fl)))
        pre = (pr, ix, fl)
    # siftdown: (a) as deheap_sort calls it (root swapped with the last slot of a prefix), (b) anywhere in a shuffled row
    pr, ix, _ = final
    for kind in ("deheap", "shuffled"):
        j = rng.randrange(1, k + 1)
        a = pr[:j].copy(); b = ix[:j].copy()
        if kind == "deheap":
            a[0], a[j - 1] = a[j - 1], a[0]; b[0], b[j - 1] = b[j - 1], b[0]
            elt = 0
        else:
            perm = list(range(j)); rng.shuffle(perm)
            a = a[perm].copy(); b = b[perm].copy()
            elt = rng.randrange(0, j)
        line = "gk_siftdown %d %s %s %d" % (j, bits_row(a), ints_row(b), elt)
        utils.siftdown(a, b, elt)
        out.append(("siftdown", " ".join(line.split()), bits_row(a) + " ; " + ints_row(b)))
    # deheap_sort itself (translated with its 2-D arrays and A[i, :j] views): the 1 x k call made above, and a 2 x k call whose
    # second row is the first one shuffled (not a heap: the translation must agree whatever the row holds)
    line = "gk_deheap 1 %d %s %s" % (k, bits_row(pr), ints_row(ix))
    out.append(("deheap_sort", " ".join(line.split()), bits_row(srt[0]) + " ; " + ints_row(srt[1])))
    perm = list(range(k)); rng.shuffle(perm)
    D2 = np.ascontiguousarray(np.stack([pr, pr[perm]])); I2 = np.ascontiguousarray(np.stack([ix, ix[perm]]))
    line = "gk_deheap 2 %d %s %s" % (k, bits_row(D2), ints_row(I2.ravel()))
    utils.deheap_sort(I2, D2)
    out.append(("deheap_sort", " ".join(line.split()), bits_row(D2) + " ; " + ints_row(I2.ravel())))
    return out


def predicate(case, final, srt):
    """The property, evaluated on the REAL kernel output. Returns None or a description."""
    pr, ix, fl = final
    k = case["k"]; d = case["d"]; v = case["variant"]
    if "redraw" in case:
        # priorities are per offer: the clauses that remain are "never the same candidate twice", pairing with an offered
        # priority, max-heap order and the sort
        H = [int(x) for x in ix if x >= 0]
        if len(set(H)) != len(H):
            return "candidate held twice"
        offered_pairs = {(n, float(np.float32(p))) for (n, f), p in zip(case["offers"], case["redraw"])}
        for j in range(k):
            if ix[j] >= 0 and (int(ix[j]), float(pr[j])) not in offered_pairs:
                return "candidate %d paired with a distance it was never offered with" % int(ix[j])
            if j > 0 and pr[j] > pr[(j - 1) // 2]:
                return "max-heap order broken at slot %d" % j
        spr, six = srt
        if any(spr[j] > spr[j + 1] for j in range(k - 1)):
            return "sorted row not ascending"
        return None
    offered = {}
    for (n, f) in case["offers"]:
        offered.setdefault(n, set()).add(f)
    O = {n for n in offered if d[n] < INF}
    held = [(int(ix[j]), float(pr[j]), int(fl[j])) for j in range(k) if ix[j] >= 0]
    H = [h[0] for h in held]
    if len(set(H)) != len(H):
        return "candidate held twice"
    for (n, p, f) in held:
        if n not in O:
            return "held candidate %d was never offered (finite)" % n
        if not (p == d[n]) :
            return "candidate %d paired with distance %r, its own is %r" % (n, p, d[n])
        if v == "f" and f not in offered[n]:
            return "candidate %d paired with flag %d never offered with it" % (n, f)
    for j in range(k):
        if ix[j] < 0 and not (ix[j] == -1 and pr[j] == INF):
            return "empty slot is not (-1, inf)"
    if len(H) != min(k, len(O)):
        return "holds %d candidates, expected min(k=%d, offered=%d)" % (len(H), k, len(O))
    if H:
        worst = max(d[n] for n in H)
        for o in O - set(H):
            if d[o] < worst:
                return "lost better candidate %d (%r) while holding %r" % (o, d[o], worst)
    spr, six = srt
    if any(spr[j] > spr[j + 1] for j in range(k - 1)):
        return "sorted row not ascending"
    if sorted(zip(six.tolist(), spr.tolist())) != sorted(zip(ix.tolist(), pr.tolist())):
        return "sort changed the (candidate, distance) pairs"
    return None


def check_case(res, case):
    trace, final, srt = impl_run(case)
    impl = ["ok"] + [fmt(*t) for t in trace] + [None]
    mlines = model_lines(case)
    gk = gk_cases(case, trace, final, srt, random.Random(len(case["offers"]) * 131 + case["k"]))
    outs = run_driver(mlines + [g[1] for g in gk])
    model, gk_out = outs[:len(mlines)], outs[len(mlines):]
    n_acc = sum(t[0] for t in trace)
    evict_real = False
    full_at = None
    # branch statistics
    dup = far = 0
    present = set()
    for (n, f), t in zip(case["offers"], trace):
        if t[0] == 0:
            if n in set(int(x) for x in t[2]):
                dup += 1
            else:
                far += 1
    evict_real = n_acc > case["k"]
    res.count("accept", n_acc); res.count("reject_dup", dup); res.count("reject_far", far)
    res.count("variant_" + case["variant"]); res.count("redraw" if "redraw" in case else "fixed-distance")
    nontrivial = evict_real and far >= 1 and (dup >= 1 or case["variant"] == "s")
    res.case((case["variant"], case["k"], case["d"], case["offers"], case.get("redraw")), nontrivial,
             sample={"variant": case["variant"], "k": case["k"], "d": case["d"][:8], "offers": case["offers"][:12]})
    ok = True
    for i, (a, b) in enumerate(zip(impl[:-1], model[:-1])):
        if a != b:
            res.corr_fail("heap_push_bit_exact", {"case": case, "op": i}, b, a); ok = False
            break
    # sorted row: compare priorities and indices (flags are not given to deheap_sort)
    mp, mi, _ = model[-1].split(" ; ")
    if ok and (mp != bits_row(srt[0]) or mi != ints_row(srt[1])):
        res.corr_fail("deheap_sort_bit_exact", {"case": case}, model[-1], bits_row(srt[0]) + " ; " + ints_row(srt[1]))
        ok = False
    # the translator's output executed against the real kernels (same input, bit for bit): a disagreement means the
    # translation of that kernel is wrong (the refinement theorems are then about the wrong definition)
    for (name, line, want), got in zip(gk, gk_out):
        res.count("translated:" + name)
        if got != want:
            res.corr_fail("translated-kernel:" + name, {"case": case, "cmd": line}, got, want); ok = False
            break
    bad = predicate(case, final, srt)
    if bad:
        res.violation("heap:" + case["variant"], bad, case)
    res.traces += 1
    return ok and not bad


def run(res, tier, seed, search):
    rng = random.Random(seed * 7919 + 11)
    n = 400 if tier == "quick" else 4000
    if search:
        n *= 3
    res.rule = ("random offer sequences per push variant (k in %s; tie-heavy / real / sorted / signed / all-below-minus-one / tiny (< 1e-7) / one-ulp-apart priorities incl. inf, -0.0; "
                "repeated candidates); non-trivial = >=1 eviction of a real entry, >=1 far rejection and "
                "(checked variants) >=1 duplicate rejection; distinct = hash of (variant,k,d,offers); every single push (and two "
                "utils.siftdown calls and two utils.deheap_sort calls, 1 x k and 2 x k, per case) is also executed by the GENERATED kernel (Gen/Kernels.lean, fuel = size + 2) from the "
                "real pre-state and compared bit for bit with what the numba kernel left (translator validation)" % KS)
    corpus = os.path.join(VERIF, "corpus", "C11.jsonl")
    if os.path.exists(corpus):
        for l in open(corpus):
            if l.strip():
                check_case(res, json.loads(l)); res.count("corpus")
    for i in range(n):
        check_case(res, gen_case(rng, "fcs"[i % 3]))
    # the heaps as the build glue fills them: both update appliers and the three heap initialisers, bit-exact (index / distance /
    # flag of every slot) against the same push model
    from harness import descent_kernels as dk
    nrng = np.random.default_rng(seed + 1111)
    dk.check_appliers(res, nrng, 12 if tier == "quick" else 120)
    dk.check_init_kernels(res, nrng, 8 if tier == "quick" else 80)


def replay(res, doc):
    for c in doc.get("cases", []):
        check_case(res, c["case"]["case"] if "case" in c.get("case", {}) else c["case"])


if __name__ == "__main__":
    std_main("C11", run, replay)
