"""C08 (kernel level) — the sparse merge kernels of pynndescent/sparse.py against the Lean
model `Model/Sparse.lean` (driver commands sp-sum, sp-diff, sp-mul, sp-dot, dense-union,
arr-union, arr-intersect, isect-size, sp-metric) and against their specification; and the
TRANSLATED kernels of `Gen/Kernels.lean` (driver commands gk_sum, gk_mul, gk_dot, gk_isect) against
the real numba kernels (validation of harness/translate_kernels.py, see GK below).

Inputs are pairs of well-formed sparse rows (strictly increasing int32 indices, non-zero
small-integer float32 values), so every float32 operation of the kernels is exact and the
model can compute in `Int` / `Rat`:

* exact correspondence (`res.corr_fail("sparse_merge:<kernel>", …)`): the REAL numba kernel
  output, canonicalised to Python ints, equals the driver's output on the same input;
* property predicate on the REAL output, independently of the model
  (`res.violation("sparse:merge:<kernel>", …)`): decode(result)[i] = decode(a)[i] op decode(b)[i]
  for all i < dim, result indices strictly increasing, no stored zeros, dtypes; dot = Σ a_i·b_i;
  arr_union / arr_intersect / fast_intersection_size = the set operations; dense_union = the
  pairs (a_i, b_i) over the union of supports *minus the coordinates where a_i + b_i = 0*
  (the code drops them; counted, not a violation — only mixed-sign data can cancel and the
  users of dense_union, Jensen-Shannon / symmetric KL, take non-negative data);
* metric-level tie (tolerance 1e-5·max(1,|model|), `res.corr_fail("sparse_metric_model:<name>")`):
  the real `sparse_named_distances[name]` against the exact rational `sp-metric` of the model.

`sparse_dot_product` reads `ind1[0]` and `ind2[0]` *before* any length check.  numba has no
bounds checking, so with an empty operand this is an out-of-bounds read (whatever lies behind
the zero-length buffer is compared and, if the garbage indices happen to agree, multiplied into
the result).  The harness therefore NEVER calls the real kernel with an empty operand: for those
inputs it only checks that the model says "oob" (`dot:skipped_empty_operand`).  Real callers
can reach it: `rp_trees.sparse_select_side` passes a query row's (inds, data), which is empty
for an all-zero sparse query row; `sparse_dot` / `sparse_alternative_dot` pass data rows.

Entry points: `run_kernels(res, rng, n_cases)` (used by harness/c08.py) and the standalone
`python -m harness.c08_kernels --tier quick --seed 0 --out F`.
"""
import sys, os, random, math
from fractions import Fraction
sys.path.insert(0, os.path.dirname(os.path.dirname(os.path.abspath(__file__))))
from harness.common import *
setup_numba_cache()
import numpy as np
from pynndescent import sparse

POOL = [-3, -2, -1, 1, 2, 3]
MAX_DIM_EXHAUSTIVE = 5
MAX_DIM_RANDOM = 60
DRIVER_BATCH = 40000          # command lines per driver process
TOL = 1e-5

# kernel name -> driver command
MERGE = [
    ("sparse_sum", "sp-sum"),
    ("sparse_diff", "sp-diff"),
    ("sparse_mul", "sp-mul"),
    ("sparse_dot_product", "sp-dot"),
    ("dense_union", "dense-union"),
    ("arr_union", "arr-union"),
    ("arr_intersect", "arr-intersect"),
    ("fast_intersection_size", "isect-size"),
]
INDEX_ONLY = {"arr_union", "arr_intersect", "fast_intersection_size"}

# TRANSLATED kernels: Gen/Kernels.lean is regenerated from the source text of sparse.py by
# harness/translate_kernels.py on every `check` run and Props/C08.lean proves, for every input, that each of
# these four translated kernels returns what the hand-written model returns (kernel_*_refines).  What those
# theorems trust is the translator; it is validated here by EXECUTING its output (driver commands gk_*,
# Driver/GenM.lean) on every case and comparing it exactly with the real numba kernel
# (`res.corr_fail("translated-kernel:<kernel>", ...)`).
GK = [
    ("sparse_sum", "gk_sum"),
    ("sparse_mul", "gk_mul"),
    ("sparse_dot_product", "gk_dot"),
    ("fast_intersection_size", "gk_isect"),
]
# TRANSLATED sparse METRIC kernels (Gen/SparseMetricKernels.lean, harness/translate_sparsemetrics.py; they call the translated
# sparse_sum): driver command -> the real numba kernel; the outputs are exact small integers on these inputs
GSM = [
    ("sparse_diff", "gsm_diff", lambda A: sparse.sparse_diff(*A)),
    ("sparse_squared_euclidean", "gsm_sqeuclidean", lambda A: sparse.sparse_squared_euclidean(*A)),
    ("sparse_manhattan", "gsm_manhattan", lambda A: sparse.sparse_manhattan(*A)),
    ("sparse_chebyshev", "gsm_chebyshev", lambda A: sparse.sparse_chebyshev(*A)),
]
GK_NOTE = ("translated kernels (Gen/Kernels.lean, regenerated from sparse.py's source text) are executed by the driver "
           "(gk_sum, gk_mul, gk_dot, gk_isect) on every case and compared exactly with the real numba kernels "
           "(translated-kernel:<kernel>; hist translated:*), additionally on rows that are NOT well formed (unsorted, "
           "duplicate indices, stored zeros: the refinement theorems need no sortedness) - there only translated vs numba, "
           "no property predicate; sparse_dot_product with an empty operand: the translated kernel must answer 'oob', "
           "the real one is not called")

METRICS = ["sqeuclidean", "manhattan", "chebyshev", "hamming", "jaccard", "matching", "dice",
           "kulsinski", "rogerstanimoto", "russellrao", "sokalmichener", "sokalsneath",
           "braycurtis", "canberra"]
PARTS = [("cosine", "cosine-parts"), ("correlation", "correlation-parts")]

DOT_NOTE = ("sparse_dot_product reads ind1[0] and ind2[0] before any length check (numba: no bounds "
            "checking), so an empty operand is an out-of-bounds read; the harness does not call the real "
            "kernel on such inputs (hist dot:skipped_empty_operand) and only checks that the model answers "
            "'oob'. Real callers can pass an empty operand: rp_trees.sparse_select_side hands it a query "
            "row's (inds, data), which is empty for an all-zero sparse query row (also sparse_dot / "
            "sparse_alternative_dot on an all-zero data row). No output is observed, so no violation is raised.")

FIS_NOTE = ("fast_intersection_size is declared with two signatures, i4(i4[:],i4[:]) (any layout, mutable) and "
            "(C, read-only): a direct Python call with ordinary writable C-contiguous int32 arrays matches both by "
            "conversion and numba raises 'TypeError: Ambiguous overloading' (whether it does depends on which array "
            "conversions earlier calls in the process have registered). The harness passes read-only views, which "
            "match the second signature exactly. Jitted callers (sparse_jaccard, ...) are not affected.")


# --------------------------------------------------------------------------
# case generation
# --------------------------------------------------------------------------
def mk_case(dim, s1, v1, s2, v2, gen):
    return {"ind1": [int(i) for i in s1], "val1": [int(v) for v in v1],
            "ind2": [int(i) for i in s2], "val2": [int(v) for v in v2],
            "dim": int(dim), "gen": gen}


def classify(case):
    a, b = set(case["ind1"]), set(case["ind2"])
    if not a or not b:
        return "empty"
    if a == b:
        return "identical"
    if not (a & b):
        return "disjoint"
    if a < b or b < a:
        return "nested"
    return "overlapping"


def gen_exhaustive(rng):
    """All pairs of supports for dim <= 5, two value samples each (the second one tie-heavy:
    on common coordinates b_i is a_i, -a_i or random, so that sum and diff cancel often)."""
    for dim in range(0, MAX_DIM_EXHAUSTIVE + 1):
        for m1 in range(1 << dim):
            s1 = [i for i in range(dim) if (m1 >> i) & 1]
            for m2 in range(1 << dim):
                s2 = [i for i in range(dim) if (m2 >> i) & 1]
                for sample in range(2):
                    v1 = [rng.choice(POOL) for _ in s1]
                    if sample == 0:
                        v2 = [rng.choice(POOL) for _ in s2]
                    else:
                        a = dict(zip(s1, v1))
                        v2 = []
                        for i in s2:
                            r = rng.randrange(3)
                            if i in a and r == 0:
                                v2.append(a[i])
                            elif i in a and r == 1:
                                v2.append(-a[i])
                            else:
                                v2.append(rng.choice(POOL))
                    yield mk_case(dim, s1, v1, s2, v2, "exhaustive")


RANDOM_MODES = ["random", "random", "random", "random", "one_empty", "identical", "disjoint", "nested",
                "cancel_sum", "equal_on_common", "equal", "negated"]
DENSITIES = [0.05, 0.15, 0.3, 0.5, 0.8, 1.0]


def _subset(rng, universe, p):
    return [i for i in universe if rng.random() < p]


def gen_random(rng, i):
    mode = RANDOM_MODES[i % len(RANDOM_MODES)]
    dim = rng.choice([rng.randint(1, 8), rng.randint(6, MAX_DIM_RANDOM), rng.randint(6, MAX_DIM_RANDOM),
                      rng.choice([16, 31, 32, 33, MAX_DIM_RANDOM])])
    U = list(range(dim))
    p1, p2 = rng.choice(DENSITIES), rng.choice(DENSITIES)
    vals = lambda s: [rng.choice(POOL) for _ in s]
    if mode == "random":
        s1, s2 = _subset(rng, U, p1), _subset(rng, U, p2)
        v1, v2 = vals(s1), vals(s2)
    elif mode == "one_empty":
        s = _subset(rng, U, max(p1, 0.15)) or [rng.randrange(dim)]
        if rng.randrange(2):
            s1, s2 = s, []
        else:
            s1, s2 = [], s
        v1, v2 = vals(s1), vals(s2)
    elif mode == "identical":
        s1 = _subset(rng, U, p1) or [rng.randrange(dim)]
        s2 = list(s1)
        v1, v2 = vals(s1), vals(s2)
    elif mode == "disjoint":
        s1, s2 = [], []
        for j in U:
            r = rng.random()
            if r < p1 / 2:
                s1.append(j)
            elif r < p1 / 2 + p2 / 2:
                s2.append(j)
        v1, v2 = vals(s1), vals(s2)
    elif mode == "nested":
        s1 = _subset(rng, U, max(p1, 0.3))
        s2 = _subset(rng, s1, p2)
        if rng.randrange(2):
            s1, s2 = s2, s1
        v1, v2 = vals(s1), vals(s2)
    else:
        # value-structured modes on overlapping supports
        if mode in ("equal", "negated"):
            s1 = _subset(rng, U, p1) or [rng.randrange(dim)]
            s2 = list(s1)
        else:
            core = _subset(rng, U, max(p1, 0.3))
            s1 = sorted(set(core) | set(_subset(rng, U, 0.15)))
            s2 = sorted(set(core) | set(_subset(rng, U, 0.15)))
        v1 = vals(s1)
        a = dict(zip(s1, v1))
        if mode in ("cancel_sum", "negated"):
            v2 = [-a[j] if j in a else rng.choice(POOL) for j in s2]     # a + b = 0 on every common coordinate
        else:
            v2 = [a[j] if j in a else rng.choice(POOL) for j in s2]      # a - b = 0 on every common coordinate
    return mk_case(dim, s1, v1, s2, v2, mode)


# --------------------------------------------------------------------------
# encoding for the real kernels and for the driver
# --------------------------------------------------------------------------
def i32(xs):
    if len(xs) == 0:
        return np.zeros(0, np.int32)
    return np.ascontiguousarray(np.array(xs, dtype=np.int32))


def f32(xs):
    if len(xs) == 0:
        return np.zeros(0, np.float32)
    return np.ascontiguousarray(np.array(xs, dtype=np.float32))


def readonly(a):
    v = a.view()
    v.flags.writeable = False
    return v


def arrays(case):
    return i32(case["ind1"]), f32(case["val1"]), i32(case["ind2"]), f32(case["val2"])


def _grp(xs):
    return [str(x) for x in xs]


def cmd4(op, c):
    return " ".join([op, "|"] + _grp(c["ind1"]) + ["|"] + _grp(c["val1"]) + ["|"] + _grp(c["ind2"])
                    + ["|"] + _grp(c["val2"]))


def cmd2(op, c):
    return " ".join([op, "|"] + _grp(c["ind1"]) + ["|"] + _grp(c["ind2"]))


def driver_lines(case, with_metrics):
    lines = []
    for kern, op in MERGE:
        lines.append(cmd2(op, case) if kern in INDEX_ONLY else cmd4(op, case))
    if with_metrics:
        for name in METRICS:
            lines.append(cmd4("sp-metric %s %d" % (name, case["dim"]), case))
        for _, op in PARTS:
            lines.append(cmd4("sp-metric %s %d" % (op, case["dim"]), case))
    lines.extend(gk_lines(case))          # always last (check_case reads them from the end)
    return lines


def gk_lines(case):
    return [cmd2(op, case) if kern in INDEX_ONLY else cmd4(op, case) for kern, op in GK] + [cmd4(op, case) for _, op, _ in GSM]


NGK = len(GK) + len(GSM)          # translated-kernel lines per case


def check_translated(res, pub, empty_operand, impls, tlines):
    """translated kernel (driver) == real numba kernel, exactly; impls: kernel -> canonical real output"""
    ok = True
    for (kern, op), tline in zip(GK, tlines):
        if kern == "sparse_dot_product" and empty_operand:
            res.count("translated:dot_oob_on_empty_operand")
            if tline.strip() != "oob":
                res.corr_fail("translated-kernel:" + kern, pub, tline, "not called (empty operand: out-of-bounds read)")
                ok = False
            continue
        trans = parse_int(tline) if kern in ("sparse_dot_product", "fast_intersection_size") else parse_groups(tline)
        res.count("translated:compared")
        if trans != impls[kern]:
            res.corr_fail("translated-kernel:" + kern, pub, trans, impls[kern])
            ok = False
    A = impls.get("__arrays__")
    for (kern, op, f), tline in zip(GSM, tlines[len(GK):]):
        r = f(A)
        impl = [canon_inds(r[0]), canon_vals(r[1], res)] if kern == "sparse_diff" else canon_vals([r], res)[0]
        trans = parse_groups(tline) if kern == "sparse_diff" else parse_int(tline)
        res.count("translated:compared")
        if trans != impl:
            res.corr_fail("translated-kernel:" + kern, pub, trans, impl)
            ok = False
    return ok


UNCHECKED_POOL = [-3, -2, -1, 0, 0, 1, 2, 3]


def gen_unchecked(rng, i):
    """rows that are NOT well formed: unsorted, duplicate indices, stored zeros (small index range: many ties)"""
    dim = rng.choice([2, 3, 4, 6, 9])
    def row():
        n = rng.choice([0, 1, 1, 2, 3, 4, 5, 7])
        ind = [rng.randrange(dim) for _ in range(n)]
        if rng.randrange(3) == 0:
            ind.sort()                    # sorted with duplicates
        return ind, [rng.choice(UNCHECKED_POOL) for _ in ind]
    s1, v1 = row()
    s2, v2 = row()
    return mk_case(dim, s1, v1, s2, v2, "unchecked")


def run_unchecked(res, rng, n):
    """translated vs numba only, on ill-formed rows (no model, no property predicate: the property is about
    well-formed rows)"""
    cases = [gen_unchecked(rng, i) for i in range(n)]
    lines = []
    for c in cases:
        lines.extend(gk_lines(c))
    outs = run_driver(lines) if lines else []
    ok = True
    for k, c in enumerate(cases):
        A = arrays(c)
        empty_operand = len(c["ind1"]) == 0 or len(c["ind2"]) == 0
        impls = {"__arrays__": A}
        for kern, _ in GK:
            if kern == "sparse_dot_product" and empty_operand:
                continue
            impls[kern] = impl_merge(kern, A, res)[0]
        ok = check_translated(res, public(c), empty_operand, impls, outs[k * NGK:(k + 1) * NGK]) and ok
    res.count("translated:unchecked_rows", n)
    return ok


def parse_groups(line):
    """'1 2 | 3 4' -> [[1, 2], [3, 4]]; anything unparsable is returned verbatim (and will mismatch)."""
    try:
        return [[int(t) for t in g.split()] for g in line.split("|")]
    except ValueError:
        return line


def parse_int(line):
    try:
        return int(line.strip())
    except ValueError:
        return line.strip()


def frac(s):
    n, d = s.strip().split("/")
    return Fraction(int(n), int(d))


def canon_vals(xs, res):
    """float32 outputs of the kernels are exactly integers on these inputs: convert with int();
    a non-integral / non-finite value is kept as a float (it then mismatches and is reported)."""
    out = []
    for x in xs:
        f = float(x)
        if f.is_integer():
            out.append(int(f))
        else:
            res.count("kern:non_integer_output")
            out.append(f)
    return out


def canon_inds(xs):
    return [int(x) for x in xs]


# --------------------------------------------------------------------------
# the real kernels
# --------------------------------------------------------------------------
def impl_merge(kern, A, res):
    """Call the real numba kernel; returns (canonical output, raw output)."""
    i1, v1, i2, v2 = A
    if kern == "sparse_sum":
        r = sparse.sparse_sum(i1, v1, i2, v2)
        return [canon_inds(r[0]), canon_vals(r[1], res)], r
    if kern == "sparse_diff":
        r = sparse.sparse_diff(i1, v1, i2, v2)
        return [canon_inds(r[0]), canon_vals(r[1], res)], r
    if kern == "sparse_mul":
        r = sparse.sparse_mul(i1, v1, i2, v2)          # numba typed Lists
        return [canon_inds(list(r[0])), canon_vals(list(r[1]), res)], r
    if kern == "sparse_dot_product":
        r = sparse.sparse_dot_product(i1, v1, i2, v2)
        return canon_vals([r], res)[0], r
    if kern == "dense_union":
        r = sparse.dense_union(i1, v1, i2, v2)
        return [canon_vals(r[0], res), canon_vals(r[1], res)], r
    if kern == "arr_union":
        r = sparse.arr_union(i1, i2)
        return [canon_inds(r)], r
    if kern == "arr_intersect":
        r = sparse.arr_intersect(i1, i2)
        return [canon_inds(r)], r
    if kern == "fast_intersection_size":
        # read-only views: exact match of the kernel's second signature, see FIS_NOTE
        r = sparse.fast_intersection_size(readonly(i1), readonly(i2))
        return int(r), r
    raise KeyError(kern)


def decode(ind, val, dim):
    d = [0] * dim
    for i, v in zip(ind, val):
        d[i] = v
    return d


def sparse_result_defect(out, raw, da, db, dim, op, check_dtype):
    """Specification of sparse_sum / sparse_diff / sparse_mul on the real output."""
    ind, val = out
    if len(ind) != len(val):
        return "index and value outputs have different lengths (%d, %d)" % (len(ind), len(val))
    if check_dtype:
        if raw[0].dtype != np.int32 or raw[1].dtype != np.float32:
            return "result dtypes (%s, %s), expected (int32, float32)" % (raw[0].dtype, raw[1].dtype)
    if any(not (0 <= i < dim) for i in ind):
        return "result index outside [0, dim)"
    if any(ind[k] >= ind[k + 1] for k in range(len(ind) - 1)):
        return "result indices not strictly increasing"
    if any(v == 0 for v in val):
        return "stored zero in the result"
    dr = decode(ind, val, dim)
    for i in range(dim):
        if dr[i] != op(da[i], db[i]):
            return "coordinate %d: result %r, expected %r" % (i, dr[i], op(da[i], db[i]))
    return None


def merge_defect(kern, out, raw, case, stats):
    """Property predicate on the REAL output (no model involved). None = holds."""
    dim = case["dim"]
    a_ind, b_ind = case["ind1"], case["ind2"]
    da = decode(a_ind, case["val1"], dim)
    db = decode(b_ind, case["val2"], dim)
    A, B = set(a_ind), set(b_ind)
    if kern == "sparse_sum":
        return sparse_result_defect(out, raw, da, db, dim, lambda x, y: x + y, True)
    if kern == "sparse_diff":
        return sparse_result_defect(out, raw, da, db, dim, lambda x, y: x - y, True)
    if kern == "sparse_mul":
        return sparse_result_defect(out, raw, da, db, dim, lambda x, y: x * y, False)
    if kern == "sparse_dot_product":
        want = sum(x * y for x, y in zip(da, db))
        return None if out == want else "dot product %r, expected %r" % (out, want)
    if kern == "arr_union":
        want = sorted(A | B)
        return None if out[0] == want else "union %r, expected %r" % (out[0], want)
    if kern == "arr_intersect":
        want = sorted(A & B)
        return None if out[0] == want else "intersection %r, expected %r" % (out[0], want)
    if kern == "fast_intersection_size":
        want = len(A & B)
        return None if out == want else "intersection size %r, expected %r" % (out, want)
    if kern == "dense_union":
        d1, d2 = out
        if len(d1) != len(d2):
            return "outputs of different lengths (%d, %d)" % (len(d1), len(d2))
        union = sorted(A | B)
        if any(da[i] + db[i] == 0 for i in union):
            stats["dense_union_cancel"] = True
        want = [(da[i], db[i]) for i in union if da[i] + db[i] != 0]
        got = list(zip(d1, d2))
        return None if got == want else "pairs %r, expected %r" % (got, want)
    raise KeyError(kern)


# --------------------------------------------------------------------------
# metric-level tie
# --------------------------------------------------------------------------
def close(impl, model):
    return math.isfinite(impl) and abs(impl - model) <= TOL * max(1.0, abs(model))


_RES = [None]


def call_metric(name, A, dim):
    """the real sparse kernel; an exception on a valid input is a property violation (reported once per
    kernel), and NaN is returned so that the model comparison fails as well"""
    f = sparse.sparse_named_distances[name]
    try:
        if name in sparse.sparse_need_n_features:
            return float(f(A[0], A[1], A[2], A[3], dim))
        return float(f(A[0], A[1], A[2], A[3]))
    except Exception as e:  # noqa
        if _RES[0] is not None:
            _RES[0].violation("sparse:%s:exception" % name, "sparse kernel raised %s on ind1=%s data1=%s ind2=%s data2=%s n_features=%d"
                              % (type(e).__name__, A[0].tolist(), A[1].tolist(), A[2].tolist(), A[3].tolist(), dim),
                              {"name": name, "ind1": A[0].tolist(), "data1": A[1].tolist(), "ind2": A[2].tolist(), "data2": A[3].tolist(), "dim": dim})
        return float("nan")


def angular(dot, n1, n2):
    return 1.0 - float(dot) / math.sqrt(float(n1 * n2))


def check_metrics(res, case, A, lines):
    """lines: driver output for METRICS then PARTS, in order."""
    dim = case["dim"]
    pub = public(case)
    k = 0
    for name in METRICS:
        line = lines[k]; k += 1
        impl = call_metric(name, A, dim)
        try:
            model = float(frac(line))
        except (ValueError, ZeroDivisionError):
            res.corr_fail("sparse_metric_model:" + name, pub, line, impl)
            continue
        res.count("metric:evaluated")
        if not close(impl, model):
            res.corr_fail("sparse_metric_model:" + name, pub, {"exact": line, "float": model}, impl)
    # cosine
    line = lines[k]; k += 1
    impl = call_metric("cosine", A, dim)
    try:
        dot, n1, n2 = [frac(x) for x in line.split(";")]
        if n1 == 0 and n2 == 0:
            model = 0.0
        elif n1 == 0 or n2 == 0:
            model = 1.0
        else:
            model = angular(dot, n1, n2)
        res.count("metric:evaluated")
        if not close(impl, model):
            res.corr_fail("sparse_metric_model:cosine", pub, {"parts": line, "float": model}, impl)
    except (ValueError, ZeroDivisionError):
        res.corr_fail("sparse_metric_model:cosine", pub, line, impl)
    # correlation
    line = lines[k]; k += 1
    impl = call_metric("correlation", A, dim)
    try:
        zero_branch = False
        if line.strip() == "early 0":
            model = 0.0; res.count("correlation:early_0")
        elif line.strip() == "early 1":
            model = 1.0; res.count("correlation:early_1")
        else:
            dot, n1, n2 = [frac(x) for x in line.split(";")]
            if n1 == 0 and n2 == 0:
                model = 0.0; zero_branch = True; res.count("correlation:both_norms_zero")
            elif dot == 0:
                model = 1.0; zero_branch = True; res.count("correlation:dot_zero")
            elif n1 == 0 or n2 == 0:
                # exact arithmetic: a zero norm forces dot = 0, so this cannot be reached
                model = float("nan"); res.count("correlation:model_zero_norm_nonzero_dot")
            else:
                model = angular(dot, n1, n2)
        res.count("metric:evaluated")
        if not close(impl, model):
            if zero_branch:
                # `norm == 0.0` / `dot_product == 0.0` are float tests in the code (float32 shifted
                # data); the model's exact zero need not be an exact float zero
                res.count("correlation:float-zero-test-differs")
            else:
                res.corr_fail("sparse_metric_model:correlation", pub, {"parts": line, "float": model}, impl)
    except (ValueError, ZeroDivisionError):
        res.corr_fail("sparse_metric_model:correlation", pub, line, impl)


# --------------------------------------------------------------------------
# one case
# --------------------------------------------------------------------------
def public(case):
    """The replayable part of a case (JSON-able)."""
    return {"ind1": case["ind1"], "val1": case["val1"], "ind2": case["ind2"], "val2": case["val2"],
            "dim": case["dim"]}


def check_case(res, case, out_lines, with_metrics):
    A = arrays(case)
    pub = public(case)
    cls = classify(case)
    res.count("support:" + cls)
    res.count("gen:" + case["gen"])
    empty_operand = len(case["ind1"]) == 0 or len(case["ind2"]) == 0
    stats = {}
    impls = {"__arrays__": A}
    ok = True
    for k, (kern, op) in enumerate(MERGE):
        mline = out_lines[k]
        if kern == "sparse_dot_product" and empty_operand:
            # never call the real kernel here: out-of-bounds read of ind1[0] / ind2[0]
            res.count("dot:skipped_empty_operand")
            if mline.strip() != "oob":
                res.corr_fail("sparse_merge:sparse_dot_product", pub, mline, "not called (empty operand: out-of-bounds read)")
                ok = False
            continue
        if kern in ("sparse_dot_product", "fast_intersection_size"):
            model = parse_int(mline)
        else:
            model = parse_groups(mline)
        impl, raw = impl_merge(kern, A, res)
        impls[kern] = impl
        if impl != model:
            res.corr_fail("sparse_merge:" + kern, pub, model, impl)
            ok = False
        bad = merge_defect(kern, impl, raw, case, stats)
        if bad:
            res.violation("sparse:merge:" + kern, bad, pub)
            ok = False
        # distribution statistics
        if kern in ("sparse_sum", "sparse_diff"):
            common = len(set(case["ind1"]) & set(case["ind2"]))
            union = len(set(case["ind1"]) | set(case["ind2"]))
            short = "sum" if kern == "sparse_sum" else "diff"
            if isinstance(impl, list) and len(impl[0]) < union:
                res.count("%s:case_with_cancellation" % short)
                res.count("%s:cancelled_coordinates" % short, union - len(impl[0]))
            if union > 0 and isinstance(impl, list) and len(impl[0]) == 0:
                res.count("%s:zero_result_from_nonempty" % short)
            if short == "sum" and common == 0 and not empty_operand:
                res.count("sum:pure_interleave")
        elif kern == "sparse_mul":
            if not empty_operand and len(impl[0]) == 0:
                res.count("mul:empty_result_from_nonempty")
        elif kern == "arr_union":
            if isinstance(raw, np.ndarray) and raw.dtype != np.int32:
                res.count("arr_union:dtype_" + str(raw.dtype))
            if empty_operand and (np.shares_memory(raw, A[0]) or np.shares_memory(raw, A[2])):
                res.count("arr_union:returns_view_of_input")
    if stats.get("dense_union_cancel"):
        res.count("dense_union:cancelled_coordinate_dropped")
    if with_metrics:
        check_metrics(res, case, A, out_lines[len(MERGE):len(out_lines) - NGK])
    ok = check_translated(res, pub, empty_operand, impls, out_lines[len(out_lines) - NGK:]) and ok
    common = set(case["ind1"]) & set(case["ind2"])
    only = set(case["ind1"]) ^ set(case["ind2"])
    nontrivial = (not empty_operand) and len(common) >= 1 and len(only) >= 1
    canon = (case["dim"], tuple(case["ind1"]), tuple(case["val1"]), tuple(case["ind2"]), tuple(case["val2"]))
    res.case(canon, nontrivial, sample=pub if (nontrivial and case["gen"] != "exhaustive") else None)
    res.traces += 1
    return ok


def run_kernels(res, rng, n_cases):
    """Exhaustive small part (always) + n_cases random larger pairs; see the module docstring."""
    _RES[0] = res
    cases = list(gen_exhaustive(rng))
    res.count("cases:exhaustive", len(cases))
    cases += [gen_random(rng, i) for i in range(n_cases)]
    res.count("cases:random", n_cases)
    # one (or a few) driver processes for everything
    spans, lines = [], []
    for c in cases:
        wm = c["dim"] >= 1
        ls = driver_lines(c, wm)
        spans.append((len(lines), len(ls), wm))
        lines.extend(ls)
    outs = []
    for s in range(0, len(lines), DRIVER_BATCH):
        outs.extend(run_driver(lines[s:s + DRIVER_BATCH]))
    res.count("driver:commands", len(lines))
    all_ok = True
    for c, (s, n, wm) in zip(cases, spans):
        all_ok = check_case(res, c, outs[s:s + n], wm) and all_ok
    all_ok = run_unchecked(res, rng, n_cases) and all_ok
    for note in (DOT_NOTE, FIS_NOTE, GK_NOTE):
        if note not in res.notes:
            res.notes.append(note)
    return all_ok


def run(res, tier, seed, search):
    rng = random.Random(seed * 7919 + 808)
    n = 300 if tier == "quick" else 3000
    if search:
        n *= 3
    res.rule = ("pairs of well-formed sparse rows with small-integer values (pool %s): all 4^dim support pairs for "
                "dim <= %d x 2 value samples (second one tie-heavy) + random pairs with dim <= %d (random densities, one "
                "empty operand, identical / disjoint / nested supports, a+b=0 or a=b on every common coordinate); every "
                "merge kernel exactly against the Lean model and against its specification, 16 metrics against the model's "
                "exact rational within 1e-5; non-trivial = both operands non-empty, >=1 common index and >=1 index in only "
                "one operand; distinct = hash of (dim, ind1, val1, ind2, val2)"
                % (POOL, MAX_DIM_EXHAUSTIVE, MAX_DIM_RANDOM))
    run_kernels(res, rng, n)


if __name__ == "__main__":
    std_main("C08", run)
