"""Kernel-level, bit-exact correspondence for NN-descent (shared by C01, C03, C12, C13):
the whole real `nn_descent` (and both update appliers, and `new_build_candidates`) against the
Lean model on integer-valued data, where every distance is exact in float32."""
import os, sys, struct
sys.path.insert(0, os.path.dirname(os.path.dirname(os.path.abspath(__file__))))
from harness.common import *
import numpy as np, numba
from pynndescent import utils, pynndescent_ as pm, distances as pd, rp_trees


@numba.njit(cache=False)
def _table(data, dist):
    n = data.shape[0]
    out = np.empty((n, n), dtype=np.float32)
    for p in range(n):
        for q in range(n):
            out[p, q] = dist(data[p], data[q])
    return out


def dist_table(data, dist):
    return _table(data, dist)


@numba.njit(cache=False)
def _sparse_table(inds, indptr, data, dist):
    n = indptr.shape[0] - 1
    out = np.empty((n, n), dtype=np.float32)
    for p in range(n):
        for q in range(n):
            out[p, q] = dist(inds[indptr[p]:indptr[p + 1]], data[indptr[p]:indptr[p + 1]],
                             inds[indptr[q]:indptr[q + 1]], data[indptr[q]:indptr[q + 1]])
    return out


@numba.njit(cache=False)
def _call_low(graph, P, Q, D, starts, n_threads):
    updates = [[(-1, -1, np.inf)] for i in range(starts.shape[0] - 1)]
    for b in range(starts.shape[0] - 1):
        for i in range(starts[b], starts[b + 1]):
            updates[b].append((P[i], Q[i], D[i]))
    return utils.apply_graph_updates_low_memory(graph, updates, n_threads)


@numba.njit(cache=False)
def _call_high(graph, P, Q, D, starts):
    updates = [[(-1, -1, np.inf)] for i in range(starts.shape[0] - 1)]
    for b in range(starts.shape[0] - 1):
        for i in range(starts[b], starts[b + 1]):
            updates[b].append((P[i], Q[i], D[i]))
    in_graph = [set(graph[0][i].astype(np.int64)) for i in range(graph[0].shape[0])]
    return utils.apply_graph_updates_high_memory(graph, updates, in_graph)


@numba.njit(cache=False)
def _call_high_record(graph, P, Q, D, starts, k_rec):
    """the same call, returning also the final in_graph record as a padded (n, k_rec) array of sorted members (pad = -2)"""
    updates = [[(-1, -1, np.inf)] for i in range(starts.shape[0] - 1)]
    for b in range(starts.shape[0] - 1):
        for i in range(starts[b], starts[b + 1]):
            updates[b].append((P[i], Q[i], D[i]))
    in_graph = [set(graph[0][i].astype(np.int64)) for i in range(graph[0].shape[0])]
    c = utils.apply_graph_updates_high_memory(graph, updates, in_graph)
    out = np.full((graph[0].shape[0], k_rec), -2, dtype=np.int64)
    for i in range(graph[0].shape[0]):
        j = 0
        for x in in_graph[i]:
            out[i, j] = x
            j += 1
    return c, out


def gen_int_data(rng, n, dim, spread=4):
    X = rng.integers(-spread, spread + 1, size=(n, dim)).astype(np.float32)
    if n >= 6:                       # planted duplicates -> zero distances and ties
        for _ in range(max(1, n // 12)):
            a, b = rng.integers(0, n, 2)
            X[a] = X[b]
    return X


def graph_tokens(g):
    ind, dst, flg = g
    return bits_row(dst) + " | " + ints_row(ind.ravel()) + " | " + ints_row(flg.ravel())


def f64bits(x):
    return struct.unpack("<Q", struct.pack("<d", float(x)))[0]


def random_heap(rng, n, k, table, fill=0.7):
    """a well-formed graph heap built with the real push kernel from random truthful offers"""
    g = utils.make_heap(n, k)
    for p in range(n):
        for _ in range(int(rng.integers(0, int(2 * k * fill) + 1))):
            q = int(rng.integers(0, n))
            utils.checked_flagged_heap_push(g[1][p], g[0][p], g[2][p], np.float32(table[p, q]), np.int32(q),
                                            np.uint8(rng.integers(0, 2)))
    return g


def gen_updates(rng, n, table, m, with_self=True):
    P = rng.integers(0, n, m).astype(np.int64)
    Q = rng.integers(0, n, m).astype(np.int64)
    if with_self and m:
        s = rng.random(m) < 0.1
        Q[s] = P[s]
    D = table[P, Q].astype(np.float32)
    nb = int(rng.integers(1, 4))
    cuts = np.sort(rng.integers(0, m + 1, nb - 1)) if nb > 1 else np.array([], dtype=np.int64)
    starts = np.concatenate([[0], cuts, [m]]).astype(np.int64)
    return P, Q, D, starts


def check_appliers(res, rng, n_cases):
    """both update appliers, bit-exact, on the same update lists; and equal to each other"""
    ok = True
    for c in range(n_cases):
        n = int(rng.choice([3, 5, 9, 17, 40])); k = int(rng.choice([1, 2, 3, 5, 8]))
        dim = int(rng.choice([1, 2, 3]))
        X = gen_int_data(rng, n, dim, spread=int(rng.choice([1, 2, 5])))
        tab = dist_table(X, pd.squared_euclidean)
        T = int(rng.choice([1, 2, 3, 5, 16]))
        g0 = random_heap(rng, n, k, tab)
        P, Q, D, starts = gen_updates(rng, n, tab, int(rng.integers(0, 6 * n + 1)))
        ups = " ".join("%d %d %d" % (int(p), int(q), f32bits(d)) for p, q, d in zip(P, Q, D))
        gl = (g0[0].copy(), g0[1].copy(), g0[2].copy()); gh = (g0[0].copy(), g0[1].copy(), g0[2].copy())
        cl = int(_call_low(gl, P, Q, D, starts, T)); ch = int(_call_high(gh, P, Q, D, starts))
        lines = ["apply low %d %d %d | %s | %s" % (T, n, k, graph_tokens(g0), ups),
                 "apply high %d %d %d | %s | %s" % (T, n, k, graph_tokens(g0), ups),
                 # the TRANSLATED apply_graph_updates_low_memory (Gen/Kernels.lean), same graph, same blocks of updates
                 "gk_apply %d %d %d | %s | %s | %s" % (T, n, k, graph_tokens(g0), ups, ints_row(starts)),
                 # the TRANSLATED apply_graph_updates_high_memory from the record in_graph[i] = set(indices[i])
                 "gk_apply_high %d %d | %s | %s | %s" % (n, k, graph_tokens(g0), ups, ints_row(starts))]
        ml, mh, gl_out, gh_out = run_driver([" ".join(l.split()) for l in lines])
        gr = (g0[0].copy(), g0[1].copy(), g0[2].copy())
        cr, rec = _call_high_record(gr, P, Q, D, starts, k + 2 * len(P) + 2)
        irec = "%d | %s | %s" % (int(cr), graph_tokens(gr), " , ".join(ints_row(sorted(int(x) for x in row if x != -2)) for row in rec))
        il = "%d | %s" % (cl, graph_tokens(gl)); ih = "%d | %s" % (ch, graph_tokens(gh))
        case = {"n": n, "k": k, "T": T, "X": X.tolist(), "graph": [a.tolist() for a in g0],
                "P": P.tolist(), "Q": Q.tolist(), "starts": starts.tolist()}
        res.case(("appliers", n, k, T, X.tobytes(), P.tobytes(), Q.tobytes(), g0[0].tobytes()),
                 nontrivial=(cl > 0 and len(P) > cl),
                 sample={"n": n, "k": k, "T": T, "updates": len(P), "changes_low": cl, "changes_high": ch})
        res.count("applier_cases"); res.count("applier_changes", cl); res.traces += 2
        if ml != il:
            res.corr_fail("apply_low_bit_exact", case, ml[:200], il[:200]); ok = False
        if mh != ih:
            res.corr_fail("apply_high_bit_exact", case, mh[:200], ih[:200]); ok = False
        res.count("translated:apply_graph_updates_high_memory")
        if " ".join(gh_out.split()) != " ".join(irec.split()):
            res.corr_fail("translated-kernel:apply_graph_updates_high_memory", case, gh_out[:300], irec[:300]); ok = False
        res.count("translated:apply_graph_updates_low_memory")
        if gl_out != il:
            res.corr_fail("translated-kernel:apply_graph_updates_low_memory", case, gl_out[:200], il[:200]); ok = False
        if il != ih:
            res.violation("lowmem:appliers", "apply_graph_updates_high_memory and _low_memory give different graphs/counts "
                          "(changes %d vs %d) on the same update list" % (ch, cl), case)
            ok = False
    return ok


def nnd_case(rng, small=False):
    n = int(rng.choice([4, 7, 12, 30, 60] if small else [6, 12, 40, 90, 160]))
    k = int(rng.choice([2, 3, 5, 8])) if not small else int(rng.choice([1, 2, 3, 5, 9]))
    return {
        "n": n, "k": k, "dim": int(rng.choice([1, 2, 3, 5])), "spread": int(rng.choice([1, 3, 6])),
        "max_candidates": int(rng.choice([2, 5, 10, 60])), "n_iters": int(rng.choice([0, 1, 2, 5, 10])),
        "delta": float(rng.choice([0.0, 0.001, 0.05])), "threads": int(rng.choice([1, 2, 3, 16])),
        "tree": bool(rng.integers(2)), "init": str(rng.choice(["none", "none", "heap"])),
        "seed": int(rng.integers(0, 2 ** 31 - 1)), "data_seed": int(rng.integers(0, 2 ** 31 - 1)),
        "leaf_size": int(rng.choice([2, 5, 10])),
    }


def run_nnd_pair(cfg, low_memory):
    """returns (impl (indices, dists, rng_after), model line) for one configuration and memory mode"""
    rng = np.random.default_rng(cfg["data_seed"])
    n, k = cfg["n"], cfg["k"]
    X = gen_int_data(rng, n, cfg["dim"], cfg["spread"])
    sparse = bool(cfg.get("sparse"))
    if sparse:
        import scipy.sparse as sp
        from pynndescent import sparse as ps, sparse_nndescent as snd
        for i in range(n):
            if not X[i].any():
                X[i, 0] = 1.0                      # keep every CSR row non-empty (empty operands read out of bounds in some kernels)
        S = sp.csr_matrix(X); S.sort_indices()
        dist = ps.sparse_squared_euclidean
        tab = _sparse_table(S.indices, S.indptr, S.data, dist)
    else:
        dist = pd.squared_euclidean
        tab = dist_table(X, dist)
    rs = np.random.RandomState(cfg["seed"])
    state = rs.randint(pm.INT32_MIN, pm.INT32_MAX, 3).astype(np.int64)
    if cfg["tree"]:
        forest = rp_trees.make_forest(S if sparse else X, k, 2, cfg["leaf_size"], state.copy(), rs, n_jobs=None, angular=False)
        leaf_array = rp_trees.rptree_leaf_array(forest)
    else:
        leaf_array = np.array([[-1]])
    init = pm.EMPTY_GRAPH
    init_tokens = None
    init_copy = None
    if cfg["init"] == "heap":
        init = random_heap(rng, n, k, tab, fill=cfg.get("fill", 0.7))
        init_tokens = graph_tokens(init)
        init_copy = (init[0].copy(), init[1].copy(), init[2].copy())
    s0 = state.copy()
    numba.set_num_threads(cfg["threads"])
    st = state.copy()
    if sparse:
        ind, dst = snd.nn_descent(S.indices, S.indptr, S.data, k, st, max_candidates=cfg["max_candidates"], dist=dist,
                                  n_iters=cfg["n_iters"], delta=cfg["delta"], rp_tree_init=True, leaf_array=leaf_array,
                                  init_graph=init, low_memory=low_memory)
    else:
        ind, dst = pm.nn_descent(X, k, st, cfg["max_candidates"], dist, cfg["n_iters"], cfg["delta"],
                                 init_graph=init, rp_tree_init=True, leaf_array=leaf_array, low_memory=low_memory)
    numba.set_num_threads(numba.config.NUMBA_NUM_THREADS)
    la = np.asarray(leaf_array)
    line = "nnd %d %d %d %d %d %d %d %d %d %d 1 %d %d | %s | %s" % (
        n, k, cfg["max_candidates"], cfg["n_iters"], cfg["threads"], 1 if low_memory else 0, f64bits(cfg["delta"]),
        int(s0[0]), int(s0[1]), int(s0[2]), la.shape[1], 1 if init_tokens else 0,
        bits_row(tab), ints_row(la.ravel()))
    if init_tokens:
        line += " | " + init_tokens
    impl = ints_row(ind.ravel()) + " | " + bits_row(dst) + " | " + ints_row(st)
    return impl, line, (X, tab, ind, dst, init_copy)


def check_leaf_updates(res, rng, n_cases):
    """the TRANSLATED generate_leaf_updates (Gen/Kernels.lean, run by the driver with dist = squared euclidean in float32)
    against the numba kernel on the same leaf block / thresholds / data, list for list and bit for bit (translator validation)"""
    for c in range(n_cases):
        n = int(rng.choice([3, 6, 15, 40])); dim = int(rng.choice([1, 2, 3])); m = int(rng.choice([1, 2, 5])); w = int(rng.choice([1, 2, 4, 7]))
        X = gen_int_data(rng, n, dim, spread=int(rng.choice([1, 3])))
        leaf = np.full((m, w), -1, dtype=np.int32)
        for r in range(m):
            cnt = int(rng.integers(0, w + 1))
            leaf[r, :cnt] = rng.choice(n, size=cnt, replace=bool(cnt > n)) if cnt else []
            if cnt and rng.random() < 0.3:
                leaf[r, int(rng.integers(0, cnt))] = -1          # a hole inside the row: both loops must stop there
        th = rng.choice(np.array([0.0, 1.0, 2.0, 5.0, np.inf], dtype=np.float32), n).astype(np.float32)
        real = pm.generate_leaf_updates(leaf, th, X, pd.squared_euclidean)
        want = " , ".join(" ".join("%d %d %d" % (int(p), int(q), f32bits(d)) for (p, q, d) in row) for row in real)
        got = run_driver([" ".join(("gk_leafupd %d %d %d %d | %s | %s | %s" % (m, w, n, dim, ints_row(leaf.ravel()), bits_row(th), bits_row(X))).split())])[0]
        res.count("translated:generate_leaf_updates")
        if " ".join(got.split()) != " ".join(want.split()):
            res.corr_fail("translated-kernel:generate_leaf_updates", {"leaf": leaf.tolist(), "th": [float(x) for x in th], "X": X.tolist()}, got[:300], want[:300])


def check_graph_updates(res, rng, n_cases):
    """the TRANSLATED generate_graph_updates (the local join) against the numba kernel, list for list and bit for bit"""
    for c in range(n_cases):
        n = int(rng.choice([3, 6, 15, 40])); dim = int(rng.choice([1, 2, 3])); m = int(rng.choice([1, 2, 5])); w = int(rng.choice([1, 2, 4, 6]))
        X = gen_int_data(rng, n, dim, spread=int(rng.choice([1, 3])))
        nb = rng.integers(0, n, size=(m, w)).astype(np.int32); ob = rng.integers(0, n, size=(m, w)).astype(np.int32)
        nb[rng.random((m, w)) < 0.3] = -1; ob[rng.random((m, w)) < 0.3] = -1
        th = rng.choice(np.array([0.0, 1.0, 2.0, 5.0, np.inf], dtype=np.float32), n).astype(np.float32)
        real = pm.generate_graph_updates(nb, ob, th, X, pd.squared_euclidean)
        want = " , ".join(" ".join("%d %d %d" % (int(p), int(q), f32bits(d)) for (p, q, d) in row) for row in real)
        got = run_driver([" ".join(("gk_graphupd %d %d %d %d | %s | %s | %s | %s" % (m, w, n, dim, ints_row(nb.ravel()), ints_row(ob.ravel()),
                                                                                 bits_row(th), bits_row(X))).split())])[0]
        res.count("translated:generate_graph_updates")
        if " ".join(got.split()) != " ".join(want.split()):
            res.corr_fail("translated-kernel:generate_graph_updates", {"new": nb.tolist(), "old": ob.tolist(), "th": [float(x) for x in th], "X": X.tolist()},
                          got[:300], want[:300])


def check_init_kernels(res, rng, n_cases):
    """initalize_heap_from_graph_indices, ..._and_distances, init_from_neighbor_graph vs the model, bit-exact"""
    for c in range(n_cases):
        n = int(rng.choice([3, 6, 15, 40])); k = int(rng.choice([1, 2, 4, 7])); w = int(rng.choice([k, k, max(1, k - 1), k + 2]))
        X = gen_int_data(rng, n, int(rng.choice([1, 2, 3])), spread=int(rng.choice([1, 3])))
        tab = dist_table(X, pd.squared_euclidean)
        G = rng.integers(0, n, size=(n, w)).astype(np.int32)
        G[rng.random((n, w)) < 0.3] = -1
        case = {"n": n, "k": k, "w": w, "X": X.tolist(), "G": G.tolist()}
        # (1) indices only: distances computed by the kernel with the real metric
        h = utils.make_heap(n, k)
        utils.initalize_heap_from_graph_indices(h, G, X, pd.squared_euclidean)
        m = run_driver(["initidx %d %d %d | %s | %s" % (n, k, w, bits_row(tab), ints_row(G.ravel()))])[0]
        res.traces += 1; res.count("init_kernel_cases")
        res.case(("initidx", n, k, w, X.tobytes(), G.tobytes()), nontrivial=bool((G >= 0).sum() > n), sample={"n": n, "k": k, "w": w, "G0": G[0].tolist()})
        if m != graph_tokens(h):
            res.corr_fail("init_from_graph_indices_bit_exact", case, m[:200], graph_tokens(h)[:200])
        # property (C11 / C01): every candidate is offered as NEW with its own distance: a held candidate is one of the row's offers,
        # carries exactly dist(i, j) and flag 1; an empty slot is (-1, inf, 0)
        for i in range(n):
            offered = {int(j) for j in G[i] if j >= 0}
            for s_ in range(k):
                j = int(h[0][i, s_])
                ok = (j == -1 and np.isinf(h[1][i, s_]) and h[2][i, s_] == 0) if j < 0 else \
                    (j in offered and np.float32(h[1][i, s_]) == np.float32(tab[i, j]) and h[2][i, s_] == 1)
                if not ok:
                    res.violation("heap:init-from-graph:pairing", "initalize_heap_from_graph_indices: row %d slot %d holds (idx %d, dist %r, flag %d); "
                                  "offered %s with flag 1" % (i, s_, j, float(h[1][i, s_]), int(h[2][i, s_]), sorted(offered)), case)
                    break
            else:
                continue
            break
        # (2) indices and distances
        D = np.where(G >= 0, tab[np.arange(n)[:, None], np.maximum(G, 0)], np.float32(0)).astype(np.float32)
        h2 = utils.make_heap(n, k)
        utils.initalize_heap_from_graph_indices_and_distances(h2, G, D)
        if graph_tokens(h2) != graph_tokens(h):
            res.corr_fail("init_from_graph_indices_and_distances", case, graph_tokens(h)[:200], graph_tokens(h2)[:200])
        # (3) init_from_neighbor_graph on a sorted, well-formed graph (what update() re-seeds from)
        srt = (h[0].copy(), h[1].copy())
        utils.deheap_sort(srt[0], srt[1])
        h3 = utils.make_heap(n, k)
        pm.init_from_neighbor_graph(h3, srt[0], srt[1])
        m3 = run_driver(["initnbr %d %d %d | %s | %s" % (n, k, k, ints_row(srt[0].ravel()), bits_row(srt[1]))])[0]
        if m3 != graph_tokens(h3):
            res.corr_fail("init_from_neighbor_graph_bit_exact", case, m3[:200], graph_tokens(h3)[:200])
        # the TRANSLATED init_from_neighbor_graph (Gen/Kernels.lean) on the same arrays
        g3 = run_driver([" ".join(("gk_initnbr %d %d %d %d | %s | %s" % (n, k, n, k, ints_row(srt[0].ravel()), bits_row(srt[1]))).split())])[0]
        res.count("translated:init_from_neighbor_graph")
        if " ".join(g3.split()) != " ".join(graph_tokens(h3).split()):
            res.corr_fail("translated-kernel:init_from_neighbor_graph", case, g3[:200], graph_tokens(h3)[:200])
        # property: re-seeding reproduces the old lists as multisets of (idx, dist)
        for p in range(n):
            a = sorted(zip(srt[0][p].tolist(), srt[1][p].tolist())); b = sorted(zip(h3[0][p].tolist(), h3[1][p].tolist()))
            if a != b:
                res.violation("rank:reseed", "init_from_neighbor_graph does not reproduce row %d: %s -> %s" % (p, a, b), case)
                break


def check_blocks(res, rng, n_cases):
    """process_candidates (the low-memory local join) with a SMALL block size: several blocks, thresholds re-read per block,
    the change count summed over the blocks - bit-exact against Model/Descent.lean `processBlocks` (the real nn_descent
    hard-codes 16384, so whole runs only leave the first block beyond that size)"""
    for c in range(n_cases):
        n = int(rng.integers(4, 30)); k = int(rng.choice([2, 3, 5])); mc = int(rng.choice([2, 4, 8])); T = int(rng.choice([1, 2, 3]))
        bs = int(rng.choice([1, 2, 3, 5, 7, n, n + 1]))
        X = gen_int_data(rng, n, int(rng.choice([1, 2, 3])), spread=int(rng.choice([2, 5])))
        tab = dist_table(X, pd.squared_euclidean)
        g = random_heap(rng, n, k, tab, fill=float(rng.choice([0.5, 1.0, 1.5])))
        state = rng.integers(-2 ** 31 + 1, 2 ** 31 - 1, 3).astype(np.int64)
        numba.set_num_threads(T)
        newC, oldC = utils.new_build_candidates(g, mc, state.copy(), T)
        before = graph_tokens(g)
        cc = int(pm.process_candidates(X, pd.squared_euclidean, g, newC, oldC, n // bs, bs, T))
        numba.set_num_threads(numba.config.NUMBA_NUM_THREADS)
        impl = "%d | %s" % (cc, graph_tokens(g))
        line = "blocks %d %d %d %d %d | %s | %s | %s | %s" % (n, k, T, bs, newC.shape[1], bits_row(tab), ints_row(newC.ravel()),
                                                               ints_row(oldC.ravel()), before)
        model = run_driver([line])[0]
        case = {"n": n, "k": k, "T": T, "block_size": bs, "max_candidates": mc, "X": X.tolist(), "state": state.tolist()}
        res.case(("blocks", n, k, T, bs, X.tobytes(), state.tobytes()), nontrivial=(cc > 0 and bs < n),
                 sample={k_: case[k_] for k_ in ("n", "k", "T", "block_size")})
        res.count("block_cases"); res.count("block_cases_multi" if bs < n else "block_cases_single"); res.traces += 1
        if model != impl:
            res.corr_fail("process_candidates_blocks_bit_exact", case, model[:300], impl[:300])
