"""C05 — dynamic validation of the ownership contract of harness/translate_prange.py.

The static translator classifies every memory effect of one `numba.prange`
iteration (loopVar / guardedMod / csrSeg / privateAlloc / intReduction are
"owned").  Props/C05.lean proves that owned loops are schedule independent;
that an effect classified as owned really touches only locations no other
iteration touches was, until now, only the translator's contract.  This module
checks that contract on the RUNNING code:

* a child process (`python -m harness.footprint_trace`) imports pynndescent with
  NUMBA_DISABLE_JIT=1 (every kernel is then the plain Python function and runs in
  the interpreter) through an import hook that rewrites — in memory, /repo is never
  touched — every `for v in numba.prange(E)` loop (numbered exactly like
  Gen/Prange.lean: module.function#k) so that
    - every array / tuple of arrays / list that is visible to the loop body
      (arguments, locals allocated before the loop, closure variables) is replaced
      by a recording view of THE SAME MEMORY for the duration of the loop,
    - the loop runs its iterations one after the other and the recorder knows which
      iteration is running;
* the recording view is an ndarray subclass: element reads and writes (scalar
  indexing, slices, fancy indexing, ufuncs, numpy functions, methods), also inside
  callees (heap pushes, siftdown, tau_rand, distance functions …), are logged under
  the running iteration as sets of element *addresses* — so aliases, overlapping
  views and re-wrapped arrays agree by construction; arrays allocated inside an
  iteration are plain ndarrays and are not logged (private);
* verdict per loop execution: for iterations i ≠ j   W(i) ∩ W(j) = ∅  and
  W(i) ∩ R(j) = ∅.  A loop compiled with `parallel=<false>` runs serially in the
  real library too and is only counted.  Scalar accumulators (`n_changes += …`,
  the static table's int/float reductions) are not arrays and are invisible here.

What this cannot show: the interleavings the OS scheduler really produces (the
Lean theorem quantifies over those; here only ownership is observed), loops that
the scenarios do not reach (reported), and accesses made by compiled code that
bypasses the ndarray protocol (buffer protocol consumers; ufunc internals are
logged at whole-operand granularity).

The parent side (`start` / `collect` / `static_table`) is used by harness/c05.py.
"""
import ast, copy, importlib.abc, importlib.machinery, json, os, re, subprocess, sys, time

import numpy as np

VERIF = os.path.dirname(os.path.dirname(os.path.abspath(__file__)))
REPO = os.environ.get("PYNN_REPO", "/repo")
PRANGE_LEAN = os.path.join(VERIF, "lean", "PynnVerif", "Gen", "Prange.lean")
OWNED = {"loopVar", "guardedMod", "csrSeg", "privateAlloc", "intReduction"}

# ====================================================================== recorder state
CUR = None            # the Ctx of the prange iteration that is running (None outside tracked loops)
ACTIVE = None         # the Ctx of the tracked loop being executed (between begin and end)
SCENARIO = None       # label of what the driver is doing (stored with conflicts)
SCENARIO_CFG = None   # its configuration (lets the parent replay / enlarge it)
STATS = {}            # loop name -> accumulated numbers
CONFLICTS = []        # all conflicts found (bounded per loop)
PERSIST = []          # (lo, hi, name, array) of closure-captured arrays wrapped for the life of the closure
PERSIST_NAMES = set()
EVENTS = {}           # misc counters
_LIST_UID = [0]


def _ev(key, n=1):
    EVENTS[key] = EVENTS.get(key, 0) + n


def _bounds(a):
    """[lo, hi) byte range spanned by the elements of `a`."""
    ai = a.__array_interface__
    lo = hi = ai["data"][0]
    st = ai["strides"]
    isz = a.dtype.itemsize
    if st is None:
        return lo, lo + a.size * isz
    for n, s in zip(ai["shape"], st):
        if n == 0:
            return lo, lo
        if s < 0:
            lo += (n - 1) * s
        else:
            hi += (n - 1) * s
    return lo, hi + isz


def _log_r(ctx, ids):
    if type(ids) is np.ndarray:
        ctx.n_reads += ids.size
        ctx.R.update(ids.ravel().tolist())
    else:
        ctx.n_reads += 1
        ctx.R.add(int(ids))


def _log_w(ctx, ids):
    if type(ids) is np.ndarray:
        ctx.n_writes += ids.size
        ctx.W.update(ids.ravel().tolist())
    else:
        ctx.n_writes += 1
        ctx.W.add(int(ids))


_nd = np.ndarray
_META_ONLY = {"zeros_like", "empty_like", "ones_like", "full_like", "shape", "ndim", "size", "result_type", "can_cast",
              "may_share_memory", "shares_memory", "iscomplexobj", "isrealobj", "isscalar"}
_FUNC_MUTATES_ARG0 = {"copyto", "put", "place", "putmask", "fill_diagonal", "put_along_axis"}


class TArr(np.ndarray):
    """A view that logs which elements (by address) are read / written while a prange iteration runs.

    `_rng` = byte range of the wrapped array this view lies in (None: this object does not alias a wrapped
    array — e.g. the result of fancy indexing or of an arithmetic operation — and is private, nothing is logged)."""
    _rng = None
    _idc = None

    def __array_finalize__(self, obj):
        if obj is None:
            return
        r = getattr(obj, "_rng", None)
        if r is not None:
            lo, hi = _bounds(self)
            self._rng = r if (lo >= r[0] and hi <= r[1]) else None
        else:
            self._rng = None
        self._idc = None

    def _ids(self):
        c = self._idc
        if c is None:
            out = np.full((), self.__array_interface__["data"][0], dtype=np.int64)
            for n, s in zip(self.shape, self.strides):
                out = out[..., None] + np.arange(n, dtype=np.int64) * s
            self._idc = c = out
        return c

    # ---- element access
    def __getitem__(self, key):
        r = _nd.__getitem__(self, key)
        if self._rng is None:
            return r
        if type(r) is TArr and r._rng is not None:
            c = self._idc                   # a view: nothing is read yet; hand the ids down (cheap)
            if c is not None and c.ndim:
                try:
                    r._idc = c[key]
                except Exception:
                    r._idc = None
            return r
        ctx = CUR
        if ctx is not None:
            _log_r(ctx, self._ids()[key])   # scalar, or a copy made by fancy indexing
        return r

    def __setitem__(self, key, value):
        ctx = CUR
        if ctx is not None:
            if self._rng is not None:
                _log_w(ctx, self._ids()[key])
            if type(value) is TArr and value._rng is not None:
                _log_r(ctx, value._ids())
        _nd.__setitem__(self, key, value)

    def __iter__(self):
        for i in range(self.shape[0]):
            yield self[i]

    # ---- numpy protocol: whole-operand granularity
    def __array_ufunc__(self, ufunc, method, *inputs, out=None, **kwargs):
        ctx = CUR
        ins = []
        for k, x in enumerate(inputs):
            if isinstance(x, TArr):
                if ctx is not None and x._rng is not None:
                    if method == "at" and k == 0:
                        _log_w(ctx, x._ids()[inputs[1]])
                        _log_r(ctx, x._ids()[inputs[1]])
                    else:
                        _log_r(ctx, x._ids())
                x = x.view(_nd)
            ins.append(x)
        for kw in ("where", "initial"):
            if isinstance(kwargs.get(kw), TArr):
                kwargs[kw] = kwargs[kw].view(_nd)
        if out is not None:
            outs = []
            for o in out:
                if isinstance(o, TArr):
                    if ctx is not None and o._rng is not None:
                        _log_w(ctx, o._ids())
                    o = o.view(_nd)
                outs.append(o)
            kwargs["out"] = tuple(outs)
        res = getattr(ufunc, method)(*ins, **kwargs)
        if out is not None:
            return out[0] if len(out) == 1 else out
        return res

    def __array_function__(self, func, types, args, kwargs):
        tracked = []

        def strip(x):
            if isinstance(x, TArr):
                tracked.append(x)
                return x.view(_nd)
            if type(x) in (tuple, list):
                return type(x)(strip(y) for y in x)
            return x

        a2 = strip(args)
        k2 = {k: strip(v) for k, v in kwargs.items()}
        res = func(*a2, **k2)
        live = [t for t in tracked if t._rng is not None]
        if not live:
            return res
        name = getattr(func, "__name__", "")
        if name in _META_ONLY:
            return res
        aliased = set()

        def rewrap(r):
            if type(r) is _nd and r.size:
                for t in live:
                    if np.may_share_memory(r, t):
                        v = r.view(TArr)
                        lo, hi = _bounds(v)
                        if lo >= t._rng[0] and hi <= t._rng[1]:
                            v._rng = t._rng
                            aliased.add(id(t))
                            return v
                return r
            if type(r) in (tuple, list):
                return type(r)(rewrap(y) for y in r)
            return r

        res = rewrap(res)
        ctx = CUR
        if ctx is not None:
            for t in live:
                if id(t) not in aliased:
                    _log_r(ctx, t._ids())
            if name in _FUNC_MUTATES_ARG0 and args and isinstance(args[0], TArr) and args[0]._rng is not None:
                _log_w(ctx, args[0]._ids())
            o = kwargs.get("out")
            for t in (o if isinstance(o, tuple) else (o,)):
                if isinstance(t, TArr) and t._rng is not None:
                    _log_w(ctx, t._ids())
        return res


def _mk_method(name, reads, writes):
    base = getattr(np.ndarray, name)

    def m(self, *a, **k):
        ctx = CUR
        if ctx is not None and self._rng is not None:
            if reads:
                _log_r(ctx, self._ids())
            if writes:
                _log_w(ctx, self._ids())
        return base(self.view(_nd), *a, **k)
    m.__name__ = name
    return m


for _n in ("copy", "flatten", "astype", "tolist", "item", "tobytes", "dot", "take", "nonzero", "argmax", "argmin", "argsort",
           "cumsum", "cumprod", "searchsorted", "repeat", "round", "choose", "compress", "trace", "argpartition",
           "__float__", "__int__", "__bool__", "__index__", "__complex__", "__contains__", "__copy__", "__deepcopy__"):
    if hasattr(np.ndarray, _n):
        setattr(TArr, _n, _mk_method(_n, True, False))
for _n in ("fill", "put", "itemset", "setfield"):
    if hasattr(np.ndarray, _n):
        setattr(TArr, _n, _mk_method(_n, False, True))
for _n in ("sort", "partition", "byteswap", "resize"):
    if hasattr(np.ndarray, _n):
        setattr(TArr, _n, _mk_method(_n, True, True))


class TList(list):
    """A list whose structure (length / storage) and slots are locations.  Any access reads the structure,
    a structural change (append, pop, …) writes it; slot i is read / written by item access."""

    def _init(self):
        _LIST_UID[0] += 1
        self._uid = _LIST_UID[0]
        self._dirty = False
        return self

    def _loc(self, i=None):
        # negative numbers cannot collide with addresses
        if i is None:
            return -(self._uid << 24)
        if i < 0:
            i += list.__len__(self)
        return -(self._uid << 24) - 1 - i

    def __getitem__(self, i):
        ctx = CUR
        if ctx is not None:
            ctx.n_reads += 1
            ctx.R.add(self._loc())
            if isinstance(i, slice):
                ctx.R.update(self._loc(j) for j in range(*i.indices(list.__len__(self))))
            else:
                ctx.R.add(self._loc(int(i)))
        return list.__getitem__(self, i)

    def __setitem__(self, i, v):
        ctx = CUR
        self._dirty = True
        if ctx is not None:
            ctx.n_writes += 1
            ctx.R.add(self._loc())
            if isinstance(i, slice):
                ctx.W.add(self._loc())
            else:
                ctx.W.add(self._loc(int(i)))
        list.__setitem__(self, i, v)

    def __len__(self):
        ctx = CUR
        if ctx is not None:
            ctx.n_reads += 1
            ctx.R.add(self._loc())
        return list.__len__(self)

    def __iter__(self):
        ctx = CUR
        if ctx is not None:
            ctx.n_reads += 1
            ctx.R.add(self._loc())
            ctx.R.update(self._loc(j) for j in range(list.__len__(self)))
        return list.__iter__(self)

    def __contains__(self, x):
        ctx = CUR
        if ctx is not None:
            ctx.n_reads += 1
            ctx.R.add(self._loc())
            ctx.R.update(self._loc(j) for j in range(list.__len__(self)))
        return list.__contains__(self, x)


def _mk_list_mut(name):
    base = getattr(list, name)

    def m(self, *a, **k):
        ctx = CUR
        self._dirty = True
        if ctx is not None:
            ctx.n_writes += 1
            ctx.W.add(self._loc())
            ctx.W.add(self._loc(list.__len__(self)) if name == "append" else self._loc())
        return base(self, *a, **k)
    m.__name__ = name
    return m


for _n in ("append", "extend", "pop", "insert", "remove", "clear", "sort", "reverse", "__iadd__", "__imul__", "__delitem__"):
    setattr(TList, _n, _mk_list_mut(_n))


# ====================================================================== loop context
class Ctx:
    def __init__(self, name, parallel, track):
        self.name, self.parallel, self.track = name, parallel, track
        self.names = []          # (lo, hi, name, tracked array) registered by wrap()
        self.lists = []          # (name, original list, TList)
        self.orig = {}           # variable name -> (original object, wrapped object)
        self.iters = []          # (iteration, R, W)
        self.R = self.W = None
        self.n_reads = self.n_writes = 0


def begin(name, parallel):
    """Called before the wrap statements of a prange loop."""
    global ACTIVE
    st = STATS.setdefault(name, {"executions": 0, "tracked_executions": 0, "serial_executions": 0, "nested_executions": 0,
                                 "iterations": 0, "reads": 0, "writes": 0, "elements": 0, "conflicts": 0,
                                 "arrays": set(), "scenarios": set()})
    st["executions"] += 1
    st["scenarios"].add(SCENARIO)
    if ACTIVE is not None:
        # a prange reached from inside a prange iteration runs serially inside that iteration (numba does the same)
        st["nested_executions"] += 1
        return Ctx(name, bool(parallel), False)
    if not parallel:
        st["serial_executions"] += 1
        return Ctx(name, False, False)
    st["tracked_executions"] += 1
    ctx = Ctx(name, True, True)
    ACTIVE = ctx
    return ctx


def _wrap_obj(ctx, name, obj, depth=0):
    if isinstance(obj, np.ndarray):
        if type(obj) is TArr and obj._rng is not None:
            t = obj
        else:
            if obj.size == 0 or obj.dtype.hasobject:
                return obj
            t = obj.view(TArr)
            t._rng = _bounds(t)
        if ctx is not None:
            ctx.names.append((t._rng[0], t._rng[1], name, t))
        return t
    if type(obj) is TList:
        if ctx is not None and depth == 0:
            ctx.lists.append((name, None, obj))
        return obj
    if isinstance(obj, tuple) and depth < 3:
        items = [_wrap_obj(ctx, "%s[%d]" % (name, i), x, depth + 1) for i, x in enumerate(obj)]
        if all(a is b for a, b in zip(items, obj)):
            return obj
        return type(obj)(*items) if hasattr(obj, "_fields") else tuple(items)
    if type(obj) is list and depth < 3:
        t = TList(_wrap_obj(ctx, "%s[%d]" % (name, i), x, depth + 1) if isinstance(x, (list, np.ndarray)) else x
                  for i, x in enumerate(obj))._init()
        if ctx is not None and depth == 0:
            ctx.lists.append((name, obj, t))
        return t
    return obj


def wrap(ctx, name, obj):
    if not ctx.track:
        return obj
    w = _wrap_obj(ctx, name, obj)
    if w is not obj:
        ctx.orig[name] = (obj, w)
    return w


def wrap_persistent(name, obj):
    """Closure-captured variables of a nested function that contains a prange (and of its sibling closures):
    wrapped where the closure is created, for as long as the closure lives."""
    if isinstance(obj, np.ndarray) and type(obj) is not TArr and obj.size and not obj.dtype.hasobject:
        t = obj.view(TArr)
        t._rng = _bounds(t)
        PERSIST.append((t._rng[0], t._rng[1], name, t))
        PERSIST_NAMES.add((0, 0, name))
        del PERSIST[:-64]
        return t
    return obj


def iterate(ctx, *args):
    global CUR
    if not ctx.track:
        for i in range(*args):
            yield i
        return
    for i in range(*args):
        ctx.R, ctx.W = set(), set()
        ctx.iters.append((i, ctx.R, ctx.W))
        CUR = ctx
        yield i
        CUR = None
    CUR = None


def _copy_back(orig, t):
    """a list parameter mutated through its recording copy: make the caller's list show the same content"""
    if orig is None or not isinstance(t, TList):
        return
    if t._dirty or list.__len__(t) != len(orig):
        orig[:] = list.__iter__(t)
    for a, b in zip(orig, list.__iter__(t)):
        if type(a) is list and type(b) is TList:
            _copy_back(a, b)


def unwrap(ctx, name, obj):
    """After the loop: give the variable its original object back (same memory, so nothing is lost)."""
    if not ctx.track:
        return obj
    ow = ctx.orig.get(name)
    if ow is not None and ow[1] is obj and not isinstance(obj, TList):
        return ow[0]
    return obj


def _describe(ctx, loc):
    if loc < 0:
        uid, slot = (-loc) >> 24, (-loc) & ((1 << 24) - 1)
        for name, _o, t in ctx.lists:
            stack = [(name, t)]
            while stack:
                nm, l = stack.pop()
                if l._uid == uid:
                    return {"array": nm, "element": "list structure (length/storage)" if slot == 0 else "slot %d" % (slot - 1)}
                for i, x in enumerate(list.__iter__(l)):
                    if type(x) is TList:
                        stack.append(("%s[%d]" % (nm, i), x))
        return {"array": "<list %d>" % uid, "element": slot}
    best = None
    for lo, hi, name, t in list(ctx.names) + PERSIST[::-1]:
        if lo <= loc < hi:
            pos = np.argwhere(t._ids() == loc)
            if len(pos):
                d = {"array": name, "element": [int(v) for v in pos[0]], "shape": list(t.shape), "dtype": str(t.dtype)}
                if best is None:
                    best = d
                elif name not in best.setdefault("aliases", []) and name != best["array"]:
                    best["aliases"].append(name)
    return best or {"array": "<unregistered>", "element": int(loc)}


def end(ctx):
    """Verdict of one loop execution: no element written by two iterations, none written by one and read by another."""
    global CUR, ACTIVE
    if not ctx.track:
        return
    CUR = None
    ACTIVE = None
    st = STATS[ctx.name]
    st["iterations"] += len(ctx.iters)
    st["reads"] += ctx.n_reads
    st["writes"] += ctx.n_writes
    for _lo, _hi, nm, _t in ctx.names:
        st["arrays"].add(nm)
    for nm, _o, _t in ctx.lists:
        st["arrays"].add(nm)
    writer = {}
    found = []
    allel = set()
    for it, R, W in ctx.iters:
        allel |= R
        allel |= W
        for a in W:
            w = writer.get(a)
            if w is None:
                writer[a] = it
            elif w != it:
                found.append(("write/write", a, w, it))
    for it, R, W in ctx.iters:
        if len(R) > len(writer):
            hits = [a for a in writer if a in R]
        else:
            hits = [a for a in R if a in writer]
        for a in hits:
            if writer[a] != it:
                found.append(("write/read", a, writer[a], it))
    st["elements"] += len(allel)
    if found:
        st["conflicts"] += len(found)
        found.sort(key=lambda f: (f[0] != "write/write", f[2], f[3], -f[1] if f[1] < 0 else f[1]))
        n_here = sum(1 for c in CONFLICTS if c["loop"] == ctx.name)
        seen_arrays = set()
        for kind, a, i, j in found:
            if n_here >= 6:
                break
            d = _describe(ctx, a)
            if d["array"] in seen_arrays:
                continue
            seen_arrays.add(d["array"])
            n_here += 1
            CONFLICTS.append({"loop": ctx.name, "kind": kind, "array": d["array"], "element": d.get("element"),
                              "aliases": d.get("aliases", []), "shape": d.get("shape"),
                              "iterations": [int(i), int(j)], "n_conflicting_pairs_in_this_execution": len(found),
                              "scenario": SCENARIO, "cfg": SCENARIO_CFG})
    for nm, o, t in ctx.lists:
        _copy_back(o, t)
    ctx.iters = None
    ctx.names = []


# ====================================================================== source rewriting (in memory only)
def _call_name(c):
    f = c.func
    if isinstance(f, ast.Name):
        return f.id
    if isinstance(f, ast.Attribute):
        return f.attr
    return None


def _is_prange_for(n):
    return isinstance(n, ast.For) and isinstance(n.iter, ast.Call) and _call_name(n.iter) == "prange"


_FN = (ast.FunctionDef, ast.AsyncFunctionDef)


def enumerate_loops(tree, mod):
    """{id(For node): (loop name, function node, enclosing function node)} — the numbering is the one of
    translate_prange.main(): per function, its own prange loops in ast.walk order."""
    parents = {}
    for n in ast.walk(tree):
        for c in ast.iter_child_nodes(n):
            parents[c] = n
    out = {}
    for fn in [n for n in ast.walk(tree) if isinstance(n, _FN)]:
        own = []
        for n in ast.walk(fn):
            if _is_prange_for(n):
                p = parents.get(n)
                while p is not None and not isinstance(p, _FN):
                    p = parents.get(p)
                if p is fn:
                    own.append(n)
        enclosing = parents.get(fn)
        while enclosing is not None and not isinstance(enclosing, _FN):
            enclosing = parents.get(enclosing)
        qual = fn.name if enclosing is None else enclosing.name + "." + fn.name
        for k, lp in enumerate(own):
            out[id(lp)] = ("%s.%s#%d" % (mod, qual, k), fn, enclosing)
    return out


def _scope_locals(fn):
    """names bound in the function's own scope (parameters, assignment targets, nested def names)"""
    a = fn.args
    names = {x.arg for x in a.posonlyargs + a.args + a.kwonlyargs}
    if a.vararg:
        names.add(a.vararg.arg)
    if a.kwarg:
        names.add(a.kwarg.arg)
    stack = list(fn.body)
    while stack:
        n = stack.pop()
        if isinstance(n, _FN) or isinstance(n, ast.ClassDef):
            names.add(n.name)
            continue
        if isinstance(n, ast.Lambda):
            continue
        if isinstance(n, ast.Name) and isinstance(n.ctx, ast.Store):
            names.add(n.id)
        stack.extend(ast.iter_child_nodes(n))
    return names


def _loaded(node):
    return {n.id for n in ast.walk(node) if isinstance(n, ast.Name) and isinstance(n.ctx, ast.Load)}


def _parallel_expr(fn):
    for d in fn.decorator_list:
        if isinstance(d, ast.Call):
            for k in d.keywords:
                if k.arg == "parallel":
                    return copy.deepcopy(k.value)
    return ast.Constant(False)


def _stmt(src):
    return ast.parse(src).body


def _place(nodes, ref):
    """give freshly made statements (and everything below them) the source position of `ref`"""
    for s in nodes:
        for c in ast.walk(s):
            if hasattr(c, "lineno") or isinstance(c, (ast.expr, ast.stmt)):
                ast.copy_location(c, ref)
    return nodes


class _Rewriter(ast.NodeTransformer):
    def __init__(self, loops):
        self.loops = loops
        self.nested = {}          # id(fn with prange that has an enclosing function) -> enclosing fn
        self.parname = {}         # id(fn with prange and a non-constant parallel= flag) -> variable holding its value
        for _name, fn, enc in loops.values():
            if enc is not None:
                self.nested[id(fn)] = enc
            if not isinstance(_parallel_expr(fn), ast.Constant):
                self.parname.setdefault(id(fn), "_fp_par_%d" % len(self.parname))
        self.counter = 0

    def visit_FunctionDef(self, fn):
        self.generic_visit(fn)
        pre = []
        if id(fn) in self.parname:
            # the decorator's parallel=<E> is evaluated where and when the function is defined
            pre.append(ast.Assign(targets=[ast.Name(self.parname[id(fn)], ast.Store())], value=_parallel_expr(fn)))
        enc = self.nested.get(id(fn))
        if enc is not None:
            enc_locals = _scope_locals(enc)
            free = set()
            for h in ast.walk(enc):
                if isinstance(h, _FN) and h is not enc:
                    free |= (_loaded(h) - _scope_locals(h))
            for nm in sorted(free & enc_locals):
                pre += _stmt("try:\n    %s = _fptrace.wrap_persistent(%r, %s)\nexcept NameError:\n    pass" % (nm, nm, nm))
        if not pre:
            return fn
        return _place(pre, fn) + [fn]

    def visit_For(self, node):
        self.generic_visit(node)
        info = self.loops.get(id(node))
        if info is None:
            return node
        name, fn, _enc = info
        self.counter += 1
        cv = "_fpc_%d" % self.counter
        fl = _scope_locals(fn)
        tgt = {n.id for n in ast.walk(node.target) if isinstance(n, ast.Name)}
        names = sorted((_loaded(node) & fl) - tgt)
        par = ast.Name(self.parname[id(fn)], ast.Load()) if id(fn) in self.parname else _parallel_expr(fn)
        pre = [ast.Assign(targets=[ast.Name(cv, ast.Store())],
                          value=ast.Call(ast.Attribute(ast.Name("_fptrace", ast.Load()), "begin", ast.Load()),
                                         [ast.Constant(name), par], []))]
        wraps, unwraps = [], []
        for nm in names:
            wraps += _stmt("try:\n    %s = _fptrace.wrap(%s, %r, %s)\nexcept NameError:\n    pass" % (nm, cv, nm, nm))
            unwraps += _stmt("try:\n    %s = _fptrace.unwrap(%s, %r, %s)\nexcept NameError:\n    pass" % (nm, cv, nm, nm))
        it = ast.Call(ast.Attribute(ast.Name("_fptrace", ast.Load()), "iterate", ast.Load()),
                      [ast.Name(cv, ast.Load())] + node.iter.args, [])
        ast.copy_location(it, node.iter)
        node.iter = it
        fin = _stmt("_fptrace.end(%s)" % cv)
        _place(pre + wraps + unwraps + fin, node)
        tr = ast.copy_location(ast.Try(body=wraps + [node], handlers=[], orelse=[], finalbody=fin), node)
        return pre + [tr] + unwraps


INSTRUMENTED = {}     # module -> [loop names]


def instrument(src, path, mod):
    tree = ast.parse(src, path)
    loops = enumerate_loops(tree, mod)
    if not loops:
        return tree
    INSTRUMENTED[mod] = sorted(v[0] for v in loops.values())
    tree = _Rewriter(loops).visit(tree)
    ast.fix_missing_locations(tree)
    return tree


class _Loader(importlib.machinery.SourceFileLoader):
    def get_code(self, fullname):          # never use a cached .pyc: it holds the un-instrumented code
        path = self.get_filename(fullname)
        src = self.get_data(path)
        mod = fullname.rsplit(".", 1)[-1]
        if b"prange" in src:
            return compile(instrument(src, path, mod), path, "exec", dont_inherit=True)
        return compile(src, path, "exec", dont_inherit=True)

    def exec_module(self, module):
        module.__dict__["_fptrace"] = sys.modules[__name__]
        super().exec_module(module)


class _Finder(importlib.abc.MetaPathFinder):
    def find_spec(self, fullname, path, target=None):
        if not fullname.startswith("pynndescent."):
            return None
        spec = importlib.machinery.PathFinder.find_spec(fullname, path)
        if spec is not None and isinstance(spec.loader, importlib.machinery.SourceFileLoader) \
                and not isinstance(spec.loader, _Loader):
            spec.loader = _Loader(spec.loader.name, spec.loader.path)
        return spec


# ====================================================================== scenarios (child process)
def _dense(rng, n, dim, ties):
    X = rng.standard_normal((n, dim)).astype(np.float32)
    if ties:
        X = np.round(X * 2).astype(np.float32)
    return X


def _sparse(seed, n, dim):
    import scipy.sparse as sp
    X = sp.random(n, dim, density=0.4, format="csr", dtype=np.float32, random_state=seed)
    X.data[:] = np.round(X.data * 4 + 1) / 4
    return X


def scenarios(seed, tier):
    """Deterministic in `seed`.  Tiny inputs: everything below runs in the interpreter."""
    rng = np.random.default_rng(seed + 505)
    out = []
    threads = [2, 3, 4, 5, 8, 16]
    k = 0
    reps = 1 if tier == "quick" else 3
    for rep in range(reps):
        for kind in ("dense", "sparse"):
            for tree_init in (True, False):
                for low_memory in (True, False):
                    k += 1
                    out.append({
                        "id": "s%02d" % k, "kind": kind, "tree_init": tree_init, "low_memory": low_memory,
                        "n": int(rng.integers(24, 56)), "dim": int(rng.integers(3, 6)) if kind == "dense" else int(rng.integers(8, 14)),
                        "k": int(rng.integers(3, 6)), "seed": int(rng.integers(0, 1000)), "data_seed": int(rng.integers(0, 10 ** 6)),
                        "threads": int(threads[int(rng.integers(len(threads)))]),
                        "dprob": [0.5, 1.0][(k + rep) % 2] if k % 3 else 0.5,
                        "pbq": bool((k + rep) % 2) if tree_init else bool((k + rep + 1) % 2),
                        "ties": bool(rng.integers(3) == 0),
                        "metric": "cosine" if (kind == "dense" and k % 4 == 3) else "euclidean",
                        "nq": int(rng.integers(6, 12)), "qk": int(rng.integers(2, 4)), "eps": float(rng.choice([0.0, 0.2])),
                        "update": kind == "dense" and k % 2 == 0,
                        "max_degree_small": bool(k % 2),
                    })
    return out


def run_scenario(sc, both_query_modes=True):
    global SCENARIO, SCENARIO_CFG
    SCENARIO_CFG = sc
    import numba
    from pynndescent import NNDescent
    rng = np.random.default_rng(sc["data_seed"])
    numba.set_num_threads(min(sc["threads"], numba.config.NUMBA_NUM_THREADS))
    if sc["kind"] == "dense":
        X = _dense(rng, sc["n"], sc["dim"], sc["ties"])
        Q = _dense(rng, sc["nq"], sc["dim"], sc["ties"])
        if sc["metric"] == "cosine":
            Q[::4] = 0.0
        U = _dense(rng, 7, sc["dim"], False)
    else:
        X = _sparse(sc["data_seed"], sc["n"], sc["dim"])
        Q = _sparse(sc["data_seed"] + 1, sc["nq"], sc["dim"])
        U = None
    label = "%s:%s" % (sc["id"], ",".join("%s=%s" % (a, sc[a]) for a in ("kind", "tree_init", "low_memory", "threads", "dprob", "pbq", "metric")))
    SCENARIO = label + ":build"
    kw = dict(n_neighbors=sc["k"], random_state=sc["seed"], low_memory=sc["low_memory"], metric=sc["metric"],
              diversify_prob=sc["dprob"], tree_init=sc["tree_init"], parallel_batch_queries=sc["pbq"])
    if sc["max_degree_small"]:
        kw["pruning_degree_multiplier"] = 0.5      # max_degree < row lengths: degree_prune really removes entries
    idx = NNDescent(X, **kw)
    SCENARIO = label + ":prepare"
    idx.prepare()
    SCENARIO = label + ":query"
    idx.query(Q, k=sc["qk"], epsilon=sc["eps"])
    if both_query_modes:
        # the other query mode on the same index: rebuild the search closure with the flag flipped
        idx.parallel_batch_queries = not sc["pbq"]
        SCENARIO = label + ":query(pbq flipped)"
        if sc["kind"] == "dense":
            idx._init_search_function()
        else:
            idx._init_sparse_search_function()
        idx.query(Q, k=sc["qk"], epsilon=sc["eps"])
        idx.parallel_batch_queries = sc["pbq"]
    if sc["update"] and U is not None:
        SCENARIO = label + ":update"
        idx.update(xs_fresh=U)
        SCENARIO = label + ":prepare-after-update"
        idx.prepare()
        SCENARIO = label + ":query-after-update"
        idx.query(Q, k=sc["qk"], epsilon=sc["eps"])
    return idx, X


def run_extras(seed):
    """paths the histories above do not reach: sparse init_graph, dense init_graph, score_tree"""
    global SCENARIO, SCENARIO_CFG
    SCENARIO_CFG = None
    from pynndescent import NNDescent, rp_trees
    import numba
    rng = np.random.default_rng(seed + 909)
    n, k = 30, 4
    g = rng.integers(0, n, (n, k)).astype(np.int32)
    Xs = _sparse(seed + 3, n, 10)
    numba.set_num_threads(min(4, numba.config.NUMBA_NUM_THREADS))
    SCENARIO = "x1:sparse init_graph"
    NNDescent(Xs, n_neighbors=k, random_state=seed, init_graph=g)
    SCENARIO = "x2:sparse init_graph (low_memory=False, no tree)"
    NNDescent(Xs, n_neighbors=k, random_state=seed + 1, init_graph=g, low_memory=False, tree_init=False)
    Xd = _dense(rng, n, 4, False)
    SCENARIO = "x3:dense init_graph"
    idx = NNDescent(Xd, n_neighbors=k, random_state=seed, init_graph=g)
    SCENARIO = "x4:score_tree (called directly; no index path uses it)"
    for ties, dim in ((False, 4), (True, 2), (True, 3)):
        # lattice data: zero margins in the descent, so search_flat_tree draws from the generator all iterations share
        Xl = _dense(rng, n, dim, ties)
        idx2 = NNDescent(Xl, n_neighbors=k, random_state=seed + dim)
        idx2.prepare()
        rp_trees.score_tree(idx2._search_forest[0], idx2._neighbor_graph[0], Xl, idx2.rng_state.copy())


# ====================================================================== detector self-test (runs in the child, every time)
_SELFTEST_SRC = """
import numba, numpy as np
from pynndescent.utils import tau_rand, checked_heap_push

@numba.njit(parallel=True)
def owned_rows(a, rng_state):
    for i in numba.prange(a.shape[0]):
        local = rng_state + i
        row = a[i]
        for j in range(a.shape[1]):
            row[j] = a[i, j] + tau_rand(local)

@numba.njit(parallel=True)
def ww_same_cell(a):
    for i in numba.prange(a.shape[0]):
        a[0, 0] = i

@numba.njit(parallel=True)
def wr_neighbour_row(a):
    for i in numba.prange(a.shape[0]):
        a[i, 1] = a[(i + 1) % a.shape[0], 1]

@numba.njit(parallel=True)
def shared_generator_in_callee(a, rng_state):
    for i in numba.prange(a.shape[0]):
        a[i, 0] = tau_rand(rng_state)

@numba.njit(parallel=True)
def write_through_alias(a):
    b = a[::-1]
    for i in numba.prange(a.shape[0]):
        a[i, 0] = 1.0
        b[i, 0] = 2.0

@numba.njit(parallel=True)
def whole_array_ufunc(a):
    for i in numba.prange(a.shape[0]):
        a += 1.0

@numba.njit(parallel=True)
def push_into_foreign_row(pri, ind):
    for i in numba.prange(pri.shape[0]):
        checked_heap_push(pri[(i * 7) % 3], ind[(i * 7) % 3], np.float32(i), np.int32(i))

@numba.njit(parallel=True)
def heap_triple_owned(heap):
    for i in numba.prange(heap[0].shape[0]):
        checked_heap_push(heap[1][i], heap[0][i], np.float32(i), np.int32(i))

@numba.njit(parallel=False)
def serial_mode(a):
    for i in numba.prange(a.shape[0]):
        a[0, 0] = i

@numba.njit(parallel=True)
def list_owned_append(n):
    out = [[0] for _ in range(n)]
    for i in numba.prange(n):
        out[i].append(i)
    return out

@numba.njit(parallel=True)
def list_shared_append(n):
    out = [[0] for _ in range(n)]
    for i in numba.prange(n):
        out[0].append(i)
    return out

def make_closure(table):
    @numba.njit(parallel=True)
    def closure_write(k):
        for i in numba.prange(k):
            table[0] = i
    return closure_write
"""
_SELFTEST_EXPECT = {"owned_rows": False, "ww_same_cell": True, "wr_neighbour_row": True, "shared_generator_in_callee": True,
                    "write_through_alias": True, "whole_array_ufunc": True, "push_into_foreign_row": True,
                    "heap_triple_owned": False, "list_owned_append": False, "list_shared_append": True,
                    "make_closure.closure_write": True}


def detector_selftest():
    """Synthetic prange loops with known verdicts, pushed through the same rewriting and recording:
    the detector must flag every racy one and stay silent on the owned ones."""
    global SCENARIO, SCENARIO_CFG
    SCENARIO, SCENARIO_CFG = "detector self-test", None
    ns = {"_fptrace": sys.modules[__name__], "__name__": "fpselftest"}
    exec(compile(instrument(_SELFTEST_SRC, "<fpselftest>", "fpselftest"), "<fpselftest>", "exec"), ns)
    n = 6
    a = lambda: np.zeros((n, 3), dtype=np.float32)      # noqa
    rs = np.array([11, 22, 33], dtype=np.int64)
    a0 = a()
    ns["owned_rows"](a0, rs.copy())
    ns["ww_same_cell"](a())
    ns["wr_neighbour_row"](a())
    ns["shared_generator_in_callee"](a(), rs.copy())
    ns["write_through_alias"](a())
    ns["whole_array_ufunc"](a())
    ns["push_into_foreign_row"](np.full((n, 3), np.inf, dtype=np.float32), np.full((n, 3), -1, dtype=np.int32))
    heap = (np.full((n, 3), -1, dtype=np.int32), np.full((n, 3), np.inf, dtype=np.float32), np.zeros((n, 3), dtype=np.uint8))
    ns["heap_triple_owned"](heap)
    ns["serial_mode"](a())
    lo = ns["list_owned_append"](n)
    ns["list_shared_append"](n)
    ns["make_closure"](np.zeros(4))(n)
    out = {"ok": True, "cases": {}}
    for fn, racy in _SELFTEST_EXPECT.items():
        st = STATS.get("fpselftest.%s#0" % fn, {})
        good = st.get("tracked_executions") == 1 and st.get("iterations") == n and (st.get("conflicts", 0) > 0) == racy \
            and st.get("reads", 0) + st.get("writes", 0) > 0
        out["cases"][fn] = {"expected_conflict": racy, "conflicts": st.get("conflicts"), "iterations": st.get("iterations"), "ok": good}
        out["ok"] = out["ok"] and good
    st = STATS.get("fpselftest.serial_mode#0", {})
    good = st.get("serial_executions") == 1 and st.get("tracked_executions") == 0
    out["cases"]["serial_mode"] = {"expected_conflict": False, "ok": good}
    # the instrumented code computes what the plain code computes, in the caller's own arrays
    good = bool((a0 != 0).all()) and bool((heap[0][:, 0] == np.arange(n)).any() or (heap[0] >= 0).any()) and \
        [list(x) for x in lo] == [[0, i] for i in range(n)]
    out["cases"]["results_unchanged"] = {"ok": good}
    out["ok"] = out["ok"] and good and out["cases"]["serial_mode"]["ok"]
    for k in [k for k in STATS if k.startswith("fpselftest.")]:
        del STATS[k]
    CONFLICTS[:] = [c for c in CONFLICTS if not c["loop"].startswith("fpselftest.")]
    INSTRUMENTED.pop("fpselftest", None)
    return out


def child_main(argv):
    import argparse
    ap = argparse.ArgumentParser()
    ap.add_argument("--seed", type=int, default=0)
    ap.add_argument("--tier", default="quick")
    ap.add_argument("--out", required=True)
    ap.add_argument("--only", default=None, help="comma separated scenario ids (s01.., x) to replay")
    ap.add_argument("--plain", action="store_true", help="same scenarios, same interpreter mode, NO rewriting / recording: "
                    "only the digest of the results (the recorder must not change what the library computes)")
    a = ap.parse_args(argv)
    t0 = time.time()
    os.environ["NUMBA_DISABLE_JIT"] = "1"
    os.environ.setdefault("PYTHONDONTWRITEBYTECODE", "1")
    sys.dont_write_bytecode = True
    if "numba" in sys.modules:
        raise RuntimeError("numba imported before NUMBA_DISABLE_JIT was set")
    from harness.common import setup_numba_cache
    setup_numba_cache()       # REPO first on sys.path; the few @vectorize kernels that still compile cache under .cache/, not in REPO
    if not a.plain:
        sys.meta_path.insert(0, _Finder())
    import warnings
    warnings.filterwarnings("ignore")
    np.seterr(all="ignore")
    import numba
    assert numba.config.DISABLE_JIT, "interpreter mode not active"
    import pynndescent
    import pynndescent.utils as pu
    doc = {"seed": a.seed, "tier": a.tier, "library": os.path.dirname(pynndescent.__file__),
           "interpreter_mode": bool(numba.config.DISABLE_JIT) and not hasattr(pu.deheap_sort, "py_func"),
           "errors": [], "scenarios": []}
    if not os.path.realpath(doc["library"]).startswith(os.path.realpath(REPO)):
        doc["errors"].append("pynndescent imported from %s, not from %s" % (doc["library"], REPO))
    import hashlib
    digest = hashlib.sha1()
    try:
        doc["selftest"] = detector_selftest() if not a.plain else {"ok": True, "skipped": "plain run"}
        PERSIST_NAMES.clear()
    except Exception as e:
        import traceback
        doc["selftest"] = {"ok": False, "error": "%s: %s" % (type(e).__name__, e), "traceback": traceback.format_exc()[-1200:]}
        globals()["CUR"] = None
        globals()["ACTIVE"] = None
    only = set(a.only.split(",")) if a.only else None
    for sc in scenarios(a.seed, a.tier):
        if only and sc["id"] not in only:
            continue
        ts = time.time()
        try:
            idx, _X = run_scenario(sc)
            g = idx._neighbor_graph
            for arr in (g[0], g[1], idx._search_graph.indptr, idx._search_graph.indices, idx.rng_state, idx.search_rng_state):
                digest.update(np.ascontiguousarray(arr).tobytes())
            doc["scenarios"].append({"cfg": sc, "wall_s": round(time.time() - ts, 2)})
        except Exception as e:
            import traceback
            doc["errors"].append({"scenario": sc, "error": "%s: %s" % (type(e).__name__, str(e)[:300]),
                                  "traceback": traceback.format_exc()[-1500:]})
            globals()["CUR"] = None
            globals()["ACTIVE"] = None
    doc["results_digest"] = digest.hexdigest()
    if (not only or "x" in only) and not a.plain:
        try:
            run_extras(a.seed)
        except Exception as e:
            import traceback
            doc["errors"].append({"scenario": "extras", "error": "%s: %s" % (type(e).__name__, str(e)[:300]),
                                  "traceback": traceback.format_exc()[-1500:]})
    loops = {}
    for name, st in sorted(STATS.items()):
        d = dict(st)
        d["arrays"] = sorted(st["arrays"])
        d["scenarios"] = len(st["scenarios"])
        loops[name] = d
    doc["loops"] = loops
    doc["instrumented"] = INSTRUMENTED
    # the loops of ALL source files (imported or not), numbered by this module: must be the loop set of Gen/Prange.lean
    import glob
    enum = []
    for f in sorted(glob.glob(os.path.join(REPO, "pynndescent", "*.py"))):
        try:
            enum += [v[0] for v in enumerate_loops(ast.parse(open(f).read()), os.path.basename(f)[:-3]).values()]
        except SyntaxError as e:
            doc["errors"].append("cannot parse %s: %s" % (f, e))
    doc["enumerated"] = sorted(enum)
    doc["not_imported"] = sorted(set(enum) - {n for v in INSTRUMENTED.values() for n in v}) if not a.plain else []
    doc["conflicts"] = CONFLICTS
    doc["events"] = EVENTS
    doc["closure_arrays"] = sorted({p[2] for p in PERSIST_NAMES})
    doc["wall_s"] = round(time.time() - t0, 2)
    tmp = a.out + ".tmp"
    with open(tmp, "w") as f:
        json.dump(doc, f, indent=1, default=str)
    os.replace(tmp, a.out)
    return 0


# ====================================================================== parent side (used by harness/c05.py)
def static_table(path=PRANGE_LEAN):
    """{loop name: {"scope":…, "classes":[…], "noninterfering": bool}} parsed from the generated Lean table."""
    txt = open(path).read()
    out = {}
    for m in re.finditer(r'\{ name := "([^"]+)", scope := "([^"]+)", effects := \[(.*?)\] \}', txt, re.S):
        classes = re.findall(r'⟨\w+, "[^"]*", (\w+)⟩', m.group(3))
        out[m.group(1)] = {"scope": m.group(2), "classes": classes,
                           "noninterfering": all(c in OWNED for c in classes)}
    return out


def start(seed, tier, only=None, plain=False):
    """Launch the tracer child (needs NUMBA_DISABLE_JIT, so it cannot share the caller's process)."""
    d = os.path.join(VERIF, ".cache", "footprint")
    os.makedirs(d, exist_ok=True)
    out = os.path.join(d, "%s_%d_%d.json" % ("plain" if plain else "trace", os.getpid(), seed))
    for f in (out, out + ".tmp", out + ".log"):
        if os.path.exists(f):
            os.remove(f)
    env = dict(os.environ)
    env["NUMBA_DISABLE_JIT"] = "1"
    env["PYNN_REPO"] = REPO
    env["PYTHONDONTWRITEBYTECODE"] = "1"
    env.pop("NUMBA_NUM_THREADS", None)
    cmd = [sys.executable, "-m", "harness.footprint_trace", "--seed", str(seed), "--tier", tier, "--out", out]
    if only:
        cmd += ["--only", only]
    if plain:
        cmd += ["--plain"]
    log = open(out + ".log", "wb")
    p = subprocess.Popen(cmd, cwd=VERIF, env=env, stdout=log, stderr=subprocess.STDOUT)
    return {"proc": p, "out": out, "log": log, "t0": time.time(), "cmd": " ".join(cmd[1:])}


def collect(h, timeout=240):
    """(doc or None, reason-if-None).  Never raises; removes its files."""
    why = None
    doc = None
    t_block = time.time()
    try:
        try:
            rc = h["proc"].wait(timeout=timeout)
        except subprocess.TimeoutExpired:
            h["proc"].kill()
            h["proc"].wait()
            rc = None
            why = "timeout after %d s" % timeout
        h["log"].close()
        if rc is not None and rc != 0:
            tail = open(h["out"] + ".log", "rb").read()[-600:].decode("utf8", "replace")
            why = "tracer exited with status %s: %s" % (rc, tail.strip().replace("\n", " | "))
        elif rc == 0:
            try:
                doc = json.load(open(h["out"]))
            except Exception as e:
                why = "tracer output unreadable: %s" % e
    except Exception as e:      # noqa
        why = "collect failed: %s: %s" % (type(e).__name__, e)
    finally:
        for f in (h["out"], h["out"] + ".tmp", h["out"] + ".log"):
            try:
                os.remove(f)
            except OSError:
                pass
    if doc is not None:
        doc["blocked_s"] = round(time.time() - t_block, 2)     # what the caller really waited for the child at the end
    return doc, why


if __name__ == "__main__":
    # run under the canonical module name so that the rewritten library and this file share one recorder state
    sys.path.insert(0, VERIF)
    from harness import footprint_trace as _ft
    sys.exit(_ft.child_main(sys.argv[1:]))
