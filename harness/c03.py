"""C03 — accuracy floor.  Decided part: the theorems of Props/C03.lean (single-leaf exactness, delivery of every
discovered pair to both endpoints) tied by the bit-exact nn_descent correspondence; API check that a dataset that
fits in one leaf yields the exact graph up to ties.  Measured part (sampling, labelled as such): the 90 % / 80 %
recall floors on seeded well-conditioned families."""
import sys, os, warnings
sys.path.insert(0, os.path.dirname(os.path.dirname(os.path.abspath(__file__))))
from harness.common import *
setup_numba_cache()
warnings.filterwarnings("ignore")
import numpy as np, numba, scipy.sparse as sp
from scipy.spatial.distance import cdist
from pynndescent import NNDescent
from harness import descent_kernels as dk


def family(rng, name, n, amb=12):
    if name == "uniform":
        return rng.random((n, 4)).astype(np.float32)
    if name == "gaussian":
        return rng.standard_normal((n, 5)).astype(np.float32)
    if name == "clustered":
        c = rng.standard_normal((8, 6)) * 5
        return (c[rng.integers(0, 8, n)] + rng.standard_normal((n, 6))).astype(np.float32)
    if name == "manifold":
        t = rng.random((n, 2)) * 3
        B = rng.standard_normal((6, amb))
        F = np.stack([np.sin(t[:, 0]), np.cos(t[:, 0]), t[:, 1], t[:, 0] * t[:, 1], np.sin(t[:, 1]), t[:, 0]], axis=1)
        return (F @ B + 0.01 * rng.standard_normal((n, amb))).astype(np.float32)
    if name == "sparse":          # topic-mixture rows: few latent topics, sparse non-negative loadings
        topics = rng.random((5, 40)) * (rng.random((5, 40)) < 0.25)
        W = rng.dirichlet(np.ones(5) * 0.3, size=n)
        M = W @ topics + 0.02 * rng.random((n, 40)) * (rng.random((n, 40)) < 0.05)
        M[M < 0.03] = 0.0
        M[M.sum(axis=1) == 0, 0] = 1.0
        return sp.csr_matrix(M.astype(np.float32))
    if name == "sparse_clustered":   # well-separated clusters on disjoint feature blocks: the k-NN graph is not one connected blob,
        nc, width = 8, 6                # so query() depends on the search tree seeding it in the right cluster
        lab = rng.integers(0, nc, n)
        M = np.zeros((n, nc * width))
        for i in range(n):
            M[i, lab[i] * width:(lab[i] + 1) * width] = rng.random(width) + 0.2
        return sp.csr_matrix(M.astype(np.float32))
    if name == "binary":          # prototypes with a few flipped bits (low intrinsic dimension)
        protos = rng.random((12, 32)) < 0.4
        B = protos[rng.integers(0, 12, n)] ^ (rng.random((n, 32)) < 0.06)
        B[B.sum(axis=1) == 0, 0] = True
        return B.astype(np.float32)
    raise ValueError(name)


SCIPY = {"euclidean": "euclidean", "cosine": "cosine", "correlation": "correlation", "manhattan": "cityblock", "jaccard": "jaccard",
         "dot": "cosine"}     # dot = cosine of the rows as given (the index normalises them itself), clamped like cosine


def true_knn(X, metric, k, Q=None):
    A = X.toarray() if sp.issparse(X) else X
    B = A if Q is None else (Q.toarray() if sp.issparse(Q) else Q)
    if metric == "jaccard":
        D = cdist(B.astype(bool), A.astype(bool), "jaccard")
    else:
        D = cdist(B.astype(np.float64), A.astype(np.float64), SCIPY[metric])
    D = np.nan_to_num(D, nan=1.0)
    if metric in ("cosine", "dot"):
        D = np.minimum(D, 1.0)            # the index reports cosine clamped to [0, 1] (saturation at similarity <= 0)
    return D, np.sort(D, axis=1)[:, :k]


def ref_matrix(X, metric):
    """small n: the float64 reference of harness/refmetrics.py (handles the degenerate branches the code documents)"""
    from harness import oracles
    n = X.shape[0]
    D = np.zeros((n, n))
    for i in range(n):
        for j in range(n):
            v = oracles._ref(metric, X[i].astype(np.float64), X[j].astype(np.float64), {})
            D[i, j] = np.nan if v is None else v
    return D


def recall_by_distance(D, kth, found_idx):
    """fraction of the true k nearest found, ties resolved in favour of the index (distance <= k-th true distance)"""
    n, k = found_idx.shape
    ok = 0
    for i in range(n):
        f = found_idx[i][found_idx[i] >= 0]
        ok += min(k, int(np.sum(D[i, f] <= kth[i, -1] * (1 + 1e-6) + 1e-9)))
    return ok / (n * k)


def recall_case(res, rng, fam, metric, cfg, n):
    A = family(rng, fam, n + 200)            # data and queries are a split of ONE sample of the family
    X, Qd = A[:n], A[n:]
    k = 10
    numba.set_num_threads(numba.config.NUMBA_NUM_THREADS)
    idx = NNDescent(X, metric=metric, n_neighbors=k, random_state=int(rng.integers(10 ** 6)), low_memory=cfg["low_memory"],
                    tree_init=cfg["tree_init"], n_jobs=cfg["n_jobs"])
    D, kth = true_knn(X, metric, k)
    gi, gd = idx.neighbor_graph
    gr = recall_by_distance(D, kth, gi)
    case = {"family": fam, "metric": metric, "n": n, **cfg}
    DQ, kthq = true_knn(X, metric, k, Qd)
    if sp.issparse(Qd) and rng.integers(2):
        from harness import api
        Qd = api.unsort_csr(rng, Qd.tocsr())            # the same queries with their columns listed out of order
    qi, qdst = idx.query(Qd, k=k)
    qr = recall_by_distance(DQ, kthq, qi)
    # the graph the index exposes once it has served queries is the graph it built (the floor is about the index, not about the
    # moment it is read): an in-place step of prepare() that truncates the lists shows here
    gr = min(gr, recall_by_distance(D, kth, idx.neighbor_graph[0]))
    res.case(("recall", fam, metric, n, tuple(sorted(cfg.items()))), True,
             sample={**case, "graph_recall": round(gr, 4), "query_recall": round(qr, 4)})
    res.count("recall_cases"); res.traces += 1
    res.notes.append("recall %s/%s %s: graph %.3f query %.3f" % (fam, metric, cfg, gr, qr))
    return gr, qr


def big_block_case(res, rng):
    """n just above the 16384-point block size of process_candidates, random initialisation, default tuning: the stop test must see
    the updates of EVERY block (recall estimated on 200 sampled rows by brute force)"""
    n, dim, k = 16384 + int(rng.integers(2, 40)), 8, 10
    X = rng.standard_normal((n, dim)).astype(np.float32)
    numba.set_num_threads(numba.config.NUMBA_NUM_THREADS)
    idx = NNDescent(X, n_neighbors=k, random_state=int(rng.integers(10 ** 6)), tree_init=False)
    gi, _ = idx.neighbor_graph
    rows = rng.choice(n, size=200, replace=False)
    D = ((X[rows][:, None, :].astype(np.float64) - X[None, :, :].astype(np.float64)) ** 2).sum(-1)
    hit = 0
    for a, r in enumerate(rows):
        kth = np.partition(D[a], k - 1)[k - 1]
        hit += sum(1 for v in gi[r] if v >= 0 and D[a, v] <= kth * (1 + 1e-6))
    gr = hit / (200.0 * k)
    case = {"family": "gaussian", "metric": "euclidean", "n": n, "tree_init": False, "note": "n > 16384: more than one block"}
    res.case(("big-block", n), True, sample={**case, "graph_recall": round(gr, 4)}); res.count("recall_cases"); res.traces += 1
    res.notes.append("recall big-block n=%d: graph %.3f" % (n, gr))
    if gr < 0.90:
        res.violation("recall:graph:gaussian:euclidean", "graph recall %.3f < 0.90 at n=%d (random init, default tuning; sampled rows)" % (gr, n), case)


def warm_start_case(res, rng, metric):
    """a supplied (random, hence poor) init_graph + init_dist must still be REFINED: the floor holds for every build configuration"""
    n, dim, k = 1500, 8, 10
    X = rng.standard_normal((n, dim)).astype(np.float32)
    G = rng.integers(0, n, size=(n, k)).astype(np.int32)
    D0 = np.array([[api_ref(metric, X[i], X[j]) for j in G[i]] for i in range(n)], dtype=np.float32)
    for with_dist in (True, False):
        idx = NNDescent(X, metric=metric, n_neighbors=k, random_state=int(rng.integers(10 ** 6)), init_graph=G,
                        **({"init_dist": D0} if with_dist else {}))
        D, kth = true_knn(X, metric, k)
        gi, _ = idx.neighbor_graph
        gr = recall_by_distance(D, kth, gi)
        case = {"family": "gaussian", "metric": metric, "n": n, "init_graph": "random", "init_dist": with_dist}
        res.case(("warm-start", metric, with_dist, n), True, sample={**case, "graph_recall": round(gr, 4)}); res.count("recall_cases"); res.traces += 1
        res.notes.append("recall warm-start %s init_dist=%s: graph %.3f" % (metric, with_dist, gr))
        if gr < 0.90:
            res.violation("recall:graph:warm-start:%s" % metric, "graph recall %.3f < 0.90 from a supplied initial graph (init_dist=%s)" % (gr, with_dist), case)


def api_ref(metric, x, y):
    x = x.astype(np.float64); y = y.astype(np.float64)
    return float(np.abs(x - y).sum()) if metric == "manhattan" else float(np.sqrt(((x - y) ** 2).sum()))


def single_leaf_case(res, rng, metric):
    k = int(rng.choice([3, 5, 8])); n = int(rng.choice([k + 1, 9, 10]))     # n <= leaf_size = max(10, k)
    style = str(rng.choice(["gauss", "int"]))
    X = (rng.standard_normal((n, 3)) if style == "gauss" else rng.integers(-2, 3, size=(n, 3))).astype(np.float32)
    idx = NNDescent(X, metric=metric, n_neighbors=k, random_state=int(rng.integers(10 ** 6)), n_trees=1,
                    low_memory=bool(rng.integers(2)), n_jobs=[None, 1, 3][int(rng.integers(3))])
    gi, gd = idx.neighbor_graph
    D = ref_matrix(X, metric)
    if np.isnan(D).any():
        return                                  # undefined reference (e.g. zero vector under an angular metric): not generated on purpose
    kth = np.sort(D, axis=1)[:, : min(k, n)]
    case = {"metric": metric, "n": n, "k": k, "X": X.tolist()}
    res.case(("single-leaf", metric, n, k, X.tobytes()), True, sample={"metric": metric, "n": n, "k": k, "row0": gi[0].tolist()})
    res.count("single_leaf_cases"); res.traces += 1
    for i in range(n):
        got = np.sort(gd[i][gi[i] >= 0].astype(np.float64))
        want = kth[i][: len(got)]
        if len(got) < min(k, n) or not np.allclose(got, want, rtol=2e-5, atol=2e-6):
            res.violation("recall:single-leaf:%s" % metric, "dataset fits in one leaf but row %d is not the exact k-NN list: "
                          "got %s, exact %s" % (i, got.tolist(), kth[i].tolist()), case)
            return


def run(res, tier, seed, search):
    rng = np.random.default_rng(seed + 303)
    res.rule = ("kernel: bit-exact nn_descent correspondence (a kernel that drops updates breaks it); single-leaf: n <= leaf_size, "
                "rows compared with brute force by distance; recall (SAMPLING, not proof): seeded families x metric x {low_memory, "
                "tree_init, n_jobs}, default tuning, k=10, recall counted by distance so ties favour the index")
    nk = 6 if tier == "quick" else 40
    for c in range(nk):
        cfg = dk.nnd_case(rng, small=(c % 2 == 0))
        low = bool(rng.integers(2))
        impl, line, _ = dk.run_nnd_pair(cfg, low)
        res.traces += 1
        res.case(("kernel",) + tuple(sorted(cfg.items())) + (low,), cfg["n_iters"] > 0, sample={"cfg": cfg})
        if run_driver([line])[0] != impl:
            res.corr_fail("nn_descent_bit_exact", {"cfg": cfg, "low_memory": low})
    for metric in ["euclidean", "cosine"] if tier == "quick" else ["euclidean", "cosine", "manhattan", "correlation"]:
        for r in range(4 if tier == "quick" else 20):
            single_leaf_case(res, rng, metric)
    fams = [("uniform", "euclidean"), ("clustered", "cosine"), ("manifold", "euclidean"), ("gaussian", "correlation"),
            ("sparse", "cosine"), ("binary", "jaccard"), ("gaussian", "manhattan"), ("sparse", "euclidean")]
    modes = [{"low_memory": True, "tree_init": True, "n_jobs": None}, {"low_memory": False, "tree_init": True, "n_jobs": 4},
             {"low_memory": True, "tree_init": False, "n_jobs": 1}, {"low_memory": False, "tree_init": False, "n_jobs": -1}]
    fams.append(("sparse_clustered", "euclidean"))
    if tier == "quick" and not search:
        plan = [(fams[(seed + i) % (len(fams) - 1)], modes[(seed + i) % len(modes)]) for i in range(3)] + [(("sparse_clustered", "euclidean"), modes[0]),
                                                                                                             (("sparse", "cosine"), modes[3]), (("sparse", "euclidean"), modes[1]),
                                                                                                             (("gaussian", "dot"), modes[0])]
        n = 1200
    else:
        plan = [(f, m) for f in fams for m in modes]
        n = 2000
    dk.check_blocks(res, rng, 40 if tier == "quick" else 300)
    # the translated generate_leaf_updates executed against the numba kernel (own stream: the cases above keep theirs)
    dk.check_leaf_updates(res, np.random.default_rng(seed + 303), 40 if tier == "quick" else 400)
    dk.check_graph_updates(res, np.random.default_rng(seed + 30303), 40 if tier == "quick" else 400)
    big_block_case(res, rng)
    warm_start_case(res, rng, "manhattan")
    if tier != "quick":
        warm_start_case(res, rng, "euclidean")
    # the floors are statements about averages: average over the repetitions of each (family, metric, mode)
    reps = 2 if tier == "quick" and not search else 3
    for (fam, metric), mode in plan:
        rs = [recall_case(res, rng, fam, metric, mode, n) for _ in range(reps)]
        gr = float(np.mean([r[0] for r in rs])); qr = float(np.mean([r[1] for r in rs]))
        case = {"family": fam, "metric": metric, "n": n, **mode, "repetitions": reps, "seed": seed}
        if gr < 0.90:
            res.violation("recall:graph:%s:%s" % (fam, metric), "mean graph recall %.3f < 0.90 over %d runs (%s)" % (gr, reps, mode), case)
        if mode["tree_init"] and qr < 0.80:     # the README's floor is for the default, tree-seeded search
            res.violation("recall:query:%s:%s" % (fam, metric), "mean query recall %.3f < 0.80 over %d runs (%s)" % (qr, reps, mode), case)
    numba.set_num_threads(numba.config.NUMBA_NUM_THREADS)


if __name__ == "__main__":
    std_main("C03", run)
