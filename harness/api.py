"""Shared generators for API-level checks: datasets (dense f32/f64, C/F order, CSR sorted/unsorted,
bit-packed; gaussian / tie-heavy small-integer / non-negative / binary value streams; planted
duplicates, zero rows, scaled copies), metric families with compatible domains, configurations."""
import numpy as np, scipy.sparse as sp

REAL_METRICS = ["euclidean", "manhattan", "chebyshev", "cosine", "correlation", "sqeuclidean", "canberra", "braycurtis", "minkowski"]
NONNEG_METRICS = ["hellinger", "jensen_shannon", "symmetric_kl"]
BINARY_METRICS = ["jaccard", "hamming", "dice", "matching", "rogerstanimoto", "sokalsneath"]
BIT_METRICS = ["bit_hamming", "bit_jaccard"]
SPARSE_OK = ["euclidean", "manhattan", "chebyshev", "cosine", "correlation", "sqeuclidean", "canberra", "braycurtis",
             "minkowski", "hellinger", "jaccard", "hamming", "dice"]


def metric_kwds(metric, rng, dim):
    if metric == "minkowski":
        return {"p": float(rng.choice([1.5, 3.0]))}
    return {}


def gen_values(rng, n, dim, stream):
    if stream == "gauss":
        X = rng.standard_normal((n, dim))
    elif stream == "smallint":
        X = rng.integers(-2, 4, size=(n, dim)).astype(float)
    elif stream == "nonneg":
        X = rng.random((n, dim)) * (rng.random((n, dim)) < 0.7)
        X[X.sum(axis=1) == 0, 0] = 0.5
    elif stream == "binary":
        X = (rng.random((n, dim)) < 0.45).astype(float)
    else:
        raise ValueError(stream)
    return X


def plant(rng, X, dup=True, zero=False, scaled=False):
    n = X.shape[0]
    if dup and n >= 6:
        for _ in range(max(1, n // 15)):
            a, b = rng.integers(0, n, 2)
            X[a] = X[b]
    if scaled and n >= 6:
        for _ in range(max(1, n // 20)):
            a, b = rng.integers(0, n, 2)
            X[a] = X[b] * float(rng.choice([0.5, 2.0, 3.0]))
    if zero and n >= 4:
        X[int(rng.integers(0, n))] = 0.0
    return X


def stream_for(metric, rng):
    if metric in NONNEG_METRICS:
        return "nonneg"
    if metric in BINARY_METRICS:
        return "binary"
    return str(rng.choice(["gauss", "gauss", "smallint"]))


def gen_dataset(rng, metric, kind, n, dim, zero_rows=False):
    """returns (X as handed to the index, dense float64 logical matrix)"""
    if kind == "bits":
        B = rng.integers(0, 256, size=(n, dim)).astype(np.uint8)
        if n >= 6:
            B[int(rng.integers(0, n))] = B[int(rng.integers(0, n))]
        if zero_rows:
            B[int(rng.integers(0, n))] = 0
        return B, B
    stream = stream_for(metric, rng)
    X = gen_values(rng, n, dim, stream)
    X = plant(rng, X, dup=True, zero=zero_rows and metric not in NONNEG_METRICS,
              scaled=(stream != "binary" and bool(rng.integers(2))))
    if kind == "dense32":
        return np.ascontiguousarray(X, dtype=np.float32), X.astype(np.float32).astype(np.float64)
    if kind == "dense64":
        return np.ascontiguousarray(X, dtype=np.float64), X.astype(np.float32).astype(np.float64)
    if kind == "denseF":
        return np.asfortranarray(X.astype(np.float32)), X.astype(np.float32).astype(np.float64)
    if kind in ("csr", "csr_unsorted"):
        if stream == "gauss":
            X = X * (rng.random(X.shape) < 0.6)
        for i in range(n):
            if not X[i].any() and not zero_rows:
                X[i, int(rng.integers(0, dim))] = 1.0
        M = sp.csr_matrix(X.astype(np.float32))
        if kind == "csr_unsorted":
            M = unsort_csr(rng, M)
        return M, X.astype(np.float32).astype(np.float64)
    raise ValueError(kind)


def unsort_csr(rng, M):
    M = M.copy()
    for i in range(M.shape[0]):
        lo, hi = M.indptr[i], M.indptr[i + 1]
        perm = rng.permutation(hi - lo)
        M.indices[lo:hi] = M.indices[lo:hi][perm]
        M.data[lo:hi] = M.data[lo:hi][perm]
    M.has_sorted_indices = False
    return M


def take_rows(X, rows):
    return X[rows]
