#!/venv/bin/python
"""numba-subset -> Lean translator for the small discrete kernels (heap pushes, siftdown, two-pointer merges).

Reads the *source text* of the kernels listed in KERNELS from $PYNN_REPO (default /repo) and rewrites
lean/PynnVerif/Gen/Kernels.lean.  The generated file contains ONLY definitions (no proofs).  The theorems in
Proofs/GenHeap.lean, Proofs/GenMerge.lean and Props/C11.lean / Props/C08.lean state that every generated function,
for every input, (a) never reads or writes outside an array (`none` is the out-of-bounds / fuel-exhausted outcome) and
(b) returns exactly what the hand-written model returns.  A change to a kernel changes the generated definition; the
proofs then either still go through (harmless rewrite) or break (obligation broken -> failing-input search).

Translation scheme (syntax-directed; everything else is `Unsupported` and omits the kernel, which breaks the proof
that mentions it):

  * the function becomes `def <name> (fuel : Nat) <params> : Option <result>` in the `Option` monad; result =
    (every array parameter the body stores to, in parameter order, then the return value);
  * `a[i]` (load) -> `(<- rd a i)`, `a[i] = v` -> `let a <- wr a i v`; `rd` / `wr` answer `none` outside `0 <= i < a.size`
    (numba compiles these kernels without bounds checks: `none` models undefined behaviour);
  * assignment to a local is a shadowing `let`; the statements following an `if` are duplicated into both branches
    (so no join points: every path is a straight line of lets);
  * every loop becomes a recursive function `<name>.loop<k>` over a fuel argument whose extra arguments are the
    loop-carried variables (those assigned in the body and defined before the loop); it answers
    `.next <carried>` when the loop is left normally or by `break`, `.ret <result>` for a `return` inside the loop;
    `while c: B` = `while True: if c: B else: break`; `for v in range(..)` carries the counter;
  * a kernel that cannot be translated is NOT dropped from the file: it becomes a stub of the same signature whose body is
    `none` (marked `NOT TRANSLATED: <reason>`), so that the native driver (which links `Driver/GenK.lean`, hence this file,
    for every property) still builds while every refinement / memory-safety theorem about that kernel becomes unprovable
    (`none = some ..`) and the executed comparison reports `oob`;
  * identifiers are checked: a Python name that is a Lean keyword, a name of the prelude (`fuel`, `rd`, `wr`, `take`, ...) or
    contains `__` (reserved for the translator's temporaries) would otherwise be captured / shadow silently -> `Unsupported`;
  * `x and y` / `x or y` in a condition become nested `if`s (short-circuit evaluation is what keeps the loads in
    bounds); integer locals are unbounded `Int` (numba's uint16 cursors wrap at 65536: rows shorter than that, as
    everywhere else in this framework).
"""
import ast, os, sys, textwrap

REPO = os.environ.get("PYNN_REPO", "/repo")
VERIF = os.path.dirname(os.path.dirname(os.path.abspath(__file__)))
OUT = os.path.join(VERIF, "lean", "PynnVerif", "Gen", "Kernels.lean")

# parameter types: P = priority / value (abstract ordered type), Int, arrP, arrI ; ret: Int | Unit | P | tuple of these
KERNELS = [
    ("utils.py", "simple_heap_push", dict(priorities="arrP", indices="arrI", p="P", n="Int"), "Int"),
    ("utils.py", "checked_heap_push", dict(priorities="arrP", indices="arrI", p="P", n="Int"), "Int"),
    ("utils.py", "checked_flagged_heap_push", dict(priorities="arrP", indices="arrI", flags="arrI", p="P", n="Int", f="Int"), "Int"),
    ("utils.py", "siftdown", dict(heap1="arrP", heap2="arrI", elt="Int"), "Unit"),
    ("sparse.py", "fast_intersection_size", dict(ar1="arrI", ar2="arrI"), "Int"),
    ("sparse.py", "sparse_sum", dict(ind1="arrI", data1="arrP", ind2="arrI", data2="arrP"), ("arrI", "arrP")),
    ("sparse.py", "sparse_mul", dict(ind1="arrI", data1="arrP", ind2="arrI", data2="arrP"), ("arrI", "arrP")),
    ("sparse.py", "sparse_dot_product", dict(ind1="arrI", data1="arrP", ind2="arrI", data2="arrP"), "P"),
    # kernels over 2-D arrays that call the ones above on row views (`prange` is translated as `range`: the
    # schedule-independence of these loops is property C05's obligation over Gen/Prange.lean)
    ("utils.py", "deheap_sort", dict(indices="arr2I", distances="arr2P"), ("arr2I", "arr2P")),
    ("utils.py", "apply_graph_updates_low_memory", dict(current_graph=("arr2I", "arr2P", "arr2I"), updates="updLL", n_threads="Int"), "Int"),
    # `in_graph` is a list of sets of ints, used only through `x in in_graph[r]` and `in_graph[r].add(x)`: a set is modelled by
    # the list of the elements added to it (newest first; `add` conses, `in` is list membership), which is Model/Descent's InGraph
    ("utils.py", "apply_graph_updates_high_memory", dict(current_graph=("arr2I", "arr2P", "arr2I"), updates="updLL", in_graph="setLI"), "Int"),
    # the heap initialisers: 2-D loops feeding rows of given arrays to the flagged push
    ("pynndescent_.py", "init_from_neighbor_graph", dict(heap=("arr2I", "arr2P", "arr2I"), indices="arr2I", distances="arr2P"), "Unit"),
    # the search's visited table: one bit per candidate in a byte array (`>>`, `<<`, `&`, `|` on non-negative ints)
    ("utils.py", "has_been_visited", dict(table="arrI", candidate="Int"), "Int"),
    ("utils.py", "mark_visited", dict(table="arrI", candidate="Int"), "Unit"),
    # the pair generators of NN-descent: `dist` is a function parameter applied to rows of `data` (handed over by value);
    # `top` is not a Python parameter: it stands for `np.inf` (the distance of the placeholder every update list starts with)
    ("pynndescent_.py", "generate_leaf_updates", dict(top="P", leaf_block="arr2I", dist_thresholds="arrP", data="arr2P", dist="distFn"), "updLL"),
    ("pynndescent_.py", "generate_graph_updates", dict(top="P", new_candidate_block="arr2I", old_candidate_block="arr2I", dist_thresholds="arrP", data="arr2P", dist="distFn"), "updLL"),
]

LEAN_TY = {"P": "P", "Int": "Int", "arrP": "Array P", "arrI": "Array Int", "Unit": "Unit", "Bool": "Bool",
           "arr2P": "Array (Array P)", "arr2I": "Array (Array Int)",
           "setI": "List Int", "setLI": "Array (List Int)", "distFn": "(Array P → Array P → P)",
           "upd": "(Int × Int × P)", "updL": "Array (Int × Int × P)", "updLL": "Array (Array (Int × Int × P))"}
ELEM = {"arrP": "P", "arrI": "Int", "arr2P": "arrP", "arr2I": "arrI", "updLL": "updL", "updL": "upd", "setLI": "setI"}
MUTATING = {}     # translated kernel name -> Fn (for calls from later kernels)


class Unsupported(Exception):
    pass


# names a Python identifier must not have: it would be a Lean syntax error (the whole file, hence the driver, would stop
# building) or silently capture / shadow something of the translation scheme (a mistranslation)
LEAN_RESERVED = set("""
abbrev at attribute axiom by calc class deriving do else end example export extends for from fun have if import in
infix infixl infixr instance let macro match mutual namespace noncomputable notation open partial postfix prefix private
protected return section set_option show structure suffices syntax termination_by decreasing_by then theorem universe unless
using variable where with
fuel rd wr wr2 wrPrefix ncols take zeros shr shl band bor pure none some true false P Int Nat Array Option Unit Bool Type Prop Sort LoopOut
next ret
""".split())


def check_identifiers(fdef, kernel_names):
    """called on the source AST, before tuple parameters are flattened / aliases renamed"""
    callees = {id(n.func) for n in ast.walk(fdef) if isinstance(n, ast.Call) and isinstance(n.func, ast.Name) and n.func.id in kernel_names}
    names = {a.arg for a in fdef.args.args} | {n.id for n in ast.walk(fdef) if isinstance(n, ast.Name) and id(n) not in callees}
    for x in sorted(names):
        if x in ("np", "numba", "range", "len"):
            continue        # module names and builtins the translation scheme knows
        if x in LEAN_RESERVED or "__" in x or x in kernel_names or not x.isidentifier() or not x.isascii():
            raise Unsupported("identifier %r is reserved in the translation" % x)


def lean_ty(t):
    if isinstance(t, tuple):
        return " × ".join(LEAN_TY[x] for x in t) if t else "Unit"
    return LEAN_TY[t]


def base_name(e):
    """the array variable a (possibly nested) subscript expression is rooted in"""
    while isinstance(e, ast.Subscript):
        e = e.value
    return e.id if isinstance(e, ast.Name) else None


def names_loaded(node):
    return {n.id for n in ast.walk(node) if isinstance(n, ast.Name) and isinstance(n.ctx, ast.Load)}


def stored_names(stmts):
    """names (re)bound anywhere inside the statements, arrays that are stored into included"""
    out = []
    for s in stmts:
        for n in ast.walk(s):
            if isinstance(n, ast.Name) and isinstance(n.ctx, ast.Store):
                out.append(n.id)
            elif isinstance(n, ast.Subscript) and isinstance(n.ctx, ast.Store) and isinstance(n.value, ast.Name):
                out.append(n.value.id)
            elif isinstance(n, ast.Call) and isinstance(n.func, ast.Attribute) and n.func.attr == "append" and isinstance(n.func.value, ast.Name):
                # `lst.append(v)` mutates `lst` (translated as `let lst := lst.push v`): it is a store, so the list is
                # loop-carried; without this a list appended to inside a loop came back unchanged after the loop
                out.append(n.func.value.id)
            elif isinstance(n, ast.Call) and isinstance(n.func, ast.Attribute) and n.func.attr == "append" and isinstance(n.func.value, ast.Subscript) \
                    and isinstance(n.func.value.value, ast.Name):
                out.append(n.func.value.value.id)      # `L[r].append(x)` stores into the list of lists `L`
            elif isinstance(n, ast.Call) and isinstance(n.func, ast.Attribute) and n.func.attr == "add" and isinstance(n.func.value, ast.Subscript) \
                    and isinstance(n.func.value.value, ast.Name):
                out.append(n.func.value.value.id)      # `S[r].add(x)` stores into the list of sets `S`
            elif isinstance(n, ast.Call) and isinstance(n.func, ast.Name) and n.func.id in MUTATING:
                callee = MUTATING[n.func.id]
                for prm, arg in zip(callee.ptypes, n.args):
                    if prm in callee.mut and base_name(arg):
                        out.append(base_name(arg))
            elif isinstance(n, ast.AugAssign):
                t = n.target
                out.append(t.id if isinstance(t, ast.Name) else t.value.id if isinstance(t, ast.Subscript) and isinstance(t.value, ast.Name) else "?")
    seen, res = set(), []
    for x in out:
        if x not in seen:
            seen.add(x); res.append(x)
    return res


def _rbw(stmts, v):
    """'read' if some path reads `v` before rebinding it, 'written' if every path rebinds it first, else 'neither'"""
    for s in stmts:
        if isinstance(s, ast.If):
            if v in names_loaded(s.test): return "read"
            a, b = _rbw(s.body, v), _rbw(s.orelse, v)
            if "read" in (a, b): return "read"
            if a == b == "written": return "written"
            if "written" in (a, b):
                # bound on one path only: a later read may or may not see it; treat a later read as a read
                continue
            continue
        if isinstance(s, (ast.While, ast.For)):
            hdr = s.test if isinstance(s, ast.While) else s.iter
            if v in names_loaded(hdr): return "read"
            if isinstance(s, ast.For) and isinstance(s.target, ast.Name) and s.target.id == v:
                continue
            if _rbw(s.body, v) == "read": return "read"
            continue
        if isinstance(s, ast.Assign) and len(s.targets) == 1 and isinstance(s.targets[0], ast.Name) and s.targets[0].id == v:
            return "read" if v in names_loaded(s.value) else "written"
        if v in names_loaded(s): return "read"
        if v in stored_names([s]): return "read"   # unusual binding form: give up (conservative)
    return "neither"


def first_use_is_load(stmts, v):
    return _rbw(stmts, v) == "read"


class _Rename(ast.NodeTransformer):
    def __init__(self, tuples, ren):
        self.tuples, self.ren = tuples, ren

    def visit_Subscript(self, n):
        self.generic_visit(n)
        if isinstance(n.value, ast.Name) and n.value.id in self.tuples and isinstance(n.slice, ast.Constant) \
                and isinstance(n.slice.value, int) and 0 <= n.slice.value < self.tuples[n.value.id]:
            return ast.copy_location(ast.Name(id="%s_%d" % (n.value.id, n.slice.value), ctx=n.ctx), n)
        return n

    def visit_Name(self, n):
        if n.id in self.ren:
            return ast.copy_location(ast.Name(id=self.ren[n.id], ctx=n.ctx), n)
        return n


def preprocess(fdef, ptypes, flat):
    """tuple parameters are flattened (`current_graph[1]` -> `current_graph_1`); a local that is bound exactly once, at the
    top level of the function, to an array parameter is an alias of it (numpy views share memory) and is renamed away"""
    tuples = {p: len(t) for p, t in ptypes.items() if isinstance(t, tuple)}
    fdef = _Rename(tuples, {}).visit(fdef)
    for t in tuples:
        if t in names_loaded(fdef):
            raise Unsupported("tuple parameter %s used other than through a constant subscript" % t)
    ren, body = {}, []
    for st in fdef.body:
        if isinstance(st, ast.Assign) and len(st.targets) == 1 and isinstance(st.targets[0], ast.Name) and isinstance(st.value, ast.Name) \
                and st.value.id in flat and flat[st.value.id].startswith("arr"):
            a, b = st.targets[0].id, st.value.id
            binds = [n for n in ast.walk(fdef) if isinstance(n, ast.Name) and isinstance(n.ctx, ast.Store) and n.id in (a, b)]
            if len(binds) != 1 or a in flat:
                raise Unsupported("alias %s of %s is rebound" % (a, b))
            ren[a] = b
        else:
            body.append(st)
    fdef.body = body
    fdef = _Rename({}, ren).visit(fdef)
    ast.fix_missing_locations(fdef)
    return fdef


class Fn:
    def __init__(self, fdef, ptypes, ret):
        got = [a.arg for a in fdef.args.args]
        if got != [p for p in ptypes if p != "top"] and got != list(ptypes):
            raise Unsupported("parameter list changed: %s" % got)
        if "top" in ptypes and "top" not in got and any(isinstance(n, ast.Name) and n.id == "top" for n in ast.walk(fdef)):
            raise Unsupported("identifier 'top' is reserved in the translation of this kernel (it stands for np.inf)")
        check_identifiers(fdef, {k[1] for k in KERNELS})
        flat = {}
        for prm, t in ptypes.items():
            if isinstance(t, tuple):
                for k, tk in enumerate(t):
                    flat["%s_%d" % (prm, k)] = tk
            else:
                flat[prm] = t
        fdef = preprocess(fdef, ptypes, flat)
        self.f, self.name, self.ptypes, self.ret = fdef, fdef.name, flat, ret
        self.mut = [p for p in flat if (flat[p].startswith("arr") or flat[p] == "setLI") and p in stored_names(fdef.body)]
        self.loops = []          # emitted loop definitions (text)
        self.nloop = 0
        self.ntmp = 0

    # ---- result type ---------------------------------------------------------------------------------------
    def ret_parts(self):
        r = self.ret if isinstance(self.ret, tuple) else () if self.ret == "Unit" else (self.ret,)
        return tuple(self.ptypes[m] for m in self.mut) + tuple(r)

    def result_ty(self):
        return lean_ty(self.ret_parts())

    def result_val(self, vals):
        parts = list(self.mut) + list(vals)
        return "()" if not parts else parts[0] if len(parts) == 1 else "(" + ", ".join(parts) + ")"

    # ---- expressions ---------------------------------------------------------------------------------------
    def ty(self, e, env):
        if isinstance(e, ast.Constant):
            if isinstance(e.value, bool): return "Bool"
            if isinstance(e.value, int): return "Int"
            if isinstance(e.value, float): return "P"
        if isinstance(e, ast.Name):
            if e.id not in env: raise Unsupported("read of unbound name " + e.id)
            return env[e.id]
        if isinstance(e, ast.Subscript):
            if isinstance(e.slice, ast.Slice):
                return self.ty(e.value, env)
            if isinstance(e.value, ast.Attribute) and e.value.attr == "shape":
                return "Int"
            t = self.ty(e.value, env)
            if isinstance(e.slice, ast.Tuple) and len(e.slice.elts) == 2 and t in ("arr2P", "arr2I"):
                a, b = e.slice.elts
                if isinstance(a, ast.Slice): raise Unsupported("column slice " + ast.unparse(e))
                return ELEM[t] if isinstance(b, ast.Slice) else ELEM[ELEM[t]]
            if t in ELEM and not isinstance(e.slice, ast.Tuple): return ELEM[t]
        if isinstance(e, ast.Call) and isinstance(e.func, ast.Name) and e.func.id == "len" and len(e.args) == 1:
            return "Int"
        if isinstance(e, ast.Call) and isinstance(e.func, ast.Name) and e.func.id == "int" and len(e.args) == 1 and not e.keywords \
                and self.ty(e.args[0], env) == "Int":
            return "Int"
        if isinstance(e, ast.Call) and isinstance(e.func, ast.Name) and env.get(e.func.id) == "distFn" and len(e.args) == 2 and not e.keywords \
                and all(self.ty(a, env) == "arrP" for a in e.args):
            return "P"
        if isinstance(e, ast.Attribute) and ast.unparse(e) == "np.inf" and env.get("top") == "P":
            return "P"
        if isinstance(e, ast.Tuple) and len(e.elts) == 3 and [self.ty(x, env) for x in e.elts] == ["Int", "Int", "P"]:
            return "upd"
        if isinstance(e, ast.ListComp) and self.placeholder_lists(e, env):
            return "updLL"
        if isinstance(e, ast.Call) and isinstance(e.func, ast.Name) and e.func.id in MUTATING:
            r = MUTATING[e.func.id].ret
            if isinstance(r, str) and r != "Unit": return r
        if isinstance(e, ast.BinOp):
            a, b = self.ty(e.left, env), self.ty(e.right, env)
            if a == b and (a == "Int" or not isinstance(e.op, ast.Mod)): return a
        if isinstance(e, ast.UnaryOp) and isinstance(e.op, ast.USub):
            return self.ty(e.operand, env)
        if isinstance(e, ast.Call) and isinstance(e.func, ast.Attribute) and e.func.attr in ("zeros", "empty") and len(e.keywords) == 1:
            d = ast.unparse(e.keywords[0].value)
            if d in ("np.int32", "np.int64"): return "arrI"
            if d in ("np.float32", "np.float64"): return "arrP"
        if isinstance(e, ast.Call) and ast.unparse(e.func) == "numba.typed.List.empty_list" and len(e.args) == 1:
            d = ast.unparse(e.args[0])
            if d in ("numba.types.int32", "numba.types.int64"): return "arrI"
            if d in ("numba.types.float32", "numba.types.float64"): return "arrP"
        raise Unsupported("cannot type " + ast.unparse(e))

    def placeholder_lists(self, e, env):
        """`[[t] for v in range(E)]` with `t` a triple that does not mention `v`: (E, t), else None"""
        if len(e.generators) != 1: return None
        g = e.generators[0]
        if g.ifs or g.is_async or not isinstance(g.target, ast.Name) or not (isinstance(g.iter, ast.Call) and isinstance(g.iter.func, ast.Name)
                and g.iter.func.id == "range" and len(g.iter.args) == 1 and not g.iter.keywords):
            return None
        if not (isinstance(e.elt, ast.List) and len(e.elt.elts) == 1) or g.target.id in names_loaded(e.elt):
            return None
        if self.ty(g.iter.args[0], env) != "Int" or self.ty(e.elt.elts[0], env) != "upd":
            return None
        return g.iter.args[0], e.elt.elts[0]

    def ex(self, e, env):
        """Lean term (inside a do block, loads are nested actions)"""
        if isinstance(e, ast.Constant):
            if isinstance(e.value, bool): return "true" if e.value else "false"
            if isinstance(e.value, int): return "(%d : Int)" % e.value
            if isinstance(e.value, float) and e.value == 0.0: return "(0 : P)"
        if isinstance(e, ast.Name):
            self.ty(e, env); return e.id
        if isinstance(e, ast.Call) and isinstance(e.func, ast.Name) and e.func.id == "int" and self.ty(e, env) == "Int":
            return self.ex(e.args[0], env)          # int(x) of an integer
        if isinstance(e, ast.Call) and isinstance(e.func, ast.Name) and env.get(e.func.id) == "distFn" and self.ty(e, env) == "P":
            return "(%s %s %s)" % (e.func.id, self.ex(e.args[0], env), self.ex(e.args[1], env))
        if isinstance(e, ast.Attribute) and self.ty(e, env) == "P":
            return "top"
        if isinstance(e, ast.Tuple) and self.ty(e, env) == "upd":
            return "(%s, %s, %s)" % tuple(self.ex(x, env) for x in e.elts)
        if isinstance(e, ast.ListComp) and self.ty(e, env) == "updLL":
            cnt, tup = self.placeholder_lists(e, env)
            return "(Array.replicate (%s).toNat #[%s] : Array (Array (Int × Int × P)))" % (self.ex(cnt, env), self.ex(tup, env))
        if isinstance(e, ast.Subscript) and isinstance(e.value, ast.Attribute) and e.value.attr == "shape" and isinstance(e.value.value, ast.Name) \
                and isinstance(e.slice, ast.Constant) and e.slice.value == 1 and self.ty(e.value.value, env) in ("arr2P", "arr2I"):
            return "(ncols %s : Int)" % e.value.value.id
        if isinstance(e, ast.Subscript):
            if isinstance(e.value, ast.Attribute) and e.value.attr == "shape" and isinstance(e.value.value, ast.Name) \
                    and isinstance(e.slice, ast.Constant) and e.slice.value == 0 and self.ty(e.value.value, env) in ELEM:
                return "(%s.size : Int)" % e.value.value.id
            if isinstance(e.slice, ast.Slice):
                s = e.slice
                if s.lower is None and s.step is None and s.upper is not None and isinstance(e.value, ast.Name) and self.ty(e.value, env).startswith("arr"):
                    return "(← take %s %s)" % (e.value.id, self.ex(s.upper, env))
                raise Unsupported("slice " + ast.unparse(e))
            if isinstance(e.value, ast.Name) and self.ty(e.value, env) in ("arrP", "arrI"):
                return "(← rd %s %s)" % (e.value.id, self.ex(e.slice, env))
            if isinstance(e.value, ast.Attribute):
                raise Unsupported("expression " + ast.unparse(e))
            t = self.ty(e.value, env)
            if isinstance(e.slice, ast.Tuple) and len(e.slice.elts) == 2 and t in ("arr2P", "arr2I"):
                a, b = e.slice.elts
                if isinstance(b, ast.Slice):
                    if b.lower is None and b.step is None and b.upper is not None:
                        return "(← take (← rd %s %s) %s)" % (self.ex(e.value, env), self.ex(a, env), self.ex(b.upper, env))
                    raise Unsupported("slice " + ast.unparse(e))
                return "(← rd (← rd %s %s) %s)" % (self.ex(e.value, env), self.ex(a, env), self.ex(b, env))
            if t in ELEM and not isinstance(e.slice, (ast.Tuple, ast.Slice)):
                return "(← rd %s %s)" % (self.ex(e.value, env), self.ex(e.slice, env))
        if isinstance(e, ast.Call) and isinstance(e.func, ast.Name) and e.func.id == "len" and len(e.args) == 1 \
                and self.ty(e.args[0], env) in ELEM:
            return "((%s).size : Int)" % self.ex(e.args[0], env)
        if isinstance(e, ast.BinOp):
            a, b, t = self.ex(e.left, env), self.ex(e.right, env), self.ty(e, env)
            op = {ast.Add: "+", ast.Sub: "-", ast.Mult: "*"}.get(type(e.op))
            if op and t in ("Int", "P"): return "(%s %s %s)" % (a, op, b)
            if isinstance(e.op, ast.Mod) and t == "Int": return "(%s %% %s)" % (a, b)   # Int.emod = Python % for a positive modulus
            bit = {ast.RShift: "shr", ast.LShift: "shl", ast.BitAnd: "band", ast.BitOr: "bor"}.get(type(e.op))
            if bit and t == "Int": return "(← %s %s %s)" % (bit, a, b)    # defined for non-negative operands only (else `none`)
        if isinstance(e, ast.UnaryOp) and isinstance(e.op, ast.USub) and self.ty(e, env) in ("Int", "P"):
            return "(-%s)" % self.ex(e.operand, env)
        if isinstance(e, ast.Call) and isinstance(e.func, ast.Attribute) and e.func.attr == "zeros" and len(e.args) == 1:
            t = self.ty(e, env)
            return "(zeros %s : %s)" % (self.ex(e.args[0], env), LEAN_TY[t])
        if isinstance(e, ast.Call) and ast.unparse(e.func) == "numba.typed.List.empty_list":
            return "(#[] : %s)" % LEAN_TY[self.ty(e, env)]
        raise Unsupported("expression " + ast.unparse(e))

    def cond(self, e, env, then, els, ind):
        """lines for `if e then <then()> else <els()>` with short-circuit and/or/not"""
        if isinstance(e, ast.BoolOp) and isinstance(e.op, ast.And):
            def chain(vals):
                if len(vals) == 1: return lambda i: self.cond(vals[0], env, then, els, i)
                return lambda i: self.cond(vals[0], env, chain(vals[1:]), els, i)
            return chain(e.values)(ind)
        if isinstance(e, ast.BoolOp) and isinstance(e.op, ast.Or):
            def chain(vals):
                if len(vals) == 1: return lambda i: self.cond(vals[0], env, then, els, i)
                return lambda i: self.cond(vals[0], env, then, chain(vals[1:]), i)
            return chain(e.values)(ind)
        if isinstance(e, ast.UnaryOp) and isinstance(e.op, ast.Not):
            return self.cond(e.operand, env, els, then, ind)
        if isinstance(e, ast.Constant) and e.value is True:
            return then(ind)
        if isinstance(e, ast.Compare) and len(e.ops) == 1:
            a, b = e.left, e.comparators[0]
            ta, tb = self.ty(a, env), self.ty(b, env)
            if isinstance(e.ops[0], (ast.In, ast.NotIn)):
                if ta != "Int" or tb != "setI":
                    raise Unsupported("membership test " + ast.unparse(e))
                c = "(%s).contains %s = true" % (self.ex(b, env), self.ex(a, env))
                yes, no = (then, els) if isinstance(e.ops[0], ast.In) else (els, then)
                return [ind + "if %s then" % c] + yes(ind + "  ") + [ind + "else"] + no(ind + "  ")
            zero = lambda x: isinstance(x, ast.Constant) and not isinstance(x.value, bool) and x.value == 0
            if ta == "P" and zero(b): b, tb = ast.Constant(value=0.0), "P"
            if tb == "P" and zero(a): a, ta = ast.Constant(value=0.0), "P"
            if ta != tb or ta not in ("Int", "P"):
                raise Unsupported("comparison of %s with %s in %s" % (ta, tb, ast.unparse(e)))
            op = {ast.Lt: "<", ast.Gt: ">", ast.LtE: "≤", ast.GtE: "≥", ast.Eq: "=", ast.NotEq: "≠"}.get(type(e.ops[0]))
            if op is None: raise Unsupported("comparison " + ast.unparse(e))
            c = "%s %s %s" % (self.ex(a, env), op, self.ex(b, env))
            return [ind + "if %s then" % c] + then(ind + "  ") + [ind + "else"] + els(ind + "  ")
        raise Unsupported("condition " + ast.unparse(e))

    # ---- statements ----------------------------------------------------------------------------------------
    def block(self, stmts, env, ctx, ind):
        """ctx = dict(k=.., brk=.., cont=.., ret=..): each maps (env, ind) -> lines"""
        if not stmts:
            return ctx["k"](env, ind)
        s, rest = stmts[0], stmts[1:]
        if isinstance(s, ast.Expr) and isinstance(s.value, ast.Constant):      # docstring
            return self.block(rest, env, ctx, ind)
        if isinstance(s, ast.Pass):
            return self.block(rest, env, ctx, ind)
        if isinstance(s, ast.Break):
            return ctx["brk"](env, ind)
        if isinstance(s, ast.Continue):
            return ctx["cont"](env, ind)
        if isinstance(s, ast.Return):
            return ctx["ret"](s.value, env, ind)
        if isinstance(s, ast.Expr) and isinstance(s.value, ast.Call) and isinstance(s.value.func, ast.Attribute) and s.value.func.attr == "append" \
                and isinstance(s.value.func.value, ast.Name) and len(s.value.args) == 1 and not s.value.keywords:
            a = s.value.func.value.id
            at = self.ty(s.value.func.value, env)
            if not at.startswith("arr") or self.ty(s.value.args[0], env) != ("P" if at == "arrP" else "Int"):
                raise Unsupported("append " + ast.unparse(s))
            return [ind + "let %s := %s.push %s" % (a, a, self.ex(s.value.args[0], env))] + self.block(rest, env, ctx, ind)
        if isinstance(s, ast.Expr) and isinstance(s.value, ast.Call) and isinstance(s.value.func, ast.Attribute) and s.value.func.attr == "append" \
                and isinstance(s.value.func.value, ast.Subscript) and isinstance(s.value.func.value.value, ast.Name) \
                and not isinstance(s.value.func.value.slice, (ast.Slice, ast.Tuple)) and len(s.value.args) == 1 and not s.value.keywords:
            tgt = s.value.func.value
            if self.ty(tgt.value, env) != "updLL" or self.ty(s.value.args[0], env) != "upd" or self.ty(tgt.slice, env) != "Int":
                raise Unsupported("append " + ast.unparse(s))
            L, r, x = tgt.value.id, self.ex(tgt.slice, env), self.ex(s.value.args[0], env)
            return [ind + "let %s ← wr %s %s ((← rd %s %s).push %s)" % (L, L, r, L, r, x)] + self.block(rest, env, ctx, ind)
        if isinstance(s, ast.Expr) and isinstance(s.value, ast.Call) and isinstance(s.value.func, ast.Attribute) and s.value.func.attr == "add" \
                and isinstance(s.value.func.value, ast.Subscript) and isinstance(s.value.func.value.value, ast.Name) \
                and not isinstance(s.value.func.value.slice, (ast.Slice, ast.Tuple)) and len(s.value.args) == 1 and not s.value.keywords:
            tgt = s.value.func.value
            if self.ty(tgt.value, env) != "setLI" or self.ty(s.value.args[0], env) != "Int" or self.ty(tgt.slice, env) != "Int":
                raise Unsupported("set add " + ast.unparse(s))
            S, r, x = tgt.value.id, self.ex(tgt.slice, env), self.ex(s.value.args[0], env)
            return [ind + "let %s ← wr %s %s (%s :: (← rd %s %s))" % (S, S, r, x, S, r)] + self.block(rest, env, ctx, ind)
        if isinstance(s, ast.AugAssign):
            s = ast.Assign(targets=[s.target], value=ast.BinOp(left=self.as_load(s.target), op=s.op, right=s.value))
        if isinstance(s, ast.Expr) and isinstance(s.value, ast.Call) and isinstance(s.value.func, ast.Name) and s.value.func.id in MUTATING:
            lines, env2 = self.call(s.value, None, env, ind)
            return lines + self.block(rest, env2, ctx, ind)
        if isinstance(s, ast.Assign) and len(s.targets) == 1 and isinstance(s.targets[0], ast.Name) and isinstance(s.value, ast.Call) \
                and isinstance(s.value.func, ast.Name) and s.value.func.id in MUTATING:
            lines, env2 = self.call(s.value, s.targets[0].id, env, ind)
            return lines + self.block(rest, env2, ctx, ind)
        if isinstance(s, ast.Assign) and len(s.targets) == 1 and isinstance(s.targets[0], ast.Tuple) and not isinstance(s.value, ast.Tuple) \
                and all(isinstance(x, ast.Name) for x in s.targets[0].elts) and self.ty(s.value, env) == "upd" and len(s.targets[0].elts) == 3:
            names = [x.id for x in s.targets[0].elts]
            env2 = dict(env)
            for nm, tnm in zip(names, ("Int", "Int", "P")):
                if nm in env and env[nm] != tnm: raise Unsupported("%s changes type" % nm)
                env2[nm] = tnm
            return [ind + "let (%s) := %s" % (", ".join(names), self.ex(s.value, env))] + self.block(rest, env2, ctx, ind)
        if isinstance(s, ast.Assign) and len(s.targets) == 1:
            t = s.targets[0]
            if isinstance(t, ast.Tuple) and isinstance(s.value, ast.Tuple) and len(t.elts) == len(s.value.elts):
                lines, tmps = [], []
                for v in s.value.elts:                       # right-hand sides first (Python evaluation order)
                    self.ntmp += 1
                    tmp = "t__%d" % self.ntmp
                    lines.append(ind + "let %s := %s" % (tmp, self.ex(v, env)))
                    env = dict(env); env[tmp] = self.ty(v, env)
                    tmps.append(tmp)
                for tt, tmp in zip(t.elts, tmps):
                    l, env = self.assign(tt, ast.Name(id=tmp, ctx=ast.Load()), env, ind)
                    lines += l
                return lines + self.block(rest, env, ctx, ind)
            l, env2 = self.assign(t, s.value, env, ind)
            return l + self.block(rest, env2, ctx, ind)
        if isinstance(s, ast.If):
            return self.cond(s.test, env,
                             lambda i: self.block(s.body + rest, env, ctx, i),
                             lambda i: self.block(s.orelse + rest, env, ctx, i), ind)
        if isinstance(s, ast.While) and not s.orelse:
            body = s.body if (isinstance(s.test, ast.Constant) and s.test.value is True) else [ast.If(test=s.test, body=s.body, orelse=[ast.Break()])]
            return self.loop(body, None, rest, env, ctx, ind)
        if isinstance(s, ast.For) and not s.orelse and isinstance(s.target, ast.Name) and isinstance(s.iter, ast.Call) \
                and ast.unparse(s.iter.func) in ("range", "numba.prange") and 1 <= len(s.iter.args) <= 3 and not s.iter.keywords:
            a = s.iter.args
            start = a[0] if len(a) >= 2 else ast.Constant(value=0)
            stop = a[1] if len(a) >= 2 else a[0]
            step = a[2] if len(a) == 3 else ast.Constant(value=1)
            if isinstance(step, ast.UnaryOp) and isinstance(step.op, ast.USub) and isinstance(step.operand, ast.Constant):
                step = ast.Constant(value=-step.operand.value)
            if not (isinstance(step, ast.Constant) and isinstance(step.value, int) and step.value != 0):
                raise Unsupported("range step " + ast.unparse(s.iter))
            v = s.target.id
            if v in stored_names(s.body):
                raise Unsupported("loop variable %s assigned in the body" % v)
            if first_use_is_load(rest, v):
                raise Unsupported("loop variable %s read after the loop" % v)
            self.nloop_stop = getattr(self, "nloop_stop", 0) + 1
            stopv = "stop__%d" % self.nloop_stop
            lines = [ind + "let %s := %s" % (stopv, self.ex(stop, env)), ind + "let %s := %s" % (v, self.ex(start, env))]
            env2 = dict(env); env2[stopv] = "Int"; env2[v] = "Int"
            test = ast.Compare(left=ast.Name(id=v, ctx=ast.Load()), ops=[ast.Lt() if step.value > 0 else ast.Gt()], comparators=[ast.Name(id=stopv, ctx=ast.Load())])
            body = [ast.If(test=test, body=s.body, orelse=[ast.Break()])]
            return lines + self.loop(body, (v, step.value), rest, env2, ctx, ind)
        raise Unsupported("statement " + ast.unparse(s).split("\n")[0])

    def as_load(self, t):
        if isinstance(t, ast.Name): return ast.Name(id=t.id, ctx=ast.Load())
        if isinstance(t, ast.Subscript): return ast.Subscript(value=t.value, slice=t.slice, ctx=ast.Load())
        raise Unsupported("augmented target " + ast.unparse(t))

    def assign(self, t, value, env, ind):
        if isinstance(t, ast.Name):
            ty = self.ty(value, env)
            if t.id in env and env[t.id] != ty:
                raise Unsupported("%s changes type %s -> %s" % (t.id, env[t.id], ty))
            env2 = dict(env); env2[t.id] = ty
            return [ind + "let %s := %s" % (t.id, self.ex(value, env))], env2
        if isinstance(t, ast.Subscript) and isinstance(t.value, ast.Name) and isinstance(t.slice, ast.Tuple) and len(t.slice.elts) == 2 \
                and not any(isinstance(x, ast.Slice) for x in t.slice.elts) and self.ty(t.value, env) in ("arr2P", "arr2I"):
            a = t.value.id
            if self.ty(value, env) != ELEM[ELEM[env[a]]]:
                raise Unsupported("store " + ast.unparse(t))
            i, j = (self.ex(x, env) for x in t.slice.elts)
            return [ind + "let %s ← wr2 %s %s %s %s" % (a, a, i, j, self.ex(value, env))], env
        if isinstance(t, ast.Subscript) and isinstance(t.value, ast.Name) and not isinstance(t.slice, (ast.Slice, ast.Tuple)):
            a = t.value.id
            at = self.ty(t.value, env)
            if not at.startswith("arr") or self.ty(value, env) != ("P" if at == "arrP" else "Int"):
                raise Unsupported("store " + ast.unparse(t))
            return [ind + "let %s ← wr %s %s %s" % (a, a, self.ex(t.slice, env), self.ex(value, env))], env
        raise Unsupported("assignment target " + ast.unparse(t))

    def call(self, c, target, env, ind):
        """call of an already translated kernel; array arguments may be whole arrays, rows `A[p]` of a 2-D array or row
        prefixes `A[i, :j]` (numpy views: what the callee stores is written back into the caller's array)"""
        callee = MUTATING[c.func.id]
        if c.keywords or len(c.args) != len(callee.ptypes):
            raise Unsupported("call " + ast.unparse(c))
        args, back = [], []
        for (prm, pt), a in zip(callee.ptypes.items(), c.args):
            if self.ty(a, env) != pt:
                if not (pt == "Int" and self.ty(a, env) == "Int"):
                    raise Unsupported("argument %s of %s has type %s, expected %s" % (ast.unparse(a), c.func.id, self.ty(a, env), pt))
            args.append(self.ex(a, env))
            if prm in callee.mut:
                if isinstance(a, ast.Name):
                    back.append(("name", a.id, None, None))
                elif isinstance(a, ast.Subscript) and isinstance(a.value, ast.Name) and not isinstance(a.slice, (ast.Tuple, ast.Slice)):
                    back.append(("row", a.value.id, self.ex(a.slice, env), None))
                elif isinstance(a, ast.Subscript) and isinstance(a.value, ast.Name) and isinstance(a.slice, ast.Tuple) and isinstance(a.slice.elts[1], ast.Slice):
                    back.append(("prefix", a.value.id, self.ex(a.slice.elts[0], env), self.ex(a.slice.elts[1].upper, env)))
                else:
                    raise Unsupported("mutated argument " + ast.unparse(a))
        bases = [b[1] for b in back]
        if len(set(bases)) != len(bases):
            raise Unsupported("the same array is handed twice to a mutating callee: " + ast.unparse(c))
        self.ntmp += 1
        k = self.ntmp
        parts = ["m__%d_%d" % (k, i) for i in range(len(back))]
        rparts = callee.ret_parts()
        nret = len(rparts) - len(callee.mut)
        rv = ["rv__%d_%d" % (k, i) for i in range(nret)]
        pat = parts + rv
        lines = [ind + "let %s ← %s fuel %s" % (("(" + ", ".join(pat) + ")") if len(pat) > 1 else pat[0] if pat else "_", callee.name, " ".join(args))]
        for (kind, base, i, j), m in zip(back, parts):
            if kind == "name": lines.append(ind + "let %s := %s" % (base, m))
            elif kind == "row": lines.append(ind + "let %s ← wr %s %s %s" % (base, base, i, m))
            else: lines.append(ind + "let %s ← wrPrefix %s %s %s %s" % (base, base, i, j, m))
        env2 = dict(env)
        if target is not None:
            if nret != 1: raise Unsupported("call result arity " + ast.unparse(c))
            t = rparts[-1]
            if target in env and env[target] != t: raise Unsupported("%s changes type" % target)
            env2[target] = t
            lines.append(ind + "let %s := %s" % (target, rv[0]))
        return lines, env2

    def loop(self, body, counter, rest, env, ctx, ind):
        k = self.nloop; self.nloop += 1
        lname = "%s.loop%d" % (self.name, k)
        assigned = stored_names(body)
        carried = [x for x in assigned if x in env]
        if counter and counter[0] not in carried:
            carried.append(counter[0])
        for x in assigned:
            if x not in env and first_use_is_load(rest, x):
                raise Unsupported("%s is first bound inside a loop and read after it" % x)
        has_ret = any(isinstance(n, ast.Return) for b in body for n in ast.walk(b))
        ro = [x for x in env if x not in carried and (any(x in names_loaded(b) for b in body) or (has_ret and x in self.mut))]
        cty = [LEAN_TY[env[x]] for x in carried]
        state_ty = " × ".join(cty) if cty else "Unit"
        tup = lambda: ("(" + ", ".join(carried) + ")") if len(carried) > 1 else (carried[0] if carried else "()")
        call = lambda e, i: [i + " ".join([lname] + ro + ["fuel"] + carried)]

        def again(e, i):
            if counter:
                return [i + "let %s := (%s + (%d : Int))" % (counter[0], counter[0], counter[1])] + call(e, i)
            return call(e, i)
        inner = dict(k=again, cont=again,
                     brk=lambda e, i: [i + "pure (.next %s)" % tup()],
                     ret=lambda v, e, i: [i + "pure (.ret %s)" % self.retval(v, e)],
                     retraw=lambda r: "pure (.ret %s)" % r)
        blines = self.block(body, dict(env), inner, "      ")
        sig = " ".join("(%s : %s)" % (x, LEAN_TY[env[x]]) for x in ro)
        pats = ", ".join(["0"] + ["_"] * len(carried)), ", ".join(["fuel+1"] + carried)
        self.loops.append("\n".join(
            ["def %s %s : Nat%s → Option (LoopOut (%s) (%s))" % (lname, sig, "".join(" → " + t for t in cty), state_ty, self.result_ty()),
             "  | %s => none" % pats[0],
             "  | %s => do" % pats[1]] + blines))
        out_env = dict(env)
        lines = [ind + "match ← %s with" % " ".join([lname] + ro + ["fuel"] + carried),
                 ind + "| .ret r__ => " + ctx["retraw"]("r__"),
                 ind + "| .next %s => do" % tup()]
        return lines + self.block(rest, out_env, ctx, ind + "    ")

    def retval(self, v, env):
        if v is None or (isinstance(v, ast.Constant) and v.value is None):
            vals = []
        elif isinstance(v, ast.Tuple):
            vals = [self.ex(x, env) for x in v.elts]
            if tuple(self.ty(x, env) for x in v.elts) != self.ret:
                raise Unsupported("return type changed: " + ast.unparse(v))
        else:
            vals = [self.ex(v, env)]
            if self.ty(v, env) != self.ret:
                raise Unsupported("return type changed: " + ast.unparse(v))
        if len(vals) != (len(self.ret) if isinstance(self.ret, tuple) else 0 if self.ret == "Unit" else 1):
            raise Unsupported("return arity changed")
        return self.result_val(vals)

    def emit(self):
        env = dict(self.ptypes)
        top = dict(k=lambda e, i: [i + "pure %s" % self.retval(None, e)],
                   brk=lambda e, i: (_ for _ in ()).throw(Unsupported("break outside loop")),
                   cont=lambda e, i: (_ for _ in ()).throw(Unsupported("continue outside loop")),
                   ret=lambda v, e, i: [i + "pure %s" % self.retval(v, e)],
                   retraw=lambda r: "pure " + r)
        # `ret` inside loops builds `.ret`, at a call site the raw result is passed on unchanged
        body = self.block(self.f.body, env, top, "  ")
        sig = " ".join("(%s : %s)" % (p, LEAN_TY[t]) for p, t in self.ptypes.items())
        main = "\n".join(["def %s (fuel : Nat) %s : Option (%s) := do" % (self.name, sig, self.result_ty())] + body)
        return "\n\n".join(self.loops + [main])


PRELUDE = '''/-! GENERATED by harness/translate_kernels.py from {repo}/pynndescent — do not edit.
Definitions only; the theorems about them live in Proofs/Gen*.lean and Props/. -/
set_option linter.unusedVariables false
namespace Pynn.GenK

/-- how a translated loop ends: left normally / by `break` with its carried variables, or by a `return` -/
inductive LoopOut (σ ρ : Type) where
  | next (s : σ)
  | ret (r : ρ)

/-- array load; `none` = out of bounds (undefined behaviour in the numba kernel) -/
@[inline] def rd {{α : Type}} (a : Array α) (i : Int) : Option α := if 0 ≤ i then a[i.toNat]? else none
/-- array store; `none` = out of bounds -/
@[inline] def wr {{α : Type}} (a : Array α) (i : Int) (v : α) : Option (Array α) :=
  if 0 ≤ i ∧ i.toNat < a.size then some (a.setIfInBounds i.toNat v) else none
/-- `a[:n]` for `0 ≤ n ≤ len a` -/
@[inline] def take {{α : Type}} (a : Array α) (n : Int) : Option (Array α) :=
  if 0 ≤ n ∧ n.toNat ≤ a.size then some (a.extract 0 n.toNat) else none
/-- `A[i, j] = v` -/
@[inline] def wr2 {{α : Type}} (a : Array (Array α)) (i j : Int) (v : α) : Option (Array (Array α)) := do
  wr a i (← wr (← rd a i) j v)
/-- what a callee stored into the view `A[i, :j]` lands in row `i` (its tail `A[i, j:]` untouched) -/
@[inline] def wrPrefix {{α : Type}} (a : Array (Array α)) (i j : Int) (pre : Array α) : Option (Array (Array α)) := do
  let row ← rd a i
  if 0 ≤ j ∧ j.toNat ≤ row.size ∧ pre.size = j.toNat then wr a i (pre ++ row.extract j.toNat row.size) else none
/-- `A.shape[1]` of a rectangular 2-D array (0 when there are no rows) -/
@[inline] def ncols {{α : Type}} (a : Array (Array α)) : Nat := match a[0]? with | some r => r.size | none => 0
/-- `a >> b`, `a << b`, `a & b`, `a | b` on non-negative ints (through `Nat`); `none` for a negative operand (two's
complement widths are not modelled) -/
@[inline] def shr (a b : Int) : Option Int := if 0 ≤ a ∧ 0 ≤ b then some ((a.toNat >>> b.toNat : Nat) : Int) else none
@[inline] def shl (a b : Int) : Option Int := if 0 ≤ a ∧ 0 ≤ b then some ((a.toNat <<< b.toNat : Nat) : Int) else none
@[inline] def band (a b : Int) : Option Int := if 0 ≤ a ∧ 0 ≤ b then some ((a.toNat &&& b.toNat : Nat) : Int) else none
@[inline] def bor (a b : Int) : Option Int := if 0 ≤ a ∧ 0 ≤ b then some ((a.toNat ||| b.toNat : Nat) : Int) else none
/-- `np.zeros(n)` -/
@[inline] def zeros {{α : Type}} [OfNat α 0] (n : Int) : Array α := Array.replicate n.toNat 0

variable {{P : Type}} [LE P] [LT P] [DecidableLE P] [DecidableLT P] [DecidableEq P] [Add P] [Mul P] [Neg P] [OfNat P 0]

'''


def stub(fname, kname, ptypes, ret, why):
    """same signature as the translation would have (tuple parameters flattened, stored-into arrays per STUB_MUT), body
    `none`: keeps the driver building, makes every theorem that says the kernel returns `some ..` unprovable"""
    flat = {}
    for prm, t in ptypes.items():
        if isinstance(t, tuple):
            for k, tk in enumerate(t):
                flat["%s_%d" % (prm, k)] = tk
        else:
            flat[prm] = t
    r = ret if isinstance(ret, tuple) else () if ret == "Unit" else (ret,)
    parts = tuple(flat[m] for m in STUB_MUT[kname]) + tuple(r)
    sig = " ".join("(%s : %s)" % (p, LEAN_TY[t]) for p, t in flat.items())
    return ("/-- `%s.%s` NOT TRANSLATED: %s -/\ndef %s (fuel : Nat) %s : Option (%s) := none\n"
            % (fname[:-3], kname, why.replace("-/", "- /"), kname, sig, lean_ty(parts)))


# arrays each kernel stores into, in parameter order (only used for the signature of a stub)
STUB_MUT = {"simple_heap_push": ["priorities", "indices"], "checked_heap_push": ["priorities", "indices"],
            "checked_flagged_heap_push": ["priorities", "indices", "flags"], "siftdown": ["heap1", "heap2"],
            "fast_intersection_size": [], "sparse_sum": [], "sparse_mul": [], "sparse_dot_product": [],
            "deheap_sort": ["indices", "distances"],
            "apply_graph_updates_low_memory": ["current_graph_0", "current_graph_1", "current_graph_2"],
            "apply_graph_updates_high_memory": ["current_graph_0", "current_graph_1", "current_graph_2", "in_graph"],
            "init_from_neighbor_graph": ["heap_0", "heap_1", "heap_2"],
            "has_been_visited": [], "mark_visited": ["table"],
            "generate_leaf_updates": [], "generate_graph_updates": []}


def find_def(tree, name):
    for n in tree.body:
        if isinstance(n, ast.FunctionDef) and n.name == name:
            return n
    return None


def main():
    parts, report = [PRELUDE.format(repo=REPO)], []
    trees = {}
    for fname, kname, ptypes, ret in KERNELS:
        path = os.path.join(REPO, "pynndescent", fname)
        try:
            if fname not in trees:
                trees[fname] = ast.parse(open(path).read())
            if "--stub-all" in sys.argv:
                raise Unsupported("stubbed: the generated file did not compile")
            fdef = find_def(trees[fname], kname)
            if fdef is None:
                raise Unsupported("function not found")
            fn = Fn(fdef, ptypes, ret)
            text = fn.emit()
            MUTATING[kname] = fn
            parts.append("/-- `%s.%s` -/\n" % (fname[:-3], kname) + text + "\n")
            report.append((kname, "ok"))
        except Exception as e:  # noqa  (Unsupported, or the translator itself failing on an unforeseen shape)
            why = ("%s" % e) if isinstance(e, Unsupported) else "translator error %s: %s" % (type(e).__name__, e)
            parts.append(stub(fname, kname, ptypes, ret, why))
            report.append((kname, "unsupported: %s" % why))
    if os.environ.get("VERIF_SELFTEST_BREAK_GEN") and "--stub-all" not in sys.argv:
        parts.append('def selftest_broken : Nat := "not a number"   -- self-test of check\'s fallback for a generated file that does not compile\n')
    parts.append("end Pynn.GenK\n")
    text = "\n".join(parts)
    old = open(OUT).read() if os.path.exists(OUT) else None
    if old != text:
        os.makedirs(os.path.dirname(OUT), exist_ok=True)
        with open(OUT, "w") as f:
            f.write(text)
    for k, r in report:
        print("%-28s %s" % (k, r))


if __name__ == "__main__":
    main()
