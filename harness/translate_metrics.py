#!/venv/bin/python
"""numba-subset -> Lean translator for the DENSE METRIC KERNELS of pynndescent/distances.py.

Reads the *source text* of the kernels listed in KERNELS from $PYNN_REPO (default /repo) and rewrites
lean/PynnVerif/Gen/MetricKernels.lean (namespace Pynn.GenMetric, definitions only, Mathlib-free).  The machinery
(statements, loops over fuel, `rd` loads answering `none` out of bounds, `.next` / `.ret` loop results) is the one of
harness/translate_kernels.py (class `Fn`); this file adds the expression language of the float kernels over the generic
carrier `[Pynn.Metrics.Arith α]` of Model/Metrics.lean — the SAME carrier the hand-written model is written over, so that
`Proofs/GenMetrics.lean` / `Props/C07.lean` can prove `GenMetric.<kernel> fuel x y … = some (Metrics.<kernel> x.toList y.toList …)`
for every input WITHOUT any arithmetic law (Arith has none).  Conventions (those of the model):

  * float literal 0.0 / 1.0 -> `(0 : α)` / `(1 : α)`; other integral literals k.0 (and integer literals used as floats)
    -> `Arith.ofNat k`; 0.5 -> `((1 : α) / Arith.ofNat 2)`; `x.shape[0]` used as a float -> `(Arith.ofNat x.size : α)`;
  * `e ** 2` -> `(e * e)` (what numba emits), any other `**` and `pow(a, b)` -> `Arith.pow`; `/` -> `/`;
  * `np.sqrt np.abs np.log np.log2 np.arccos max min np.pi FLOAT32_MAX` -> the `Arith` fields; `np.sin np.cos np.arcsin`
    -> `Trig`; `np.empty(n)` -> `mkEmpty n` (a local array, stored to with `wr`); `vinv[i, j]` -> `rd (rd vinv i) j`; `np.radians(k)` -> `Arith.ofNat k * (Arith.pi / Arith.ofNat 180)`; `float(e)`, `np.float64(e)`,
    `np.float32(e)` -> `e` (precision is not modelled);
  * comparisons of floats: `a < b`, `a <= b` (and `>` / `>=`, flipped) are the decidable `<` / `≤` of Arith, `a == b` is
    the `BEq` test `(a == b)`, `a != b` is `(!(a == b))`; a load-free condition with `and` / `or` / `not` is ONE Boolean
    expression (`&&`, `||`, `!`, order comparisons under `decide`) — conditions that load from arrays keep the
    short-circuit nesting of translate_kernels.py;
  * a Boolean used as a number (`num_equal += x_true and y_true`: numba adds `1.0` or `0.0`) -> `(if b then (1 : α) else 0)`;
    the model counts these in `Nat` and converts with `ofNat`: the two agree on every carrier with `ofNat 0 = 0`,
    `ofNat (n+1) = ofNat n + 1`, `a + 0 = a` (Proofs/GenMetrics.lean, `CountLaws`; ℝ has them);
  * `np.sum(a != 0)` -> `Arith.ofNat (countNZ a)` (an integer count compared with a float);
  * `raise …` -> `none`.
Anything else is `Unsupported`: the kernel is omitted and the theorem that mentions it fails to build.
"""
import ast, os, sys
sys.path.insert(0, os.path.dirname(os.path.abspath(__file__)))
import translate_kernels as tk
from translate_kernels import Unsupported, Fn, find_def

REPO = tk.REPO
OUT = os.path.join(tk.VERIF, "lean", "PynnVerif", "Gen", "MetricKernels.lean")

# in THIS process the float type `P` of the shared machinery is the carrier α (Gen/Kernels.lean is written by a separate
# run of translate_kernels.py and is not affected)
tk.LEAN_TY.update({"P": "α", "arrP": "Array α", "arr2P": "Array (Array α)"})

V = dict(x="arrP", y="arrP")
KERNELS = [
    ("euclidean", V), ("squared_euclidean", V), ("manhattan", V), ("chebyshev", V),
    ("minkowski", dict(x="arrP", y="arrP", p="P")),
    ("standardised_euclidean", dict(x="arrP", y="arrP", sigma="arrP")),
    ("weighted_minkowski", dict(x="arrP", y="arrP", w="arrP", p="P")),
    ("cosine", V), ("alternative_cosine", V), ("dot", V), ("alternative_dot", V), ("true_angular", V),
    ("correlation", V), ("hamming", V), ("canberra", V), ("bray_curtis", V),
    ("jaccard", V), ("alternative_jaccard", V), ("matching", V), ("dice", V), ("kulsinski", V),
    ("rogers_tanimoto", V), ("russellrao", V), ("sokal_michener", V), ("sokal_sneath", V), ("yule", V),
    ("hellinger", V), ("alternative_hellinger", V),
    ("correct_alternative_cosine", dict(d="P")), ("true_angular_from_alt_cosine", dict(d="P")),
    ("correct_alternative_hellinger", dict(d="P")), ("correct_alternative_jaccard", dict(v="P")),
    ("haversine", V), ("tsss", V),
    ("mahalanobis", dict(x="arrP", y="arrP", vinv="arr2P")),
]

UNARY = {"np.sqrt": "Arith.sqrt", "np.abs": "Arith.abs", "np.log": "Arith.log", "np.log2": "Arith.log2",
         "np.arccos": "Arith.arccos", "np.sin": "Trig.sin", "np.cos": "Trig.cos", "np.arcsin": "Trig.arcsin"}
BINARY = {"max": "Arith.max", "min": "Arith.min", "pow": "Arith.pow"}
CASTS = ("float", "np.float64", "np.float32")
CONSTS = {"np.pi": "(Arith.pi : α)", "FLOAT32_MAX": "(Arith.f32max : α)"}


def has_load(e):
    return any(isinstance(n, ast.Subscript) for n in ast.walk(e))


class MFn(Fn):
    uses_trig = False

    # ---- types -----------------------------------------------------------------------------------------------
    def ty(self, e, env):
        if isinstance(e, (ast.Compare, ast.BoolOp)):
            return "Bool"
        if isinstance(e, ast.UnaryOp) and isinstance(e.op, ast.Not):
            return "Bool"
        if isinstance(e, (ast.Name, ast.Attribute)) and ast.unparse(e) in CONSTS:
            return "P"
        if isinstance(e, ast.Call):
            f = ast.unparse(e.func)
            if f in UNARY and len(e.args) == 1 and not e.keywords: return "P"
            if f in BINARY and len(e.args) == 2 and not e.keywords: return "P"
            if f in CASTS and len(e.args) == 1 and not e.keywords: return "P"
            if f == "np.radians" and len(e.args) == 1 and isinstance(e.args[0], ast.Constant) and isinstance(e.args[0].value, int): return "P"
            if f == "np.sum" and len(e.args) == 1 and not e.keywords and self.is_nonzero_mask(e.args[0], env): return "P"
        if isinstance(e, ast.BinOp):
            if isinstance(e.op, (ast.Div, ast.Pow)):
                self.ty(e.left, env); self.ty(e.right, env)
                return "P"
            a, b = self.ty(e.left, env), self.ty(e.right, env)
            if isinstance(e.op, (ast.Add, ast.Sub, ast.Mult)) and "P" in (a, b) and set((a, b)) <= {"P", "Int", "Bool"}:
                return "P"
        return super().ty(e, env)

    def is_nonzero_mask(self, e, env):
        return isinstance(e, ast.Compare) and len(e.ops) == 1 and isinstance(e.ops[0], ast.NotEq) and isinstance(e.left, ast.Name) \
            and env.get(e.left.id) == "arrP" and isinstance(e.comparators[0], ast.Constant) and e.comparators[0].value == 0

    # ---- expressions -------------------------------------------------------------------------------------------
    def lit(self, v):
        """a numeric literal as a value of the carrier"""
        if isinstance(v, bool): raise Unsupported("boolean literal as a number")
        if v == 0: return "(0 : α)"
        if v == 1: return "(1 : α)"
        if v == 0.5: return "((1 : α) / Arith.ofNat 2)"
        if float(v).is_integer() and v > 0: return "(Arith.ofNat %d : α)" % int(v)
        raise Unsupported("literal %r" % (v,))

    def exF(self, e, env):
        """expression as a value of the carrier α (integers / Booleans used as floats are converted)"""
        if isinstance(e, ast.Constant) and isinstance(e.value, (int, float)) and not isinstance(e.value, bool):
            return self.lit(e.value)
        t = self.ty(e, env)
        if t == "P":
            return self.ex(e, env)
        if t == "Bool":
            return "(if %s then (1 : α) else (0 : α))" % self.exB(e, env)
        if t == "Int":
            if isinstance(e, ast.Subscript) and isinstance(e.value, ast.Attribute) and e.value.attr == "shape" and isinstance(e.value.value, ast.Name) \
                    and isinstance(e.slice, ast.Constant) and e.slice.value == 0 and env.get(e.value.value.id) == "arrP":
                return "(Arith.ofNat %s.size : α)" % e.value.value.id
        raise Unsupported("%s (of type %s) used as a float" % (ast.unparse(e), t))

    def exB(self, e, env):
        """Boolean-valued expression as a Lean `Bool`"""
        if isinstance(e, ast.Name) and env.get(e.id) == "Bool":
            return e.id
        if isinstance(e, ast.BoolOp):
            op = " && " if isinstance(e.op, ast.And) else " || "
            return "(" + op.join(self.exB(v, env) for v in e.values) + ")"
        if isinstance(e, ast.UnaryOp) and isinstance(e.op, ast.Not):
            return "(!%s)" % self.exB(e.operand, env)
        if isinstance(e, ast.Compare) and len(e.ops) == 1:
            a, b, op = e.left, e.comparators[0], e.ops[0]
            ta, tb = self.ty(a, env), self.ty(b, env)
            if ta == tb == "Bool" and isinstance(op, (ast.NotEq, ast.Eq)):
                return "(%s %s %s)" % (self.exB(a, env), "!=" if isinstance(op, ast.NotEq) else "==", self.exB(b, env))
            if "P" in (ta, tb):
                A, B = self.exF(a, env), self.exF(b, env)
                if isinstance(op, ast.Eq): return "(%s == %s)" % (A, B)
                if isinstance(op, ast.NotEq): return "(!(%s == %s))" % (A, B)
                if isinstance(op, ast.Lt): return "(decide (%s < %s))" % (A, B)
                if isinstance(op, ast.LtE): return "(decide (%s ≤ %s))" % (A, B)
                if isinstance(op, ast.Gt): return "(decide (%s < %s))" % (B, A)
                if isinstance(op, ast.GtE): return "(decide (%s ≤ %s))" % (B, A)
        raise Unsupported("Boolean expression " + ast.unparse(e))

    def ex(self, e, env):
        if isinstance(e, ast.Constant) and isinstance(e.value, float):
            return self.lit(e.value)
        if isinstance(e, (ast.Name, ast.Attribute)) and ast.unparse(e) in CONSTS:
            return CONSTS[ast.unparse(e)]
        if isinstance(e, (ast.Compare, ast.BoolOp)) or (isinstance(e, ast.UnaryOp) and isinstance(e.op, ast.Not)):
            return self.exB(e, env)
        if isinstance(e, ast.UnaryOp) and isinstance(e.op, ast.USub) and self.ty(e, env) == "P":
            return "(-%s)" % self.exF(e.operand, env)
        if isinstance(e, ast.Call):
            f = ast.unparse(e.func)
            if f in UNARY and len(e.args) == 1 and not e.keywords:
                if UNARY[f].startswith("Trig"): self.uses_trig = True
                return "(%s %s)" % (UNARY[f], self.exF(e.args[0], env))
            if f in BINARY and len(e.args) == 2 and not e.keywords:
                return "(%s %s %s)" % (BINARY[f], self.exF(e.args[0], env), self.exF(e.args[1], env))
            if f in CASTS and len(e.args) == 1 and not e.keywords:
                return self.exF(e.args[0], env)
            if f == "np.radians" and self.ty(e, env) == "P":
                return "((Arith.ofNat %d : α) * ((Arith.pi : α) / Arith.ofNat 180))" % e.args[0].value
            if f == "np.empty" and len(e.args) == 1 and self.ty(e, env) == "arrP":
                return "(mkEmpty %s : Array α)" % self.ex(e.args[0], env)
            if f == "np.sum" and self.ty(e, env) == "P":
                return "(Arith.ofNat (countNZ %s) : α)" % e.args[0].left.id
        if isinstance(e, ast.BinOp) and self.ty(e, env) == "P":
            if isinstance(e.op, ast.Pow):
                if isinstance(e.right, ast.Constant) and e.right.value == 2 and not isinstance(e.right.value, bool):
                    a = self.exF(e.left, env)
                    return "(%s * %s)" % (a, a)
                return "(Arith.pow %s %s)" % (self.exF(e.left, env), self.exF(e.right, env))
            op = {ast.Add: "+", ast.Sub: "-", ast.Mult: "*", ast.Div: "/"}.get(type(e.op))
            if op:
                return "(%s %s %s)" % (self.exF(e.left, env), op, self.exF(e.right, env))
        return super().ex(e, env)

    # ---- conditions --------------------------------------------------------------------------------------------
    def cond(self, e, env, then, els, ind):
        floaty = any(self._is_float_cmp(n, env) for n in ast.walk(e))
        if floaty and not (isinstance(e, ast.BoolOp) and has_load(e)):
            if isinstance(e, ast.Compare) and len(e.ops) == 1 and isinstance(e.ops[0], (ast.Lt, ast.LtE, ast.Gt, ast.GtE)):
                a, b = self.exF(e.left, env), self.exF(e.comparators[0], env)
                c = {ast.Lt: "%s < %s" % (a, b), ast.LtE: "%s ≤ %s" % (a, b), ast.Gt: "%s < %s" % (b, a), ast.GtE: "%s ≤ %s" % (b, a)}[type(e.ops[0])]
            else:
                c = self.exB(e, env)
            return [ind + "if %s then" % c] + then(ind + "  ") + [ind + "else"] + els(ind + "  ")
        return super().cond(e, env, then, els, ind)

    def _is_float_cmp(self, n, env):
        if not (isinstance(n, ast.Compare) and len(n.ops) == 1): return False
        try:
            return "P" in (self.ty(n.left, env), self.ty(n.comparators[0], env)) or "Bool" in (self.ty(n.left, env), self.ty(n.comparators[0], env))
        except Unsupported:
            return False

    # ---- statements --------------------------------------------------------------------------------------------
    def block(self, stmts, env, ctx, ind):
        if stmts and isinstance(stmts[0], ast.Raise):
            return [ind + "none"]
        return super().block(stmts, env, ctx, ind)

    def assign(self, t, value, env, ind):
        # a float local may be assigned an integer / Boolean valued expression only through the conversions of exF
        if isinstance(t, ast.Name) and env.get(t.id) == "P" and self.ty(value, env) != "P":
            return [ind + "let %s := %s" % (t.id, self.exF(value, env))], env
        return super().assign(t, value, env, ind)

    def retval(self, v, env):
        if v is not None and self.ret == "P" and not isinstance(v, ast.Tuple) and self.ty(v, env) != "P":
            return self.result_val([self.exF(v, env)])
        return super().retval(v, env)


PRELUDE = '''import PynnVerif.Model.Metrics2
/-! GENERATED by harness/translate_metrics.py from {repo}/pynndescent/distances.py — do not edit.
Definitions only (the dense metric kernels over the generic carrier `Arith α` of Model/Metrics.lean); the theorems
about them live in Proofs/GenMetrics.lean and Props/C07.lean. -/
set_option linter.unusedVariables false
namespace Pynn.GenMetric
open Pynn.Metrics

/-- how a translated loop ends: left normally / by `break` with its carried variables, or by a `return` -/
inductive LoopOut (σ ρ : Type) where
  | next (s : σ)
  | ret (r : ρ)

/-- array load; `none` = out of bounds (undefined behaviour in the numba kernel) -/
@[inline] def rd {{α : Type}} (a : Array α) (i : Int) : Option α := if 0 ≤ i then a[i.toNat]? else none

/-- array store; `none` = out of bounds -/
@[inline] def wr {{α : Type}} (a : Array α) (i : Int) (v : α) : Option (Array α) :=
  if 0 ≤ i ∧ i.toNat < a.size then some (a.setIfInBounds i.toNat v) else none

/-- `np.empty(n)`: `n` cells of unspecified content (here: zeros; the refinement theorems show that every cell is
stored to before it is loaded) -/
def mkEmpty {{α : Type}} [Zero α] (n : Int) : Array α := Array.replicate n.toNat 0

/-- `np.sum(a != 0)` as an integer -/
def countNZ {{α : Type}} [Arith α] (a : Array α) : Nat := a.toList.countP (fun v => !(v == 0))

variable {{α : Type}} [Arith α]

'''


STUB_ALL = "--stub-all" in sys.argv
MLEAN_TY = {"P": "α", "arrP": "Array α", "Int": "Int", "arr2P": "Array (Array α)"}


def stub(kname, ptypes, why):
    sig = " ".join("(%s : %s)" % (p_, MLEAN_TY.get(t, "α")) for p_, t in ptypes.items())
    return ("/-- `distances.%s` NOT TRANSLATED: %s -/\ndef %s (fuel : Nat) %s : Option α := none\n"
            % (kname, why.replace("-/", "- /"), kname, sig))


def main():
    parts, report = [PRELUDE.format(repo=REPO)], []
    path = os.path.join(REPO, "pynndescent", "distances.py")
    tree = ast.parse(open(path).read())
    for kname, ptypes in KERNELS:
        try:
            if STUB_ALL:
                raise Unsupported("stubbed: the generated file did not compile")
            fdef = find_def(tree, kname)
            if fdef is None:
                raise Unsupported("function not found")
            fn = MFn(fdef, dict(ptypes), "P")
            text = fn.emit()
            if fn.mut:
                raise Unsupported("stores into a parameter")
            if fn.uses_trig:
                parts.append("section\nvariable [Trig α]\n/-- `distances.%s` -/\n" % kname + text + "\nend\n")
            else:
                parts.append("/-- `distances.%s` -/\n" % kname + text + "\n")
            report.append((kname, "ok"))
        except Exception as e:  # noqa  (Unsupported, or the translator itself failing on an unforeseen shape)
            # NOT dropped: a stub of the same signature with body `none`, so that the native driver (which links this file)
            # still builds while every theorem saying the kernel returns `some ..` becomes unprovable
            why = ("%s" % e) if isinstance(e, Unsupported) else "translator error %s: %s" % (type(e).__name__, e)
            parts.append(stub(kname, dict(ptypes), why))
            report.append((kname, "unsupported: %s" % why))
    parts.append("end Pynn.GenMetric\n")
    text = "\n".join(parts)
    old = open(OUT).read() if os.path.exists(OUT) else None
    if old != text:
        os.makedirs(os.path.dirname(OUT), exist_ok=True)
        with open(OUT, "w") as f:
            f.write(text)
    for k, r in report:
        print("%-32s %s" % (k, r))


if __name__ == "__main__":
    main()
