"""C09 — surrogates preserve order and corrections invert.  For every entry of
`distances.fast_distance_alternatives` and `sparse.sparse_fast_distance_alternatives`
(REAL kernels and REAL correction ufuncs):

  A  correction(surrogate(x, y)) ~ clamp(metric(x, y))  on generated pairs incl. zero
     vectors, identical vectors, scaled copies, saturation (similarity <= 0);
  B  for pairs of pairs whose metric values differ by more than the tolerance the
     surrogate orders them the same way (reversed for true_angular, similarity-like);
  C  each scalar correction ufunc swept over float32 bit patterns (stratified 2^20 +
     boundaries in quick; every pattern in thorough): no NaN on the surrogate's range,
     monotone in float order, finite inputs mapped into the documented range, +inf mapped
     to the far end, equal to the float64 reference formula under the tolerance.

Violation keys: surrogate:<dense|sparse>:<name>:<kind>, kind in {exception, nan, inverse,
order, correction-nan, correction-monotone, correction-range, correction-inf,
correction-value}; the true_angular sentinel corner (see refmetrics notes) is
surrogate:dense:true_angular:inverse:sentinel.
"""
import sys, os, json, zlib, math, itertools
sys.path.insert(0, os.path.dirname(os.path.dirname(os.path.abspath(__file__))))
from harness.common import *
setup_numba_cache()
import warnings
from concurrent.futures import ThreadPoolExecutor
import numpy as np
from pynndescent import distances as D
from pynndescent import sparse as S
from harness import refmetrics as R
import numba
# two worker threads: the only parallel kernel reached from here (sinkhorn's K_from_cost, a few dozen
# entries) costs ~85 ms per call in barrier waits with 16 threads on a loaded machine, 0.02 ms with 2
numba.set_num_threads(min(2, numba.get_num_threads()))

MAX_PER_KEY = 2
F32MAX = R.F32MAX
INF = float("inf")
DIMS = [2, 3, 5, 8, 16, 33]
SWEEP_THREADS = 8
SWEEP_CHUNK = 1 << 21


def f32(a):
    return np.ascontiguousarray(np.asarray(a, dtype=np.float64).astype(np.float32))


def enc(x):
    idx = np.flatnonzero(x != 0).astype(np.int32)
    return np.ascontiguousarray(idx), np.ascontiguousarray(x[idx].astype(np.float32))


class Reporter:
    def __init__(self, res):
        self.res = res
        self.listed = {}

    def violation(self, key, what, case):
        k = self.listed.get(key, 0)
        self.listed[key] = k + 1
        if k < MAX_PER_KEY:
            self.res.violation(key, what, case)
        else:
            self.res.count("violation:" + key)


# --------------------------------------------------------------------------
# the corrections: documented range, direction, surrogate's range, float64 formula
# --------------------------------------------------------------------------
def _ref_sqrt(v):
    return np.sqrt(v)


def _ref_one_minus_pow(v):
    return 1.0 - np.exp2(-v)


def _ref_true_angular(v):
    return 1.0 - np.arccos(np.minimum(np.exp2(-v), 1.0)) / np.pi


def _ref_hellinger(v):
    return np.sqrt(np.maximum(1.0 - np.exp2(-v), 0.0))


# lo_in: smallest input the surrogate can produce (the log2 surrogates round to slightly
# negative values for coincident directions: observed down to -3.4e-7; DESIGN D19)
CORR = {
    "euclidean": dict(lo_in=0.0, range=(0.0, INF), far=INF, increasing=True, ref=_ref_sqrt),
    "l2": dict(lo_in=0.0, range=(0.0, INF), far=INF, increasing=True, ref=_ref_sqrt),
    "cosine": dict(lo_in=-1e-6, range=(0.0, 1.0), far=1.0, increasing=True, ref=_ref_one_minus_pow),
    "dot": dict(lo_in=-1e-6, range=(0.0, 1.0), far=1.0, increasing=True, ref=_ref_one_minus_pow),
    "true_angular": dict(lo_in=-1e-6, range=(0.5, 1.0), far=0.5, increasing=False, ref=_ref_true_angular),
    "hellinger": dict(lo_in=-1e-6, range=(0.0, 1.0), far=1.0, increasing=True, ref=_ref_hellinger),
    "jaccard": dict(lo_in=0.0, range=(0.0, 1.0), far=1.0, increasing=True, ref=_ref_one_minus_pow),
}


def bits_of(v):
    return int(np.asarray(v, dtype=np.float32).view(np.uint32))


def boundary_bits():
    b = [0, 1, 2, 3, 0x007FFFFF, 0x00800000, 0x00800001, 0x7F7FFFFF, 0x7F7FFFFE, 0x7F800000]
    for v in (1e-30, 1e-20, 1e-10, 1e-8, 9.9e-8, 1e-7, 1.1e-7, 1e-6, 1e-5, 1e-3, 0.5, 1.0, 2.0, 23.0, 24.0, 25.0,
              52.0, 53.0, 54.0, 126.0, 127.0, 128.0, 149.0, 150.0, 1022.0, 1023.0, 1024.0, 1074.0, 1075.0, 1e10, 1e30):
        k = bits_of(v)
        b += [k - 1, k, k + 1]
    return sorted(set(b))


def sample_inputs(seed, lo_in, n_pos, n_neg):
    """float32 inputs >= lo_in in float order: negatives (descending magnitude), -0.0, +0.0, positives ... +inf."""
    rng = np.random.default_rng([seed, 9])
    top = 0x7F800000
    pos = np.unique(np.concatenate([
        (np.linspace(0, top, n_pos, dtype=np.float64) + rng.uniform(0, top / n_pos, n_pos)).astype(np.uint64).clip(0, top),
        np.array(boundary_bits(), dtype=np.uint64)])).astype(np.uint32)
    parts = []
    negbits = [0x80000000]                                  # -0.0 belongs to every surrogate's range
    if lo_in < 0:
        hi = bits_of(lo_in)
        nb = (np.linspace(0x80000000, hi, n_neg, dtype=np.float64)).astype(np.uint64)
        extra = [0x80000001, 0x80000002, 0x807FFFFF, 0x80800000, bits_of(-1e-30), bits_of(-1e-10), bits_of(-1e-8),
                 bits_of(-1e-7), bits_of(-3.5e-7), hi]
        negbits = np.unique(np.concatenate([nb, np.array(extra, dtype=np.uint64)])).tolist()
    neg = np.array(sorted(negbits, reverse=True), dtype=np.uint32)       # most negative float first
    return np.concatenate([neg, pos]).view(np.float32)


def check_block(u, cfg, name, x):
    """x: float32 inputs in ascending float order (all >= lo_in, no NaN).  Returns dict kind -> (what, input bits)."""
    with np.errstate(all="ignore"), warnings.catch_warnings():
        warnings.simplefilter("ignore")
        out = np.asarray(u(x), dtype=np.float64)
        ref = cfg["ref"](x.astype(np.float64))
    found = {}
    xb = x.view(np.uint32)

    def first(mask, kind, fmt):
        if kind not in found and mask.any():
            i = int(np.flatnonzero(mask)[0])
            found[kind] = (fmt(i), int(mask.sum()), [int(xb[i])] + ([int(xb[i + 1])] if kind == "correction-monotone" else []))

    nan = np.isnan(out)
    first(nan, "correction-nan", lambda i: "correction(%r) is NaN" % float(x[i]))
    good = ~nan
    d = np.diff(out)
    pair_ok = good[:-1] & good[1:]
    bad = pair_ok & ((d < 0) if cfg["increasing"] else (d > 0))
    first(bad, "correction-monotone", lambda i: "correction(%r)=%r but correction(%r)=%r (%s expected)" % (
        float(x[i]), float(out[i]), float(x[i + 1]), float(out[i + 1]),
        "non-decreasing" if cfg["increasing"] else "non-increasing"))
    lo, hi = cfg["range"]
    fin = np.isfinite(x) & good
    outside = fin & ((out < lo - R.ABS_TOL) | (out > hi + R.ABS_TOL) | ~np.isfinite(out))
    first(outside, "correction-range", lambda i: "correction(%r)=%r outside [%r, %r]" % (float(x[i]), float(out[i]), lo, hi))
    isinf = np.isposinf(x) & good
    first(isinf & (out != cfg["far"]), "correction-inf", lambda i: "correction(+inf)=%r, expected %r" % (float(out[i]), cfg["far"]))
    ok = R.close_array(out, ref, name)
    first(good & ~ok, "correction-value", lambda i: "correction(%r)=%r, float64 formula gives %r" % (float(x[i]), float(out[i]), float(ref[i])))
    return found, (float(out[0]), float(out[-1])), len(x)


def merge_found(total, found):
    for k, (what, n, bits) in found.items():
        if k in total:
            total[k] = (total[k][0], total[k][1] + n, total[k][2])
        else:
            total[k] = (what, n, bits)


def sweep_quick(u, cfg, name, seed):
    x = sample_inputs(seed, cfg["lo_in"], (1 << 20) - (1 << 17), 1 << 17)
    found, _, n = check_block(u, cfg, name, x)
    return found, n


def sweep_full(u, cfg, name):
    """Every float32 bit pattern: NaN patterns and inputs below the surrogate's range are outside the claim;
    everything else is evaluated, in float order, in chunks."""
    top = 0x7F800000
    jobs = []            # (order key, ascending-float array builder)
    for a in range(0, top + 1, SWEEP_CHUNK):
        b = min(a + SWEEP_CHUNK, top + 1)
        jobs.append(("pos", a, b))
    nlo = bits_of(cfg["lo_in"]) if cfg["lo_in"] < 0 else 0x80000000
    for a in range(0x80000000, nlo + 1, SWEEP_CHUNK):
        b = min(a + SWEEP_CHUNK, nlo + 1)
        jobs.append(("neg", a, b))

    def work(job):
        kind, a, b = job
        bits = np.arange(a, b, dtype=np.uint32)
        if kind == "neg":
            bits = bits[::-1].copy()             # ascending float order
        return job, check_block(u, cfg, name, bits.view(np.float32))

    total, n = {}, 0
    ends = {}
    with ThreadPoolExecutor(SWEEP_THREADS) as ex:
        for job, (found, edge, cnt) in ex.map(work, jobs):
            merge_found(total, found); n += cnt; ends[job] = edge
    # monotonicity across chunk borders (float order: neg chunks descending a, then pos chunks ascending a)
    order = sorted([j for j in jobs if j[0] == "neg"], key=lambda j: -j[1]) + sorted([j for j in jobs if j[0] == "pos"], key=lambda j: j[1])
    for j1, j2 in zip(order[:-1], order[1:]):
        l, f = ends[j1][1], ends[j2][0]
        if not (math.isnan(l) or math.isnan(f)) and ((f < l) if cfg["increasing"] else (f > l)):
            merge_found(total, {"correction-monotone": ("across chunk border %r -> %r: %r then %r" % (j1, j2, l, f), 1, [])})
    skipped = (1 << 32) - n
    return total, n, skipped


# --------------------------------------------------------------------------
# pair generators: groups (anchor x, partners y_1..y_k)
# --------------------------------------------------------------------------
def normalise(v):
    n = math.sqrt(float(np.dot(v.astype(np.float64), v.astype(np.float64))))
    if n == 0.0:
        return None
    return f32(v.astype(np.float64) / n)


def draw(rng, d, style):
    if style == "normal":
        return rng.normal(size=d)
    if style == "smallint":
        return rng.integers(-2, 4, d).astype(np.float64)
    if style == "nonneg":
        v = rng.uniform(0, 1, d); v[v < 0.25] = 0.0
        return v
    if style == "counts":
        return rng.integers(0, 4, d).astype(np.float64)
    if style == "01":
        return (rng.uniform(size=d) < rng.choice([0.2, 0.5, 0.8])).astype(np.float64)
    raise ValueError(style)


def groups_for(name, rng, n, exh):
    spec = R.SPEC[name]
    dom = spec["domain"]
    styles = {"real": ["normal", "smallint", "nonneg", "01"], "nonneg_mass": ["nonneg", "counts", "01"],
              "binary": ["01", "counts"]}[dom]
    out = []
    for d in DIMS:
        for st in styles:
            for _ in range(n):
                x = draw(rng, d, st)
                ps = [("random", draw(rng, d, st)) for _ in range(3)]
                ps.append(("identical", x.copy()))
                for c in (0.5, 2.0, 3.0, 7.3, 1e-3, 1e3):
                    ps.append(("scaled", c * x))
                ps.append(("near", x + 1e-3 * np.abs(rng.normal(size=d)) * (x != 0)))
                ps.append(("near", x + 1e-5 * rng.normal(size=d) * (1.0 if dom == "real" else (x != 0))))
                if dom == "real":
                    ps.append(("opposite", -x))
                    o = np.zeros(d); o[0], o[1] = -x[1], x[0]
                    ps.append(("orthogonal-part", o))
                    ps.append(("saturated", -np.abs(rng.normal(size=d)) * np.sign(x + (x == 0))))
                h = d // 2
                a = x.copy(); a[h:] = 0.0; b = draw(rng, d, st); b[:h] = 0.0
                out.append((st, f32(a), [("disjoint", f32(b)), ("identical", f32(a)), ("random", f32(draw(rng, d, st))),
                                          ("zero", f32(np.zeros(d)))]))
                ps.append(("zero", np.zeros(d)))
                out.append((st, f32(x), [(k, f32(v)) for k, v in ps]))
    if name in ("euclidean", "l2"):
        # rows far from the origin that differ a little (every value exactly representable): a surrogate evaluated as
        # |x|^2 + |y|^2 - 2<x, y> cancels catastrophically here, the difference form does not
        for d in (3, 6):
            for _ in range(max(2, n)):
                a = rng.integers(-2, 3, d).astype(np.float64); a[:2] += float(rng.choice([1000.0, 2048.0, 3000.0]))
                ps = []
                for delta in (0.25, 0.5, 0.75, 1.0, 1.5, 2.0):
                    b = a.copy(); b[int(rng.integers(d))] += delta
                    ps.append(("offset", b))
                ps.append(("identical", a.copy()))
                out.append(("offset", f32(a), [(k, f32(v)) for k, v in ps]))
    z = lambda d: f32(np.zeros(d))
    for d in (2, 5):
        out.append(("zero", z(d), [("zero", z(d)), ("random", f32(draw(rng, d, styles[0])))]))
    for d in range(1, exh + 1):                     # all 0/1 pairs for small dim, grouped by anchor
        vs = [f32(v) for v in itertools.product([0.0, 1.0], repeat=d)]
        for a in vs:
            out.append(("binary-exhaustive", a, [("binary-exhaustive", b.copy()) for b in vs]))
    return out


# --------------------------------------------------------------------------
# A + B on one group
# --------------------------------------------------------------------------
def resolve(kind, name):
    if kind == "dense":
        e = D.fast_distance_alternatives[name]
        return e["dist"], e["correction"], D.named_distances[name], "dense kernel"
    e = S.sparse_fast_distance_alternatives[name]
    m = S.sparse_named_distances.get(name)
    how = "sparse kernel"
    if m is None:
        m = getattr(S, "sparse_" + name, None)
        how = "sparse.sparse_%s (not in sparse_named_distances)" % name
    if m is None:
        m = D.named_distances[name]; how = "dense kernel on the decoded vectors"
    return e["dist"], e["correction"], m, how


def evaluate(kind, sur, corr, met, how, x, y):
    if kind == "dense":
        s = float(sur(x, y)); m = float(met(x, y))
    else:
        ex, ey = enc(x), enc(y)
        s = float(sur(ex[0], ex[1], ey[0], ey[1]))
        if how.startswith("dense"):
            m = float(met(x, y))
        else:
            m = float(met(ex[0], ex[1], ey[0], ey[1]))
    with np.errstate(all="ignore"), warnings.catch_warnings():
        warnings.simplefilter("ignore")
        c = float(np.asarray(corr(np.array([s], dtype=np.float32)), dtype=np.float64)[0])
    return s, c, m


def check_group(rep, kind, name, gen, x, partners, fns):
    res = rep.res
    spec = R.SPEC[name]
    sur, corr, met, how = fns
    sim = spec["orientation"] == "similarity"
    rows = []
    for pk, y in partners:
        xx, yy = x, y
        if spec["unit_norm"]:
            xx, yy = normalise(x), normalise(y)
            if xx is None or yy is None:
                continue
        zx, zy = not np.any(xx), not np.any(yy)
        if (zx or zy) and spec["zero"] == "never":
            continue
        case = {"table": kind, "metric": name, "gen": gen + "/" + pk, "x": xx.tolist(), "y": yy.tolist()}
        nontrivial = (not np.array_equal(xx, yy)) and not zx and not zy
        res.case((kind, name, xx.tobytes().hex(), yy.tobytes().hex()), nontrivial,
                 sample={"table": kind, "metric": name, "x": xx.tolist()[:6], "y": yy.tolist()[:6]})
        res.count("entry:%s:%s" % (kind, name)); res.count("gen:" + pk)
        key = "surrogate:%s:%s:" % (kind, name)
        try:
            s, c, m = evaluate(kind, sur, corr, met, how, xx, yy)
        except Exception as e:
            rep.violation(key + "exception", "%s: %s" % (type(e).__name__, e), case)
            continue
        if math.isnan(s) or math.isnan(c) or math.isnan(m):
            rep.violation(key + "nan", "surrogate=%r corrected=%r metric=%r" % (s, c, m), case)
            continue
        if s >= F32MAX:
            res.count("saturated")
        target = R.clamp(name, m)
        scale = R.abs_scale(name, xx, yy, {})
        res.count("checked:inverse")
        if not R.close(c, target, name, scale):
            k = key + "inverse"
            if sim and (m == F32MAX or (zx and zy)):
                k += ":sentinel"
            rep.violation(k, "correction(surrogate)=%r (surrogate %r) but clamp(metric)=%r (metric %r)" % (c, s, target, m), case)
            continue
        rows.append((s, target, scale, case))
    # B: order on pairs of pairs sharing the anchor
    for (s1, m1, sc1, c1), (s2, m2, sc2, c2) in itertools.combinations(rows, 2):
        if R.close(m1, m2, name, max(sc1, sc2)):
            continue
        res.count("checked:order")
        closer1 = (m1 > m2) if sim else (m1 < m2)        # pair 1 is the closer one
        if not ((s1 < s2) if closer1 else (s2 < s1)):
            rep.violation("surrogate:%s:%s:order" % (kind, name),
                          "metric %r vs %r but surrogate %r vs %r" % (m1, m2, s1, s2),
                          {"table": kind, "metric": name, "x": c1["x"], "y": c1["y"], "z": c2["y"], "gen": c1["gen"] + " | " + c2["gen"]})


def entries():
    return [("dense", n) for n in D.fast_distance_alternatives] + [("sparse", n) for n in S.sparse_fast_distance_alternatives]


def api_stage(res, rng, tier):
    """the surrogate must stay internal over an index's life: after build, after update (the graph is re-seeded from the stored
    surrogate values) and through query, every *reported* distance is correction(surrogate) = the documented metric"""
    import warnings
    warnings.filterwarnings("ignore")
    from pynndescent import NNDescent
    from harness import api, oracles
    # (metric, data kind): every surrogate's own glue - the normalising dot with queries that are NOT unit length, and a CSR index
    # whose surrogate / correction pair comes from the sparse table
    metrics = [("euclidean", "dense32"), ("cosine", "dense32"), ("dot", "dense32"), ("jaccard", "csr"), ("l2", "csr")] if tier == "quick" else \
        [("euclidean", "dense32"), ("cosine", "dense32"), ("hellinger", "dense32"), ("jaccard", "dense32"), ("dot", "dense32"),
         ("jaccard", "csr"), ("cosine", "csr"), ("hellinger", "csr"), ("euclidean", "csr"), ("l2", "csr"), ("l2", "dense32"), ("true_angular", "dense32")]
    for metric, kind in metrics:
        n, k, dim = 120, 6, 5
        X, L = api.gen_dataset(rng, metric, kind, n, dim, zero_rows=(metric in ("cosine", "jaccard") and kind == "dense32"))
        U, UL = api.gen_dataset(rng, metric, kind, 25, dim)
        Q, QL = api.gen_dataset(rng, metric, kind, 10, dim)
        if metric == "dot":
            Q = (Q * np.float32(0.25)).astype(np.float32); QL = QL * 0.25          # |q| != 1: the search must normalise by |q|, not |q|^2
        case = {"metric": metric, "kind": kind, "n": n, "k": k, "history": ["build", "neighbor_graph", "update(xs_fresh)", "neighbor_graph", "query"]}
        key = "surrogate:api:%s%s" % (metric, "" if kind == "dense32" else ":" + kind)
        try:
            idx = NNDescent(X, metric=metric, n_neighbors=k, random_state=int(rng.integers(10 ** 6)))
            g = idx.neighbor_graph
            probs = oracles.graph_problems(L, k, metric, {}, g[0], g[1])
            if not probs:
                L2 = L
                if kind == "dense32":                  # (update() is refused for sparse data)
                    idx.update(xs_fresh=U)
                    L2 = np.vstack([L, UL])
                    g = idx.neighbor_graph
                    probs = oracles.graph_problems(L2, k, metric, {}, g[0], g[1])
                if not probs:
                    a = idx.query(Q, k=k)
                    probs = oracles.answer_problems(L2, QL, k, metric, {}, a[0], a[1])
        except Exception as e:  # noqa
            probs = [("exception", "%s: %s" % (type(e).__name__, str(e)[:200]))]
        res.case(("api", metric, kind, np.asarray(L).tobytes()), True, sample=case)
        res.count("api_history_" + metric); res.traces += 1
        if probs:
            res.violation(key + ":" + probs[0][0], "reported distance is not correction(surrogate) = metric over build -> update -> query: %s" % probs[0][1], case)


def scale_stage(res, rng):
    """cosine and true_angular are scale free: the surrogate path must report the same value for (s x, s y) at every magnitude at
    which the squares of the entries are representable in float32 (DESIGN note N5: 1e-18 .. 1e18)"""
    from pynndescent import distances as D
    from harness import refmetrics as R
    for name in ("cosine", "true_angular"):
        alt = D.fast_distance_alternatives[name]
        for c in range(12):
            dim = int(rng.integers(2, 9))
            x = np.abs(rng.standard_normal(dim)).astype(np.float32) + np.float32(0.1)
            y = np.abs(rng.standard_normal(dim)).astype(np.float32) + np.float32(0.1)
            base = float(alt["correction"](np.float32(alt["dist"](x, y))))
            for sc in (1e-15, 1e-12, 1e-9, 1e-6, 1e6, 1e9, 1e12, 1e15):
                xs = (x * np.float32(sc)).astype(np.float32); ys = (y * np.float32(sc)).astype(np.float32)
                v = float(alt["correction"](np.float32(alt["dist"](xs, ys))))
                res.case(("scale", name, sc, x.tobytes(), y.tobytes()), True)
                res.count("scale_cases")
                if not R.close(v, base, name, scale=4.0):
                    res.violation("surrogate:dense:%s:scale" % name, "correction(surrogate(s*x, s*y)) = %r at s = %g but %r at s = 1" % (v, sc, base),
                                  {"metric": name, "x": x.tolist(), "y": y.tolist(), "scale": sc})
                    break


def sparse_scale_stage(res, rng):
    """the sparse cosine surrogate is scale free as well"""
    from pynndescent import sparse as S
    from harness import refmetrics as R
    alt = S.sparse_fast_distance_alternatives["cosine"]
    for c in range(12):
        dim = int(rng.integers(3, 10))
        x = (np.abs(rng.standard_normal(dim)) + 0.1) * (rng.random(dim) < 0.8); y = (np.abs(rng.standard_normal(dim)) + 0.1) * (rng.random(dim) < 0.8)
        x[0] = 1.0; y[0] = 0.5
        x = x.astype(np.float32); y = y.astype(np.float32)

        def enc(v):
            ind = np.nonzero(v)[0].astype(np.int32)
            return ind, v[ind].astype(np.float32)
        base = float(alt["correction"](np.float32(alt["dist"](*enc(x), *enc(y)))))
        for sc in (2.0 ** -50, 2.0 ** -40, 2.0 ** -20, 2.0 ** 20, 2.0 ** 35, 2.0 ** 50):
            xs = (x * np.float32(sc)).astype(np.float32); ys = (y * np.float32(sc)).astype(np.float32)
            v = float(alt["correction"](np.float32(alt["dist"](*enc(xs), *enc(ys)))))
            res.case(("sparse-scale", sc, x.tobytes(), y.tobytes()), True); res.count("sparse_scale_cases")
            if not R.close(v, base, "cosine", scale=4.0):
                res.violation("surrogate:sparse:cosine:scale", "correction(surrogate(s*x, s*y)) = %r at s = %g but %r at s = 1" % (v, sc, base),
                              {"metric": "cosine", "x": x.tolist(), "y": y.tolist(), "scale": sc})
                break


def run(res, tier, seed, search):
    sparse_scale_stage(res, np.random.default_rng([seed, 911]))
    api_stage(res, np.random.default_rng([seed, 909]), tier)
    scale_stage(res, np.random.default_rng([seed, 910]))
    from harness import c07_model
    c07_model.run_model(res, np.random.default_rng([seed, 709]), 40 if tier == "quick" else 600)   # Lean model (Float) vs real kernels / ufuncs
    quick = tier == "quick"
    n = 4 if quick else 40
    if search:
        n *= 3
    exh = 4 if quick else 5
    res.rule = ("per entry of both alternative tables: groups (anchor x; partners random / identical / scaled / near / "
                "opposite / orthogonal / disjoint / zero; all 0/1 pairs for dim <= %d) on the real kernels: "
                "correction(surrogate(x,y)) close to clamp(metric(x,y)) (refmetrics.close), no NaN, no exception; all "
                "partner pairs of an anchor whose clamped metric values are not close must be ordered identically by "
                "the surrogate (reversed for true_angular); each correction ufunc over %s float32 inputs in float "
                "order: no NaN on the surrogate's range, monotone, in range, +inf -> far end, close to the float64 "
                "formula; non-trivial = x != y and neither all-zero; distinct = hash of (table, name, x, y)"
                % (exh, "a stratified 2^20 sample + boundaries of" if quick else "ALL 2^32 bit patterns of"))
    rep = Reporter(res)
    # the vectorised tolerance used by the sweeps is the scalar one
    rng0 = np.random.default_rng([seed, 99])
    for name in CORR:
        a = rng0.uniform(-0.1, 1.2, 400); r = a + rng0.choice([0, 1e-7, 1e-6, 3e-6, 1e-4], 400) * rng0.choice([-1, 1], 400)
        vec = R.close_array(a, r, name)
        sca = np.array([R.close(float(p), float(q), name) for p, q in zip(a, r)])
        if not np.array_equal(vec, sca):
            raise RuntimeError("close_array disagrees with close for " + name)
    corpus = os.path.join(VERIF, "corpus", "C09.jsonl")
    if os.path.exists(corpus):
        for l in open(corpus):
            if l.strip():
                replay_case(rep, json.loads(l)); res.count("corpus")
    res.notes.append("dot (dense and sparse): inputs are L2-normalised and zero vectors are not generated (outside the "
                     "metric's stated domain); note that sparse_dot_product reads ind[0] of an empty row without a bounds "
                     "check, so an empty CSR row under metric='dot' is undefined behaviour, not merely out of domain")
    swept = {}
    for kind, name in entries():
        key = "surrogate:%s:%s:" % (kind, name)
        if name not in R.SPEC or name not in CORR:
            rep.violation(key + "exception", "alternative-table entry without a specification", {"table": kind, "metric": name})
            continue
        fns = resolve(kind, name)
        res.count("metric-via:" + fns[3])
        rng = np.random.default_rng([seed, zlib.crc32((kind + name).encode()), 9])
        for gen, x, partners in groups_for(name, rng, n, exh):
            check_group(rep, kind, name, gen, x, partners, fns)
        # C: the correction ufunc (each distinct (ufunc, configuration) is swept once, reported per entry)
        u, cfg = fns[1], CORR[name]
        sk = (id(u), cfg["lo_in"], cfg["range"], cfg["increasing"], cfg["ref"].__name__, R.SPEC[name]["preimage"])
        if sk not in swept:
            if quick:
                found, cnt = sweep_quick(u, cfg, name, seed); skipped = None
            else:
                found, cnt, skipped = sweep_full(u, cfg, name)
            swept[sk] = (found, cnt, skipped)
            res.count("sweep-inputs", cnt)
            res.notes.append("sweep %s (%s:%s): %d inputs in range%s" % (
                getattr(u, "__name__", str(u)), kind, name, cnt,
                "" if skipped is None else "; %d bit patterns outside the claim (NaN or below the surrogate's range %r)" % (skipped, cfg["lo_in"])))
        found, cnt, skipped = swept[sk]
        for k, (what, count, bits) in found.items():
            rep.violation(key + k, "%s (%d inputs of %d)" % (what, count, cnt),
                          {"table": kind, "metric": name, "ufunc": getattr(u, "__name__", str(u)), "input_bits": bits,
                           "input": [float(np.array([b], dtype=np.uint32).view(np.float32)[0]) for b in bits]})
            res.count("violation:" + key + k, count - 1)


def replay_case(rep, case):
    kind, name = case.get("table"), case.get("metric")
    if kind is None or name is None:
        return
    fns = resolve(kind, name)
    if "input_bits" in case:
        x = np.array(sorted(case["input_bits"], key=lambda b: float(np.array([b], dtype=np.uint32).view(np.float32)[0])),
                     dtype=np.uint32).view(np.float32)
        found, _, cnt = check_block(fns[1], CORR[name], name, x)
        for k, (what, count, bits) in found.items():
            rep.violation("surrogate:%s:%s:%s" % (kind, name, k), what, case)
        rep.res.case(("sweep", kind, name, tuple(case["input_bits"])), True)
        return
    x = f32(case["x"])
    partners = [("replay", f32(case["y"]))]
    if "z" in case:
        partners.append(("replay", f32(case["z"])))
    spec = R.SPEC[name]
    if spec["unit_norm"]:
        # replayed vectors are already normalised; keep them bit-identical
        spec = dict(spec, unit_norm=False)
        old = R.SPEC[name]; R.SPEC[name] = spec
        try:
            check_group(rep, kind, name, "replay", x, partners, fns)
        finally:
            R.SPEC[name] = old
    else:
        check_group(rep, kind, name, "replay", x, partners, fns)


def replay(res, doc):
    rep = Reporter(res)
    for c in doc.get("cases", []):
        replay_case(rep, c.get("case", c))


if __name__ == "__main__":
    std_main("C09", run, replay)
