"""C10 — the optimal-transport metric returns the true minimum transport cost.

The network simplex (optimal_transport.py) is NOT modelled.  Every run of the real solver is
*certified*.  For each generated input a worker process
  1. calls the real compiled entry point (`distances.kantorovich` / `sparse.sparse_kantorovich`) and keeps
     the returned number (or the exception);
  2. replays it: the entry point's own Python body (`.py_func`) is executed under the interpreter, so that
     every kernel it calls — allocate_graph_structures, initialize_supply, initialize_cost,
     initialize_graph_structures, network_simplex_core, total_cost — is the real compiled one, in the body's
     own order with the body's own arguments; a recording wrapper around `network_simplex_core` keeps the
     solver's arrays.  (The replay follows any edit of the body: cost rescaling, max_iter, normalisation.)
  3. reads the primal flow and the node potentials out of those arrays, converts the doubles to exact
     rationals (`float.as_integer_ratio`) and writes one `certify` command for the Lean driver, against the
     LP the property speaks about: the caller's cost on supp(x) x supp(y) and the *exactly* normalised masses.
The main process has the native Lean checker (`Transport.certify`, soundness: Props/C10.certify_sound) decide
every command and requires: accepted with gap <= 1e-9 max C (also against the exact inputs: gapab), marginal
residuals <= 1e-9, returned number = <C,f> (computed exactly by the checker) to 1e-6 relative, interpreted
and compiled runs agree.  When a certificate fails the property is decided on the real output by an
independent LP solve (scipy HiGHS).  Termination is observed under a deadline: the worker is killed when a
run does not answer in time (`ot:hang`), a crash of the worker is `ot:crash`; a solver status other than
OPTIMAL (max_iter exhaustion) is counted, and is a violation when the result is then not certified.

How flow / potentials are read (use_arc_mixing=False, as kantorovich calls it):
  arc (i, j)  of the masked n x m problem is stored at index  n*m - 1 - (i*m + j)   (arc_id)
  left node i  has node id  n+m-1-i,  right node j  has node id  n+m-1-(n+j)      (initialize_supply)
  reduced cost of arc e = cost[e] + pi[source[e]] - pi[target[e]]  (find_entering_arc), source = left,
  target = right, hence  u_i = pi[node(i)],  v_j = pi[node(n+j)]  and  r_ij = C_ij + u_i - v_j
  (0 up to rounding on basic arcs; the worker asserts source/target agree with this numbering on every run).
If the solver was handed a positive multiple C/s of the caller's cost (kantorovich rescales by a power of
two), the potentials are multiplied by s exactly (as rationals) and the certificate is still checked against
the caller's cost.

Violation keys: ot:{infeasible,unbounded,raised}:{dense,sparse}  ot:hang  ot:crash  ot:max-iter:*  ot:suboptimal:*
ot:marginals:*  ot:value:*  ot:linprog:*  ot:symmetry  ot:zero  ot:rescale  ot:1d  ot:wasserstein1d  ot:sparse-dense
ot:small-cost:*  ot:large-cost:scale.   Correspondence name: ot_certificate.
"""
import sys, os, json, time, subprocess, threading, queue, hashlib
from fractions import Fraction
sys.path.insert(0, os.path.dirname(os.path.dirname(os.path.abspath(__file__))))
from harness.common import *
import numpy as np

F = 24                         # number of features of the sparse entry point's ground set
TOL = Fraction(1, 10**9)       # certificate tolerance relative to max C; marginal residual tolerance
FIRST_DEADLINE = float(os.environ.get("C10_FIRST_DEADLINE", 400.0))   # first answer of a worker includes import + JIT
RUN_DEADLINE = float(os.environ.get("C10_RUN_DEADLINE", 90.0))       # any later run (a solve is milliseconds; max_iter exhaustion < 1 s)

MASS_KINDS = ["real", "ints", "uniform", "neardegen", "neardegen2", "sparse", "one", "norm32", "almost1"]
COST_KINDS = ["real", "ints", "grid", "gridfrac", "decimal", "absij", "zero", "const", "discrete", "asym01", "big", "zerorows", "sqabsij"]


# ----------------------------------------------------------------------------------------------
# generators: pure functions of (seed, tier, idx)
# ----------------------------------------------------------------------------------------------
def gen_mass(rng, n, kind):
    if kind == "real":
        x = rng.random(n)
    elif kind == "ints":                       # ties, zeros
        x = rng.integers(0, 4, n).astype(float)
    elif kind == "uniform":                    # maximally degenerate LP (assignment-like)
        x = np.ones(n)
    elif kind == "neardegen":                  # one dominant entry, the others 1e-6 relative
        x = np.full(n, 1e-6); x[rng.integers(n)] = 1.0
    elif kind == "neardegen2":                 # random tiny entries, two dominant ones
        x = rng.random(n) * 1e-6; x[rng.integers(n)] = 1.0; x[rng.integers(n)] = 0.5
    elif kind == "norm32":                     # already L1-normalised by the caller, in float32: total mass within a few ulp of 1
        x = rng.random(n).astype(np.float32) + np.float32(0.01)
        x = x / x.sum(dtype=np.float32)
    elif kind == "almost1":                    # total mass 1 +- (1e-8 .. 1e-5): "nearly a probability vector" is still just a histogram
        x = rng.random(n) + 0.01
        x = x / x.sum() * (1.0 + float(rng.choice([-1, 1])) * 10.0 ** -float(rng.uniform(5.0, 8.0)))
    elif kind == "sparse":
        x = rng.random(n) * (rng.random(n) < 0.3)
    else:                                      # a single point mass
        x = np.zeros(n); x[rng.integers(n)] = float(rng.integers(1, 5))
    x = x.astype(np.float32)
    if not (x != 0).any():
        x[rng.integers(n)] = 1.0
    return x


def gen_cost(rng, n, kind):
    if kind == "real":
        C = rng.random((n, n))
    elif kind == "ints":                       # non-metric, ties and zeros
        C = rng.integers(0, 4, (n, n)).astype(float)
    elif kind == "grid":                       # metric with many ties: euclidean on a small integer grid
        P = rng.integers(0, 5, (n, 2)).astype(float)
        C = np.sqrt(((P[:, None, :] - P[None, :, :]) ** 2).sum(-1))
    elif kind == "gridfrac":                   # the same, all entries below 1 (irrational values with ties)
        P = rng.integers(0, 5, (n, 2)).astype(float)
        C = np.sqrt(((P[:, None, :] - P[None, :, :]) ** 2).sum(-1)) / [8.0, 16.0][int(rng.integers(2))]
    elif kind == "decimal":                    # 0.0, 0.1, ..., 0.9: inexact in binary, many ties
        C = rng.integers(0, 10, (n, n)) * 0.1
    elif kind == "absij":
        C = np.abs(np.subtract.outer(np.arange(n), np.arange(n))).astype(float)
    elif kind == "sqabsij":
        C = (np.subtract.outer(np.arange(n), np.arange(n)).astype(float)) ** 2
    elif kind == "zero":
        C = np.zeros((n, n))
    elif kind == "const":
        C = np.full((n, n), 2.5)
    elif kind == "discrete":
        C = 1.0 - np.eye(n)
    elif kind == "asym01":
        C = (rng.random((n, n)) < 0.5).astype(float)
    elif kind == "big":
        C = np.floor(rng.random((n, n)) * 1e6)
    else:                                      # zerorows: some rows / columns entirely free
        C = rng.random((n, n))
        C[rng.random(n) < 0.3, :] = 0.0
        C[:, rng.random(n) < 0.3] = 0.0
    return np.ascontiguousarray(C, dtype=np.float64)


def sym_cost(rng, n, zero_diag):
    kind = ["real", "ints", "grid", "absij", "discrete"][int(rng.integers(5))]
    C = gen_cost(rng, n, kind)
    C = np.maximum(C, C.T)
    if zero_diag:
        np.fill_diagonal(C, 0.0)
    return C, "sym-" + kind


def support_pairs(d):
    pats = [p for p in range(1, 2 ** d)]
    return [(p, q) for p in pats for q in pats]


SUPPORT_SCENARIOS = [(d, p, q) for d in (1, 2, 3, 4) for (p, q) in support_pairs(d)]   # 1 + 9 + 49 + 225


def dense_run(x, y, C, **tags):
    return {"entry": "dense", "x": x, "y": y, "C": C, "tags": tags}


def plan(tier, search):
    """(kind, count) blocks; scenario idx runs through them in order."""
    if tier == "quick":
        p = [("support", len(SUPPORT_SCENARIOS)), ("random", 1500), ("sym", 120), ("zero", 120), ("rescale", 120),
             ("oned", 150), ("sparse", 240), ("smallcost", 10), ("offsupport", 40)]
    else:
        p = [("support", len(SUPPORT_SCENARIOS)), ("random", 8000), ("sym", 600), ("zero", 600), ("rescale", 600),
             ("oned", 800), ("sparse", 1200), ("smallcost", 60), ("offsupport", 300)]
    if search:
        p = [(k, c if k == "support" else 3 * c) for (k, c) in p]
    return p


def make_scenario(desc):
    """desc -> {"desc", "runs": [...], "rels": [...]}  (deterministic)."""
    if desc["kind"] == "literal":
        runs = []
        for r in desc["runs"]:
            if r["entry"] == "dense":
                n = len(r["x"])
                C = r["C"]
                if isinstance(C, str):
                    C = np.zeros((n, n)) if C == "zeros" else gen_cost(None, n, C)      # "absij", "discrete", ...
                else:
                    C = np.array(C, dtype=np.float64)
                runs.append(dense_run(np.array(r["x"], dtype=np.float32), np.array(r["y"], dtype=np.float32), C,
                                      mass=r.get("mass", "literal"), cost=r.get("cost", "literal")))
            else:
                runs.append({"entry": "sparse", "ind1": np.array(r["ind1"], dtype=np.int32), "data1": np.array(r["data1"], dtype=np.float32),
                             "ind2": np.array(r["ind2"], dtype=np.int32), "data2": np.array(r["data2"], dtype=np.float32),
                             "gm": r["gm"], "tags": {"mass": "literal", "cost": "gm-" + r["gm"]}})
        return {"desc": desc, "runs": runs, "rels": desc.get("rels", [])}
    seed, tier, kind, k = desc["seed"], desc["tier"], desc["block"], desc["k"]
    rng = np.random.default_rng([seed, k, {"support": 1, "random": 2, "sym": 3, "zero": 4, "rescale": 5, "oned": 6,
                                            "sparse": 7, "smallcost": 8, "offsupport": 9}[kind]])
    maxn = 60 if tier == "quick" else 200
    runs, rels = [], []

    def dim():
        r = rng.random()
        if r < 0.35:
            return int(rng.integers(1, 9))
        if r < 0.8:
            return int(rng.integers(1, min(maxn, 40) + 1))
        return int(rng.integers(1, maxn + 1))

    if kind == "support":
        d, p, q = SUPPORT_SCENARIOS[k]
        mk = ["ints", "real"][int(rng.integers(2))]
        x = gen_mass(rng, d, "real") + np.float32(0.5) if mk == "real" else rng.integers(1, 4, d).astype(np.float32)
        y = gen_mass(rng, d, "real") + np.float32(0.5) if mk == "real" else rng.integers(1, 4, d).astype(np.float32)
        x = (x * np.array([(p >> i) & 1 for i in range(d)], dtype=np.float32)).astype(np.float32)
        y = (y * np.array([(q >> i) & 1 for i in range(d)], dtype=np.float32)).astype(np.float32)
        ck = COST_KINDS[int(rng.integers(len(COST_KINDS)))]
        runs.append(dense_run(x, y, gen_cost(rng, d, ck), mass="support-" + mk, cost=ck))
    elif kind == "random":
        n = dim()
        mk = MASS_KINDS[int(rng.integers(len(MASS_KINDS)))]
        mk2 = mk if rng.random() < 0.6 else MASS_KINDS[int(rng.integers(len(MASS_KINDS)))]
        ck = COST_KINDS[int(rng.integers(len(COST_KINDS)))]
        runs.append(dense_run(gen_mass(rng, n, mk), gen_mass(rng, n, mk2), gen_cost(rng, n, ck), mass=mk, cost=ck, linprog=(k % 6 == 0)))
    elif kind == "sym":
        n = dim()
        mk = MASS_KINDS[int(rng.integers(len(MASS_KINDS)))]
        x, y = gen_mass(rng, n, mk), gen_mass(rng, n, mk)
        C, ck = sym_cost(rng, n, bool(rng.integers(2)))
        runs += [dense_run(x, y, C, mass=mk, cost=ck), dense_run(y, x, C, mass=mk, cost=ck)]
        rels.append({"rel": "symmetry", "runs": [0, 1]})
    elif kind == "zero":
        n = dim()
        mk = MASS_KINDS[int(rng.integers(len(MASS_KINDS)))]
        x = gen_mass(rng, n, mk)
        c = [1.0, 2.0, 0.25, 3.0][int(rng.integers(4))]
        y = (x * np.float32(c)).astype(np.float32) if c in (1.0, 2.0, 0.25) else x.copy()
        C, ck = sym_cost(rng, n, True)
        if rng.random() < 0.5:                      # zero diagonal but neither symmetric nor metric
            C = gen_cost(rng, n, ["real", "ints", "asym01"][int(rng.integers(3))]); np.fill_diagonal(C, 0.0); ck = "zerodiag"
        runs.append(dense_run(x, y, C, mass=mk, cost=ck))
        rels.append({"rel": "zero", "runs": [0]})
    elif kind == "rescale":
        n = dim()
        mk = MASS_KINDS[int(rng.integers(len(MASS_KINDS)))]
        x, y = gen_mass(rng, n, mk), gen_mass(rng, n, "real" if rng.random() < 0.5 else mk)
        ck = COST_KINDS[int(rng.integers(len(COST_KINDS)))]
        C = gen_cost(rng, n, ck)
        c = [2.0, 0.5, 1024.0, 3.0, 1000.0, 0.001, 2.0 ** -20, 2.0 ** -30, 2.0 ** -40][int(rng.integers(9))]   # histograms are scale free: tiny total mass too
        d = [1.0, 4.0, 7.0, 0.125][int(rng.integers(4))]
        runs += [dense_run(x, y, C, mass=mk, cost=ck),
                 dense_run((x * np.float32(c)).astype(np.float32), (y * np.float32(d)).astype(np.float32), C, mass=mk, cost=ck)]
        exact = (c in (2.0, 0.5, 1024.0, 2.0 ** -20, 2.0 ** -30, 2.0 ** -40)) and (d in (1.0, 4.0, 0.125))   # power-of-two factors: float32 products are exact
        rels.append({"rel": "rescale", "runs": [0, 1], "exact": exact, "c": c, "d": d})
    elif kind == "oned":
        n = dim()
        mk = MASS_KINDS[int(rng.integers(len(MASS_KINDS)))]
        x, y = gen_mass(rng, n, mk), gen_mass(rng, n, mk if rng.random() < 0.5 else "real")
        runs.append(dense_run(x, y, gen_cost(rng, n, "absij"), mass=mk, cost="absij", linprog=(k % 5 == 0)))
        rels.append({"rel": "oned", "runs": [0]})
    elif kind == "sparse":
        gm = ["dummy", "line", "table"][k % 3]
        def sp():
            s = int(rng.integers(1, 13))
            ind = np.sort(rng.choice(F, size=s, replace=False)).astype(np.int32)
            mk = ["real", "ints1", "neardegen"][int(rng.integers(3))]
            if mk == "real":
                d = rng.random(s) + 0.01
            elif mk == "ints1":
                d = rng.integers(0, 3, s).astype(float)          # explicit zeros stored in the sparse row
            else:
                d = np.full(s, 1e-6); d[rng.integers(s)] = 1.0
            d = d.astype(np.float32)
            if not (d != 0).any():
                d[rng.integers(s)] = 1.0
            return ind, d, mk
        i1, d1, mk = sp(); i2, d2, _ = sp()
        runs.append({"entry": "sparse", "ind1": i1, "data1": d1, "ind2": i2, "data2": d2, "gm": gm,
                     "tags": {"mass": "sp-" + mk, "cost": "gm-" + gm}})
        runs.append({"entry": "densified", "of": 0, "tags": {"mass": "sp-" + mk, "cost": "gm-" + gm}})
        rels.append({"rel": "sparse-dense", "runs": [0, 1]})
    elif kind == "smallcost":
        n = int(rng.integers(4, 41))
        x, y = gen_mass(rng, n, "real"), gen_mass(rng, n, "real")
        C = gen_cost(rng, n, "real")
        sc = [-20, -30, -40, -60, 40][k % 5]
        runs += [dense_run(x, y, C, mass="real", cost="real"),
                 dense_run(x, y, C * 2.0 ** sc, mass="real", cost="real*2^%d" % sc, smallcost=sc)]
        rels.append({"rel": "cost-scale", "runs": [0, 1], "scale": sc})
    elif kind == "offsupport":
        # cost entries OUTSIDE the joint support (rows with x = 0, columns with y = 0) are irrelevant to the minimum
        # (Props/C10 ot_masked_same_min) whatever their magnitude: here they are 2^30 .. 2^60 times the relevant ones
        n = int(rng.integers(6, 49))
        x = (gen_mass(rng, n, "real") * (rng.random(n) < 0.6)).astype(np.float32)
        y = (gen_mass(rng, n, "real") * (rng.random(n) < 0.6)).astype(np.float32)
        for v in (x, y):
            if not (v != 0).any():
                v[rng.integers(n)] = 1.0
        ck = ["real", "sqabsij", "grid", "decimal"][k % 4]
        C = gen_cost(rng, n, ck)
        f = 2.0 ** [30, 45, 60, 80][(k // 4) % 4]
        C = C + (C == 0) * 0.5 * ((x == 0)[:, None] | (y == 0)[None, :])       # off-support zeros become large too
        C[x == 0, :] *= f
        C[:, y == 0] *= f
        runs.append(dense_run(x, y, np.ascontiguousarray(C), mass="partial-support", cost=ck + "+offsupport*2^%d" % int(np.log2(f)), linprog=(k % 8 == 0)))
    return {"desc": desc, "runs": runs, "rels": rels}


def all_descs(tier, seed, search):
    out = []
    corpus = os.path.join(VERIF, "corpus", "C10.jsonl")
    if os.path.exists(corpus):
        for l in open(corpus):
            if l.strip():
                out.append(json.loads(l))
    for (kind, cnt) in plan(tier, search):
        for k in range(cnt):
            out.append({"kind": "gen", "seed": seed, "tier": tier, "block": kind, "k": k})
    return out


# ----------------------------------------------------------------------------------------------
# worker: the REAL code
# ----------------------------------------------------------------------------------------------
def rat(x):
    p, q = float(x).as_integer_ratio()
    return "%d/%d" % (p, q) if q != 1 else "%d" % p


def frat(fr):
    return "%d/%d" % (fr.numerator, fr.denominator)


def worker_main():
    setup_numba_cache()
    import numba
    from pynndescent import distances, sparse, optimal_transport as ot

    pos = np.arange(F, dtype=np.float32).reshape(-1, 1)
    trng = np.random.default_rng(12345)
    T = trng.integers(0, 4, (F, F)).astype(np.float32)           # non-metric, asymmetric, ties and zeros
    gv = np.hstack([np.arange(F, dtype=np.float32).reshape(-1, 1), T])

    @numba.njit()
    def table_metric(u, v):
        return u[1 + int(v[0])]

    gms = {"dummy": None, "line": sparse.create_ground_metric(pos, distances.euclidean),
           "table": sparse.create_ground_metric(gv, table_metric)}

    def gm_matrix(gm, ind1, ind2):
        f = sparse.dummy_ground_metric if gms[gm] is None else gms[gm]
        M = np.empty((len(ind1), len(ind2)))
        for i in range(len(ind1)):
            for j in range(len(ind2)):
                M[i, j] = f(ind1[i], ind2[j])
        return M

    def replay(call_py):
        """Run the REAL Python body of the entry point (`.py_func`) under the interpreter: every numba kernel it
        calls (allocate_graph_structures, initialize_supply, initialize_cost, initialize_graph_structures,
        network_simplex_core, total_cost) is the real compiled one; the solver's arrays are recorded at the
        network_simplex_core boundary.  The replay therefore follows any edit of kantorovich's body."""
        rec = {}
        real_core = distances.network_simplex_core
        real_kant = sparse.kantorovich

        def core(nad, st, g, max_iter):
            rec.update(nad=nad, g=g, max_iter=max_iter)
            rec["status"] = real_core(nad, st, g, max_iter)
            return rec["status"]

        distances.network_simplex_core = core
        sparse.kantorovich = lambda *a: distances.kantorovich.py_func(*a)
        try:
            rec["value"] = float(call_py())
        except Exception as e:  # noqa
            rec["exc"] = "%s: %s" % (type(e).__name__, str(e)[:160])
        finally:
            distances.network_simplex_core = real_core
            sparse.kantorovich = real_kant
        if "nad" not in rec:
            return rec
        nad, g = rec["nad"], rec["g"]
        n, m = int(g.n), int(g.m)
        na, nn = n * m, n + m
        # numbering assumptions, checked on the solver's own arrays
        ii, jj = np.divmod(np.arange(na), m)
        assert not g.use_arc_mixing, "arc mixing"
        assert np.array_equal(nad.source[:na][::-1], nn - 1 - ii), "source numbering"
        assert np.array_equal(nad.target[:na][::-1], nn - 1 - (n + jj)), "target numbering"
        rec.update(n=n, m=m, status=rec["status"].name,
                   scost=nad.cost[:na][::-1].reshape(n, m).copy(),
                   flow=nad.flow[:na][::-1].reshape(n, m).copy(),
                   u=nad.pi[nn - 1 - np.arange(n)].copy(), v=nad.pi[nn - 1 - (n + np.arange(m))].copy(),
                   a=nad.supply[nn - 1 - np.arange(n)].copy(), b=-nad.supply[nn - 1 - (n + np.arange(m))],
                   art=float(np.abs(nad.flow[na:na + nn]).max()))
        return rec

    def do_run(run, prev):
        out = {"exc": None}
        if run["entry"] == "densified":
            base = prev[run["of"]]["_run"]
            x = np.zeros(F, dtype=np.float32); y = np.zeros(F, dtype=np.float32)
            x[base["ind1"]] = base["data1"]; y[base["ind2"]] = base["data2"]
            cost = gm_matrix(base["gm"], np.arange(F, dtype=np.int32), np.arange(F, dtype=np.int32))
            run = dict(run, entry="dense", x=x, y=y, C=cost)
        if run["entry"] == "dense":
            x, y, cost = run["x"], run["y"], run["C"]
            call = lambda: distances.kantorovich(x, y, cost)
            call_py = lambda: distances.kantorovich.py_func(x, y, cost)
            xs, ys = x, y
        else:
            gm = run["gm"]
            cost = gm_matrix(gm, run["ind1"], run["ind2"])
            xs, ys = run["data1"], run["data2"]
            args = (run["ind1"], run["data1"], run["ind2"], run["data2"]) + (() if gms[gm] is None else (gms[gm],))
            call = lambda: sparse.sparse_kantorovich(*args)
            call_py = lambda: sparse.sparse_kantorovich.py_func(*args)
        t0 = time.time()
        try:
            out["value"] = float(call())                      # the real, compiled entry point
        except Exception as e:  # noqa
            out["value"] = None
            out["exc"] = "%s: %s" % (type(e).__name__, str(e)[:160])
        try:
            r = replay(call_py)
        except Exception as e:  # noqa
            out["replay_exc"] = "%s: %s" % (type(e).__name__, str(e)[:160])
            out["t"] = time.time() - t0
            return out
        out["t"] = time.time() - t0
        out["replay_value"] = r.get("value"); out["replay_raised"] = r.get("exc")
        # the LP the property speaks about: caller's cost on supp(x) x supp(y), exactly normalised masses
        sub = np.ascontiguousarray(cost[np.ix_(xs != 0, ys != 0)], dtype=np.float64)
        out["maxC"] = float(np.abs(sub).max()) if sub.size else 0.0
        out["ncost"] = int(len(np.unique(sub)))
        out.update(n=sub.shape[0], m=sub.shape[1])
        if "flow" not in r:
            out["status"] = "NOT_REACHED"
            return out
        out.update(status=r["status"], art=r["art"], max_iter=int(r["max_iter"]), nbasic=int((r["flow"] > 0).sum()))
        if (r["n"], r["m"]) != sub.shape:
            out["shape_mismatch"] = [r["n"], r["m"]]
            return out
        # the cost the solver was handed: the caller's sub-matrix, or a positive multiple of it
        s = Fraction(1)
        if not np.array_equal(r["scost"], sub):
            mc2 = float(np.abs(r["scost"]).max())
            if mc2 > 0 and out["maxC"] > 0 and np.allclose(r["scost"] * (out["maxC"] / mc2), sub, rtol=1e-9, atol=0.0):
                s = Fraction(out["maxC"]) / Fraction(mc2)
                out["cost_rescaled"] = float(s)
            else:
                out["cost_mismatch"] = True
        fx = [Fraction(float(t)) for t in xs if t != 0]; sx = sum(fx)
        fy = [Fraction(float(t)) for t in ys if t != 0]; sy = sum(fy)
        if s == 1:
            us, vs = [rat(t) for t in r["u"]], [rat(t) for t in r["v"]]
        else:
            us, vs = [frat(s * Fraction(float(t))) for t in r["u"]], [frat(s * Fraction(float(t))) for t in r["v"]]
        red = sub + float(s) * (r["u"][:, None] - r["v"][None, :])
        gap_f = float((red * r["flow"]).sum() + max(0.0, -float(red.min())) * r["flow"].sum())
        out["line"] = " ".join(
            ["certify", str(r["n"]), str(r["m"]), "|"] + [frat(t / sx) for t in fx] + ["|"] + [frat(t / sy) for t in fy] + ["|"]
            + [rat(t) for t in sub.ravel()] + ["|"] + [rat(t) for t in r["flow"].ravel()] + ["|"] + us + ["|"] + vs + ["|", "auto"])
        # independent LP solve: on the tagged subset, and whenever the certificate is going to fail
        if ((run["tags"].get("linprog") and sub.size <= 3600) or run["tags"].get("smallcost") is not None or run.get("force_linprog")
                or r["status"] != "OPTIMAL" or not gap_f <= 0.5e-9 * out["maxC"]):
            out["linprog"] = linprog_opt(np.array([float(t / sx) for t in fx]), np.array([float(t / sy) for t in fy]), sub)
        if run["tags"].get("cost") == "absij" and run["entry"] == "dense":
            try:
                out["w1d"] = float(distances.wasserstein_1d(x.copy(), y.copy(), 1))
            except Exception as e:  # noqa
                out["w1d_exc"] = "%s: %s" % (type(e).__name__, str(e)[:160])
        return out

    for line in sys.stdin:
        line = line.strip()
        if not line:
            continue
        req = json.loads(line)
        sc = make_scenario(req["desc"])
        prev = []
        for ri, run in enumerate(sc["runs"]):
            if req.get("linprog_all"):
                run["force_linprog"] = True
            o = do_run(run, prev)
            o["_run"] = run
            prev.append(o)
            send = {k: v for k, v in o.items() if k != "_run"}
            send.update(sid=req["sid"], ri=ri, last=(ri == len(sc["runs"]) - 1))
            sys.stdout.write(json.dumps(send) + "\n")
            sys.stdout.flush()


def linprog_opt(a, b, C):
    """Independent cross-check: scipy's HiGHS on the same (floating) LP, cost scaled to max 1."""
    from scipy.optimize import linprog
    from scipy.sparse import lil_matrix
    n, m = C.shape
    mx = float(np.abs(C).max())
    if mx == 0:
        return 0.0
    A = lil_matrix((n + m - 1, n * m))
    for i in range(n):
        A[i, i * m:(i + 1) * m] = 1.0
    for j in range(m - 1):
        A[n + j, j::m] = 1.0
    bs = b * (a.sum() / b.sum())            # balance exactly the way a float LP solver needs it
    rhs = np.concatenate([a, bs[:m - 1]])
    # HiGHS' default feasibility tolerances (1e-7, absolute) drop near-degenerate masses: tighten them
    r = linprog((C / mx).ravel(), A_eq=A.tocsr(), b_eq=rhs, bounds=(0, None), method="highs",
                options={"primal_feasibility_tolerance": 1e-10, "dual_feasibility_tolerance": 1e-10})
    return float(r.fun) * mx if r.status == 0 else None


# ----------------------------------------------------------------------------------------------
# main process: watchdog, Lean certification, property predicate
# ----------------------------------------------------------------------------------------------
class Worker:
    def __init__(self):
        env = dict(os.environ, PYTHONDONTWRITEBYTECODE="1")
        self.p = subprocess.Popen([sys.executable, "-m", "harness.c10", "--worker"], cwd=VERIF, env=env,
                                  stdin=subprocess.PIPE, stdout=subprocess.PIPE, stderr=subprocess.PIPE, bufsize=0)
        self.q = queue.Queue()
        self.err = []
        threading.Thread(target=self._read, daemon=True).start()
        threading.Thread(target=self._readerr, daemon=True).start()
        self.first = True

    def _read(self):
        for line in self.p.stdout:
            self.q.put(line)
        self.q.put(None)

    def _readerr(self):
        for line in self.p.stderr:
            self.err.append(line.decode(errors="replace"))
            del self.err[:-40]

    def feed(self, reqs):
        """write all requests from a thread of its own: a hung worker stops reading, and the watchdog must not block on the pipe"""
        def go():
            try:
                for r in reqs:
                    self.p.stdin.write((json.dumps(r) + "\n").encode())
                self.p.stdin.close()
            except Exception:  # noqa  (worker killed)
                pass
        threading.Thread(target=go, daemon=True).start()

    def recv(self):
        """one answer line, None on crash, 'timeout' on deadline"""
        try:
            line = self.q.get(timeout=FIRST_DEADLINE if self.first else RUN_DEADLINE)
        except queue.Empty:
            return "timeout"
        self.first = False
        return None if line is None else json.loads(line)

    def kill(self):
        try:
            self.p.kill()
        except Exception:  # noqa
            pass


def small_literal(run):
    out = {}
    for k in ("x", "y", "ind1", "data1", "ind2", "data2"):
        if k in run and len(run[k]) <= 64:
            out[k] = [float(t) for t in run[k]]
    if "C" in run and run["C"].size <= 100:
        out["C"] = run["C"].tolist()
    if "gm" in run:
        out["gm"] = run["gm"]
    return out


def certify_batch(lines):
    """run the Lean checker (eps = `auto`: the least tolerance under which the potentials are dual feasible)"""
    return run_driver(lines, timeout=900)


def evaluate(res, sc, answers, certs):
    """property predicate on the real outputs of one scenario"""
    desc = sc["desc"]
    vals = []
    for ri, (run, ans, cert) in enumerate(zip(sc["runs"], answers, certs)):
        tags = run["tags"]
        case = {"desc": desc, "run": ri, "entry": run["entry"], "tags": tags, **small_literal(run)}
        known_small = tags.get("smallcost") is not None and tags["smallcost"] < 0     # cost-scale probes: own key (defect fixed in 27044cf)
        key_entry = "sparse" if run["entry"] == "sparse" else "dense"
        res.count("entry_" + run["entry"]); res.count("mass_" + str(tags.get("mass"))); res.count("cost_" + str(tags.get("cost")).split("*")[0])
        vals.append(ans.get("value"))
        if ans.get("replay_exc"):
            res.corr_fail("ot_certificate", case, "replay of the entry point's body records the solver's arrays", ans["replay_exc"])
        if ans.get("exc"):
            kind = "infeasible" if "INFEASIBLE" in ans["exc"] else "unbounded" if "UNBOUNDED" in ans["exc"] else "raised"
            res.violation("ot:%s:%s" % (kind, key_entry), "valid input (non-negative, positive mass, non-negative cost) but %s (replayed solver status %s, "
                          "largest artificial-arc flow %r)" % (ans["exc"], ans.get("status"), ans.get("art")), case)
            res.count("raised_" + kind)
            res.case(case_canon(run), False)
            continue
        if ans.get("status") == "NOT_REACHED" or ans.get("shape_mismatch") or ans.get("cost_mismatch"):
            res.corr_fail("ot_certificate", case, "the interpreted body hands the solver the caller's cost on supp(x) x supp(y)",
                          {k: ans.get(k) for k in ("status", "replay_raised", "shape_mismatch", "cost_mismatch")})
        if ans.get("replay_value") is not None and abs(ans["replay_value"] - ans["value"]) > 1e-9 * abs(ans["value"]) + 1e-12 * ans.get("maxC", 0.0):
            res.corr_fail("ot_certificate", case, "interpreted body returns %r" % ans["replay_value"], "compiled entry point returns %r" % ans["value"])
        if ans.get("cost_rescaled"):
            res.count("solver_cost_rescaled")
        n, m = ans.get("n", 0), ans.get("m", 0)
        res.count("dim_%s" % ("1" if max(n, m) <= 1 else "2-8" if max(n, m) <= 8 else "9-40" if max(n, m) <= 40 else "41-100" if max(n, m) <= 100 else "101-200"))
        res.count("status_" + str(ans.get("status")))
        nontrivial = n >= 2 and m >= 2 and ans.get("ncost", 0) >= 2
        res.case(case_canon(run), nontrivial, sample={"entry": run["entry"], "tags": tags, "n": n, "m": m, "value": ans.get("value"),
                                                       "certificate": (cert or "")[:160]})
        if cert is None:
            continue
        res.traces += 1
        maxC = Fraction(ans["maxC"])
        toks = cert.split()
        fields = {t.split("=")[0]: Fraction(t.split("=")[1]) for t in toks if "=" in t}
        accepted = toks[0] == "ok" and fields["gap"] <= TOL * maxC and fields["gapab"] <= TOL * maxC
        if fields.get("eps", 0) > 0:
            res.count("eps_positive")
        if ans.get("status") != "OPTIMAL":
            res.count("not_optimal_status")
            if len(res.notes) < 6:
                res.notes.append("solver status %s on %s run %d (n=%d m=%d tags=%s): certificate %s" % (ans.get("status"), desc, ri, n, m, tags, cert[:60]))
        value = Fraction(ans["value"])
        # ---- certificate accepted => value is the LP minimum up to the gap -------------------------------------
        if accepted:
            res.count("certified")
            if max(fields["rowres"], fields["colres"]) > TOL:
                res.violation("ot:marginals:" + key_entry, "flow misses the normalised inputs: rowres=%.3g colres=%.3g"
                              % (fields["rowres"], fields["colres"]), case)
            if abs(value - fields["val"]) > Fraction(1, 10**6) * abs(fields["val"]) + Fraction(1, 10**12) * maxC:
                res.violation("ot:value:" + key_entry, "returned %r but the certified plan costs %.17g" % (ans["value"], float(fields["val"])), case)
        else:
            # certificate failed: decide the property on the real output by an independent LP solve
            res.count("certificate_failed" + ("_smallcost" if known_small else ""))
            ref = ans.get("linprog")
            what = ("checker: %s, solver status %s, duality gap %.3g (against the exact inputs %.3g) > tolerance %.3g"
                    % ("reject " + toks[1] if toks[0] == "reject" else "shapes, f >= 0 and eps-dual feasibility hold", ans.get("status"),
                       float(fields.get("gap", 0)), float(fields.get("gapab", 0)), float(TOL * maxC)))
            res.corr_fail("ot_certificate", case, "accepted with gap <= 1e-9 max C", cert[:300])
            if ans.get("status") == "MAX_ITER_REACHED":
                res.violation("ot:max-iter:" + key_entry, "pivot loop stopped at max_iter; returned value %r is not certified: %s" % (ans["value"], what), case)
            if ref is not None:
                subopt = float(value) - ref
                if subopt > 1e-6 * abs(ref) + 1e-9 * float(maxC):
                    res.violation("ot:%s:%s" % ("small-cost" if known_small else "suboptimal", key_entry),
                                  "returned %r, an independent LP solve gives %r (excess %.3g = %.3g of max C); %s"
                                  % (ans["value"], ref, subopt, subopt / float(maxC) if maxC else 0, what), case)
        # ---- independent cross-check on a subset -----------------------------------------------------------------
        if accepted and ans.get("linprog") is not None:
            res.count("linprog_crosschecks")
            if abs(float(value) - ans["linprog"]) > 1e-7 * float(maxC) + 1e-6 * abs(ans["linprog"]):
                res.violation("ot:linprog:" + key_entry, "certified value %r differs from scipy linprog %r" % (ans["value"], ans["linprog"]), case)
    # ---- relations between runs (all on real outputs) ---------------------------------------------------------------
    for rel in sc["rels"]:
        idx = rel["runs"]
        if any(vals[i] is None for i in idx):
            continue
        case = {"desc": desc, "rel": rel, **small_literal(sc["runs"][idx[0]])}
        mc = max(answers[i].get("maxC", 0.0) for i in idx)
        v0 = vals[idx[0]]
        res.count("rel_" + rel["rel"])
        if rel["rel"] == "symmetry":
            if abs(v0 - vals[idx[1]]) > 1e-9 * mc + 1e-9 * abs(v0):
                res.violation("ot:symmetry", "symmetric cost: d(x,y)=%r but d(y,x)=%r" % (v0, vals[idx[1]]), case)
        elif rel["rel"] == "zero":
            if abs(v0) > 1e-9 * mc:
                res.violation("ot:zero", "equal distributions under a zero-diagonal cost: got %r" % v0, case)
        elif rel["rel"] == "rescale":
            tol = (1e-12 if rel["exact"] else 1e-6) * mc + 1e-12 * abs(v0)
            if abs(v0 - vals[idx[1]]) > tol:
                res.violation("ot:rescale", "d(x,y)=%r but d(%g x, %g y)=%r" % (v0, rel["c"], rel["d"], vals[idx[1]]), case)
        elif rel["rel"] == "oned":
            run = sc["runs"][idx[0]]
            w = closed_form_1d(run["x"], run["y"])
            if abs(Fraction(v0) - w) > Fraction(1, 10**9) * Fraction(mc) + Fraction(1, 10**12):
                res.violation("ot:1d", "cost |i-j|: got %r, closed form sum|F-G| = %.17g" % (v0, float(w)), case)
            w1 = answers[idx[0]].get("w1d")
            if w1 is not None and abs(w1 - float(w)) > 1e-5 * max(1.0, float(w)):
                res.violation("ot:wasserstein1d", "wasserstein_1d(p=1)=%r but closed form = %.17g" % (w1, float(w)), case)
        elif rel["rel"] == "sparse-dense":
            if abs(v0 - vals[idx[1]]) > 1e-12 * mc + 1e-12 * abs(v0):
                res.violation("ot:sparse-dense", "sparse_kantorovich=%r but kantorovich on the densified vectors=%r" % (v0, vals[idx[1]]), case)
        elif rel["rel"] == "cost-scale":
            sc2 = 2.0 ** rel["scale"]           # exact: the two LPs differ by an exact factor
            res.count("cost_scale_2^%d_reldiff_%s" % (rel["scale"], "0" if vals[idx[1]] == v0 * sc2 else
                                                      "<1e-6" if abs(vals[idx[1]] / sc2 - v0) <= 1e-6 * abs(v0) else ">1e-6"))
            if abs(vals[idx[1]] / sc2 - v0) > 1e-6 * abs(v0) + 1e-9 * answers[idx[0]].get("maxC", 0.0):
                res.violation("ot:small-cost:scale" if rel["scale"] < 0 else "ot:large-cost:scale", "d(x,y,C)=%r but d(x,y,C*2^%d)*2^%d=%r" % (v0, rel["scale"], -rel["scale"], vals[idx[1]] / sc2), case)


def closed_form_1d(x, y):
    fx = [Fraction(float(t)) for t in x]; fy = [Fraction(float(t)) for t in y]
    sx, sy = sum(fx), sum(fy)
    F_ = G_ = Fraction(0); w = Fraction(0)
    for a, b in zip(fx, fy):
        F_ += a / sx; G_ += b / sy
        w += abs(F_ - G_)
    return w


def case_canon(run):
    h = hashlib.sha1()
    for k in ("x", "y", "C", "ind1", "data1", "ind2", "data2"):
        if k in run:
            h.update(np.ascontiguousarray(run[k]).tobytes())
    return (run["entry"], run.get("gm"), run.get("of"), h.hexdigest())


def process(res, descs, linprog_all=False):
    scs = [make_scenario(d) for d in descs]
    pending = list(range(len(scs)))
    answers = {i: [] for i in pending}
    t_real = 0.0
    while pending:
        w = Worker()
        w.feed([{"sid": i, "desc": scs[i]["desc"], "linprog_all": linprog_all} for i in pending])
        cur = None
        while pending:
            cur = pending[0]
            a = w.recv()
            if a == "timeout" or a is None:
                ri = len(answers[cur])
                run = scs[cur]["runs"][ri] if ri < len(scs[cur]["runs"]) else scs[cur]["runs"][-1]
                case = {"desc": scs[cur]["desc"], "run": ri, **small_literal(run)}
                if a == "timeout":
                    res.violation("ot:hang", "no answer within the deadline (%.0f s): the solver did not terminate" % RUN_DEADLINE, case)
                else:
                    rc = w.p.wait()
                    time.sleep(0.2)
                    res.violation("ot:crash", "worker process died (exit %s): %s" % (rc, "".join(w.err)[-600:]), case)
                w.kill()
                pending.pop(0)          # skip the scenario that hung / crashed, restart a worker for the rest
                answers[cur] = None
                res.count("worker_lost")
                if res.hist.get("worker_lost", 0) >= 3:
                    # three scenarios lost to a hang or a crash are three failing inputs: the remaining ones would each cost a
                    # deadline plus a worker start, and the check would run into its own time limit instead of reporting
                    res.notes.append("stopped after 3 hung / crashed scenarios; %d scenarios of this batch not run" % len(pending))
                    for i_ in pending:
                        answers[i_] = None
                    pending = []
                break
            assert a["sid"] == cur, (a["sid"], cur)
            answers[cur].append(a)
            t_real += a.get("t", 0.0)
            if a["last"]:
                pending.pop(0)
        else:
            w.p.wait()
    # Lean certification of every run, in batches
    jobs = [(i, ri) for i in range(len(scs)) if answers[i] for ri, a in enumerate(answers[i]) if a.get("line")]
    certs = {}
    B = 40
    t0 = time.time()
    for s in range(0, len(jobs), B):
        chunk = jobs[s:s + B]
        outs = certify_batch([answers[i][ri]["line"] for (i, ri) in chunk])
        for (i, ri), o in zip(chunk, outs):
            certs[(i, ri)] = o
            answers[i][ri]["line"] = None
    res.notes.append("real solver time %.1f s; Lean certification of %d runs %.1f s" % (t_real, len(jobs), time.time() - t0))
    for i, sc in enumerate(scs):
        if answers[i]:
            evaluate(res, sc, answers[i], [certs.get((i, ri)) for ri in range(len(answers[i]))])


def run(res, tier, seed, search):
    res.rule = ("runs of distances.kantorovich / sparse.sparse_kantorovich: all pairs of support patterns for dims 1..4; random dims 1..%d x mass kinds %s "
                "x cost kinds %s; swapped arguments (symmetric cost), equal distributions (zero-diagonal cost), rescaled inputs, |i-j| cost vs closed form / "
                "wasserstein_1d, sparse entry with three ground metrics vs the densified call, cost matrices scaled by 2^-20..2^-40; EVERY run certified by the "
                "Lean checker (gap <= 1e-9 max C, residuals <= 1e-9 against the exactly normalised inputs, returned value = <C,f>); "
                "non-trivial = both masked dimensions >= 2 and >= 2 distinct cost values; distinct = hash of the input arrays"
                % (60 if tier == "quick" else 200, MASS_KINDS, COST_KINDS))
    process(res, all_descs(tier, seed, search))


def replay(res, doc):
    descs = []
    for c in doc.get("cases", []):
        d = c["case"].get("desc")
        if d and d not in descs:
            descs.append(d)
    process(res, descs, linprog_all=True)


if __name__ == "__main__":
    if len(sys.argv) > 1 and sys.argv[1] == "--worker":
        worker_main()
    else:
        std_main("C10", run, replay)
