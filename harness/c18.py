"""C18 — the scikit-learn transformer reports exactly what the index found.
transform(X) vs index_.query(X, n_neighbors, search_epsilon) and fit_transform(X) vs index_.neighbor_graph,
entry-for-entry and bit-for-bit; the CSR assembly is also compared with the Lean model of coo -> tocsr."""
import sys, os, warnings
sys.path.insert(0, os.path.dirname(os.path.dirname(os.path.abspath(__file__))))
from harness.common import *
setup_numba_cache()
warnings.filterwarnings("ignore")
import numpy as np, numba, scipy.sparse as sp
from pynndescent import PyNNDescentTransformer
from harness import api, oracles

COMBOS = [("euclidean", "dense32"), ("cosine", "dense32"), ("manhattan", "dense64"), ("cosine", "csr"), ("hellinger", "dense32"),
          ("minkowski", "dense32"), ("jaccard", "dense32"), ("euclidean", "csr"), ("correlation", "dense32"), ("dot", "dense32")]


def csr_triples(M):
    M = M.tocsr(); M.sort_indices()
    out = []
    for i in range(M.shape[0]):
        for j in range(M.indptr[i], M.indptr[i + 1]):
            out.append((i, int(M.indices[j]), f32bits(M.data[j])))
    return out


def expect_triples(inds, dists):
    out = []
    for i in range(inds.shape[0]):
        for c, d in zip(inds[i], dists[i]):
            if c >= 0:
                out.append((i, int(c), f32bits(np.float32(d))))
    return sorted(out)


def model_triples(inds, dists):
    line = "xform %d | %s | %s" % (inds.shape[1], ints_row(inds.ravel()), bits_row(np.asarray(dists, dtype=np.float32)))
    toks = run_driver([line])[0].split(" ")
    toks = [t for t in toks if t]
    return [(int(toks[i]), int(toks[i + 1]), int(toks[i + 2])) for i in range(0, len(toks), 3)]


def check_case(res, rng, metric, kind, force=None):
    n = int(rng.choice([8, 40, 150])); k = int(rng.choice([2, 5, 9])); dim = 4
    if force:
        n, k = force.get("n", n), force.get("k", k)
    if n <= k + 1:
        n = k + 3
    X, L = api.gen_dataset(rng, metric, kind, n, dim)
    Q, QL = api.gen_dataset(rng, metric, kind, int(rng.choice([1, 7, 20])), dim)
    if sp.issparse(Q):
        Q = api.unsort_csr(rng, Q.tocsr())              # CSR queries whose columns are listed out of order (matrix products, X[:, cols])
    kw = api.metric_kwds(metric, rng, dim)
    params = {"search_epsilon": float(rng.choice([0.0, 0.1, 0.3])), "tree_init": bool(rng.integers(3) > 0),
              "low_memory": bool(rng.integers(2)), "n_jobs": [None, 2][int(rng.integers(2))], "random_state": int(rng.integers(10 ** 6))}
    if force:
        params.update({a: b for a, b in force.items() if a in params})
    case = {"metric": metric, "kind": kind, "n": n, "k": k, "kwds": kw, "params": params}
    key = "transformer:%s:%s" % (kind, metric)
    try:
        t = PyNNDescentTransformer(n_neighbors=k, metric=metric, metric_kwds=kw or None, **params)
        Ft = t.fit_transform(X)                      # (compresses the index afterwards: no neighbor graph left)
        t2 = PyNNDescentTransformer(n_neighbors=k, metric=metric, metric_kwds=kw or None, **params)
        t2.fit(X, compress_index=False)              # same seed, same data: the same index (C05), graph kept
        gi, gd = t2.index_.neighbor_graph
        Tt = t.transform(Q)
        qi, qd = t.index_.query(Q, k=k, epsilon=params["search_epsilon"])
        import pickle
        Tp = pickle.loads(pickle.dumps(t)).transform(Q)          # a persisted transformer (pipelines are) reports the same matrix
    except Exception as e:  # noqa
        res.violation(key + ":exception", "%s: %s" % (type(e).__name__, str(e)[:200]), case)
        return
    res.case((metric, kind, n, k, tuple(sorted((a, str(b)) for a, b in params.items())), np.asarray(L).tobytes()), True,
             sample={**case, "transform_row0": csr_triples(Tt)[:k]})
    res.count("kind_" + kind); res.traces += 2
    if csr_triples(Tp) != csr_triples(Tt):
        res.violation(key + ":persisted", "transform of the unpickled transformer differs from transform of the original: %s vs %s"
                      % (csr_triples(Tp)[:2], csr_triples(Tt)[:2]), case); return
    for name, M, inds, dists, rows, width in (("fit_transform", Ft, gi, gd, n, k + 1), ("transform", Tt, qi, qd, Q.shape[0], k)):
        if M.shape != (rows, n) or not sp.isspmatrix_csr(M):
            res.violation(key + ":shape", "%s returned %s of shape %s, expected CSR %s" % (name, type(M).__name__, M.shape, (rows, n)), case); return
        got = csr_triples(M); want = expect_triples(inds, dists)
        if inds.shape[1] != width:
            res.violation(key + ":width", "%s: index returned %d columns, expected %d" % (name, inds.shape[1], width), case); return
        if got != want:
            extra = [g for g in got if g not in want][:2]; missing = [w for w in want if w not in got][:2]
            res.violation(key + ":" + name, "%s stores entries that are not what the index returned: extra %s missing %s"
                          % (name, extra, missing), case); return
        mt = model_triples(inds, dists)
        if mt != got:
            res.corr_fail("transformer_tocsr", {**case, "call": name}, str(mt[:4]), str(got[:4]))
        if name == "fit_transform":
            per_row = np.diff(M.indptr)
            full = (gi >= 0).all(axis=1)
            if (per_row[full] != k + 1).any():
                res.violation(key + ":row-count", "fit_transform row has %s stored entries, expected n_neighbors+1=%d" % (per_row[full][:5], k + 1), case); return
    # values are the documented metric distances (predicate of C01/C02 on the same arrays)
    probs = oracles.answer_problems(L, QL, k, metric, kw, qi, qd) or oracles.graph_problems(L, k + 1, metric, kw, gi, gd)
    if probs:
        res.violation(key + ":value-" + probs[0][0], probs[0][1], case)


def epsilon_case(res, rng):
    """search_epsilon is part of the contract: with epsilon 0.0 (pure greedy search, a legal and *falsy* value) on data
    where 0.0 and the default 0.1 find different neighbours, transform must equal query(..., epsilon=0.0)"""
    n, dim, k = 1200, 30, 8
    X = rng.standard_normal((n, dim)).astype(np.float32); Q = rng.standard_normal((150, dim)).astype(np.float32)
    t = PyNNDescentTransformer(n_neighbors=k, search_epsilon=0.0, random_state=int(rng.integers(10 ** 6)), n_jobs=None)
    t.fit(X)
    Tt = t.transform(Q)
    qi, qd = t.index_.query(Q, k=k, epsilon=0.0)
    q1, _ = t.index_.query(Q, k=k, epsilon=0.1)
    case = {"n": n, "dim": dim, "k": k, "search_epsilon": 0.0}
    res.case(("epsilon0", n, dim, k, X.tobytes()[:64]), nontrivial=not np.array_equal(qi, q1), sample={**case, "rows_differing_between_eps_0_and_0.1": int((qi != q1).any(axis=1).sum())})
    res.count("epsilon_zero_case"); res.traces += 1
    if csr_triples(Tt) != expect_triples(qi, qd):
        res.violation("transformer:dense32:euclidean:transform-epsilon", "transform with search_epsilon=0.0 does not store what "
                      "index_.query(X, k, epsilon=0.0) returns", case)


def unfilled_case(res, rng):
    """slots for which no neighbour was found (-1) must not become stored entries, whatever value the distance correction gives
    them (cosine / dot map the inf of an unfilled slot to 1.0)"""
    for metric, n, k, zero_q in (("cosine", 40, 5, True), ("cosine", 4, 6, False), ("euclidean", 4, 6, False)):
        X = np.abs(rng.standard_normal((n, 4))).astype(np.float32) + np.float32(0.1)
        Q = np.abs(rng.standard_normal((6, 4))).astype(np.float32) + np.float32(0.1)
        if zero_q:
            Q[1] = 0.0; Q[4] = 0.0
        case = {"metric": metric, "n": n, "k": k, "zero_norm_queries": zero_q}
        try:
            t = PyNNDescentTransformer(n_neighbors=k, metric=metric, random_state=int(rng.integers(10 ** 6)))
            t.fit(X)
            qi, qd = t.index_.query(Q, k=k, epsilon=0.1)
            Tt = t.transform(Q)
            got = csr_triples(Tt)
        except Exception as e:  # noqa
            res.violation("transformer:dense32:%s:exception" % metric, "%s: %s" % (type(e).__name__, str(e)[:200]), case)
            continue
        res.case(("unfilled", metric, n, k, zero_q), nontrivial=bool((qi < 0).any()), sample={**case, "unfilled_slots": int((qi < 0).sum())})
        res.count("unfilled_case"); res.traces += 1
        if Tt.shape != (6, n) or got != expect_triples(qi, qd):
            bad = [g for g in got if g[1] < 0 or g[1] >= n][:3]
            res.violation("transformer:dense32:%s:unfilled" % metric, "transform stores entries that are not neighbours the index found "
                          "(shape %s, entries outside the fitted rows: %s; %d unfilled slots in the answer)" % (Tt.shape, bad, int((qi < 0).sum())), case)


def run(res, tier, seed, search):
    rng = np.random.default_rng(seed + 1818)
    res.rule = ("(metric, data kind) x sizes x transformer parameters (n_neighbors, search_epsilon, metric_kwds, tree_init, low_memory, n_jobs); "
                "CSR triples of transform / fit_transform compared exactly with the arrays the index returns and with the Lean coo->tocsr model; "
                "every case non-trivial; distinct = hash of data and parameters")
    nc, reps = (3, 2) if tier == "quick" else (len(COMBOS), 5)
    if search:
        reps *= 3
    epsilon_case(res, rng)
    unfilled_case(res, rng)
    check_case(res, rng, "dot", "dense32")          # the normalising metric has its own glue in the constructor: every seed
    # random seeding only (no tree), k close to n: every neighbour is reached through the random candidates of the sparse closure
    for r in range(2):
        check_case(res, rng, "euclidean", "csr", force={"tree_init": False, "n": 40, "k": 9, "search_epsilon": 0.3})
    check_case(res, rng, "hamming", "csr")           # so do the sparse metrics that take the feature count (n_samples != n_features)
    start = (seed * nc) % len(COMBOS)
    for i in range(nc):
        metric, kind = COMBOS[(start + i) % len(COMBOS)]
        for r in range(reps):
            check_case(res, rng, metric, kind)


if __name__ == "__main__":
    std_main("C18", run)
