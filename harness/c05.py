"""C05 — bit-reproducibility: the same seeded history repeated under a fixed
thread count must produce bit-identical graphs, generator states, search
structures and query answers after every step; repeating a query returns the
same answer; earlier queries never influence later ones.

Tie of the schedule theorem to the code: the ownership classes that translate_prange.py assigns (Gen/Prange.lean) are
validated on every run by harness/footprint_trace.py — a child process that runs the library in interpreter mode
(NUMBA_DISABLE_JIT) and records, per prange iteration, every element read and written (see footprint_verdict below)."""
import sys, os, hashlib, json
sys.path.insert(0, os.path.dirname(os.path.dirname(os.path.abspath(__file__))))
from harness.common import *
setup_numba_cache()
import numpy as np, numba, scipy.sparse as sp
from pynndescent import NNDescent
from harness import footprint_trace as fpt


def H(*arrs):
    h = hashlib.sha1()
    for a in arrs:
        a = np.ascontiguousarray(a)
        h.update(str(a.dtype).encode()); h.update(str(a.shape).encode()); h.update(a.tobytes())
    return h.hexdigest()[:12]


def state_digest(idx, with_search):
    d = {}
    if hasattr(idx, "_neighbor_graph"):
        d["graph"] = H(idx._neighbor_graph[0], idx._neighbor_graph[1])
    d["rng_state"] = H(idx.rng_state)
    d["search_rng_state"] = H(idx.search_rng_state)
    if with_search and hasattr(idx, "_search_graph"):
        g = idx._search_graph
        d["search_graph"] = H(g.indptr, g.indices)
        d["vertex_order"] = H(idx._vertex_order)
    return d


def make_data(cfg):
    rng = np.random.default_rng(cfg["data_seed"])
    n, dim = cfg["n"], cfg["dim"]
    if cfg["kind"] == "dense":
        X = rng.standard_normal((n, dim)).astype(np.float32)
        if cfg["ties"]:
            X = np.round(X * 2).astype(np.float32)
        Q = rng.standard_normal((cfg["nq"], dim)).astype(np.float32)
        if cfg["ties"]:
            Q = np.round(Q * 2).astype(np.float32)        # lattice queries: exactly zero margins in the tree descent (random tie-breaks)
        U = rng.standard_normal((cfg["nu"], dim)).astype(np.float32)
    else:
        X = sp.random(n, dim, density=0.3, format="csr", dtype=np.float32, random_state=cfg["data_seed"])
        Q = sp.random(cfg["nq"], dim, density=0.3, format="csr", dtype=np.float32, random_state=cfg["data_seed"] + 1)
        U = None
    return X, Q, U


def history(cfg, skip_first_query=False):
    """build -> [query] -> prepare -> query x2 (+ second batch) -> [update -> query]; digest after every step."""
    X, Q, U = make_data(cfg)
    numba.set_num_threads(cfg["threads"])
    steps = []
    if cfg.get("metric") == "cosine" and cfg["kind"] == "dense":
        Q = Q.copy(); Q[::7] = 0.0                  # zero-norm queries: rows the search skips must come back the same every time too
    idx = NNDescent(X, n_neighbors=cfg["k"], random_state=cfg["seed"], low_memory=cfg["low_memory"], metric=cfg.get("metric", "euclidean"),
                    diversify_prob=cfg["dprob"], parallel_batch_queries=cfg["pbq"], tree_init=cfg["tree_init"],
                    n_jobs=cfg.get("n_jobs"), max_candidates=cfg.get("max_candidates"))
    steps.append(("build", state_digest(idx, False)))
    idx.prepare()
    steps.append(("prepare", state_digest(idx, True)))
    Q1, Q2 = Q[: cfg["nq"] // 2], Q[cfg["nq"] // 2:]
    if not skip_first_query:
        a = idx.query(Q1, k=cfg["qk"], epsilon=cfg["eps"])
        steps.append(("query1", {"ans": H(*a), **state_digest(idx, True)}))
        b = idx.query(Q1, k=cfg["qk"], epsilon=cfg["eps"])
        steps.append(("query1-again", {"ans": H(*b)}))
    c = idx.query(Q2, k=cfg["qk"], epsilon=cfg["eps"])
    steps.append(("query2", {"ans": H(*c), **state_digest(idx, True)}))
    if cfg["update"] and U is not None:
        idx.update(xs_fresh=U)
        steps.append(("update", state_digest(idx, False)))
        idx.prepare()
        e = idx.query(Q2, k=cfg["qk"], epsilon=cfg["eps"])
        steps.append(("query-after-update", {"ans": H(*e), **state_digest(idx, True)}))
    return steps


def history_keeps_thread_count(cfg):
    """the premise of the property - a FIXED thread count - must survive the history itself: an operation that leaves the process-wide
    count changed makes everything after it run under another partition of the rows and other per-thread generator streams"""
    X, Q, U = make_data(cfg)
    numba.set_num_threads(cfg["threads"])
    idx = NNDescent(X, n_neighbors=cfg["k"], random_state=cfg["seed"], low_memory=cfg["low_memory"], tree_init=cfg["tree_init"],
                    n_jobs=cfg.get("n_jobs"))
    seen = [("build", numba.get_num_threads())]
    idx.prepare(); seen.append(("prepare", numba.get_num_threads()))
    idx.query(Q[:20], k=cfg["qk"]); seen.append(("query", numba.get_num_threads()))
    if U is not None and cfg["kind"] == "dense":
        idx.update(xs_fresh=U); seen.append(("update", numba.get_num_threads()))
        idx.query(Q[:20], k=cfg["qk"]); seen.append(("query-after-update", numba.get_num_threads()))
    return [(s, t) for s, t in seen if t != cfg["threads"]]


def gen_cfg(rng, tier, i):
    kind = "dense" if i % 3 != 2 else "sparse"
    maxt = numba.config.NUMBA_NUM_THREADS
    return {
        "kind": kind, "n": int(rng.choice([600, 1500, 3000])), "dim": int(rng.choice([4, 8])) if kind == "dense" else 30,
        "k": int(rng.choice([5, 10, 15])), "seed": int(rng.integers(0, 1000)), "data_seed": int(rng.integers(0, 10 ** 6)),
        "low_memory": bool(rng.integers(2)), "dprob": float(rng.choice([1.0, 0.5, 0.5])), "pbq": bool(rng.integers(2)),
        "tree_init": bool(rng.integers(4) > 0), "threads": int(rng.choice([2, 3, 4, 8, maxt, maxt])),
        "nq": 400, "nu": 100, "qk": int(rng.choice([5, 10])), "eps": float(rng.choice([0.0, 0.1, 0.3])),
        "update": bool(rng.integers(2)) and kind == "dense", "ties": bool(rng.integers(3) == 0) or i == 1,
        # the index's own limit (below the ambient count): its work runs on n_jobs threads, everything else on the ambient count
        "n_jobs": [None, None, 2][int(rng.integers(3))] if i != 0 else 2,
        "metric": "cosine" if i % 3 == 1 else "euclidean",
    }


def check_cfg(res, cfg, reps):
    runs = []
    for r in range(reps):
        runs.append(history(cfg))
    ref = runs[0]
    key = "%s:%s" % (cfg["kind"], "pbq" if cfg["pbq"] else "serial")
    nontrivial = cfg["threads"] >= 2 and (cfg["dprob"] < 1.0 or cfg["pbq"] or cfg["n"] >= 1500)
    res.case(tuple(sorted(cfg.items())), nontrivial, sample={"cfg": cfg, "steps": [s for s, _ in ref], "digests": ref[1][1]})
    res.count("kind_" + cfg["kind"]); res.count("threads_%d" % cfg["threads"])
    res.count("dprob<1" if cfg["dprob"] < 1 else "dprob=1"); res.count("pbq" if cfg["pbq"] else "serial-query")
    res.traces += reps
    for r, run in enumerate(runs[1:], 1):
        for (s0, d0), (s1, d1) in zip(ref, run):
            diff = [k for k in d0 if d0[k] != d1.get(k)]
            if diff:
                res.violation("repro:%s:%s" % (key, s0), "repetition %d differs from repetition 0 after step %s in %s"
                              % (r, s0, diff), {"cfg": cfg, "step": s0, "fields": diff})
                return
    bad = history_keeps_thread_count(cfg) if cfg.get("n_jobs") else []
    if bad:
        res.violation("repro:%s:thread-count-changed" % key, "with %d threads set (n_jobs=%r) the process-wide count is %d after %s: later work no "
                      "longer runs at the fixed thread count" % (cfg["threads"], cfg.get("n_jobs"), bad[0][1], bad[0][0]), {"cfg": cfg})
    # repeating a query returns the same answer
    d = dict(ref)
    if "query1" in d and d["query1"]["ans"] != d["query1-again"]["ans"]:
        res.violation("repro:%s:query-repeat" % key, "the same query returned a different answer the second time", {"cfg": cfg})
    # earlier queries never influence later ones
    alt = dict(history(cfg, skip_first_query=True))
    if alt["query2"]["ans"] != d["query2"]["ans"]:
        res.violation("repro:%s:query-influence" % key, "answer to batch 2 depends on whether batch 1 was queried before", {"cfg": cfg})


def cfg_from_scenario(sc, threads, i):
    """a full-size history with the features of the (tiny) interpreter-mode scenario in which the recorder saw a conflict"""
    kind = sc["kind"] if sc else ("dense" if i % 2 == 0 else "sparse")
    return {"kind": kind, "n": 1500, "dim": 8 if kind == "dense" else 30, "k": 10, "seed": int(sc["seed"]) if sc else 7 + i,
            "data_seed": int(sc["data_seed"]) if sc else 1000 + i, "low_memory": bool(sc["low_memory"]) if sc else bool(i % 2),
            "dprob": 0.5, "pbq": bool(sc["pbq"]) if sc else True, "tree_init": bool(sc["tree_init"]) if sc else True,
            "threads": threads, "nq": 400, "nu": 100, "qk": 10, "eps": 0.1, "update": kind == "dense",
            "ties": bool(sc["ties"]) if sc else False, "n_jobs": None, "metric": sc["metric"] if sc else "euclidean"}


def footprint_verdict(res, handles, tier, seed):
    """Compare what the interpreter-mode recorder saw with the generated table Gen/Prange.lean.
    A recorder that did not run (crash, timeout, failed self-test) is a note, never a finding."""
    h, hp = handles
    budget = 150 if tier == "quick" else 900
    doc, why = (None, "the tracer process could not be started: %s" % h["error"]) if "error" in h else fpt.collect(h, budget)
    plain, _why2 = (None, None) if "error" in hp else fpt.collect(hp, 30)
    if doc is None:
        res.notes.append("dynamic footprint validation did not run: %s" % why)
        res.count("footprint:not-run")
        return
    if not doc.get("selftest", {}).get("ok"):
        res.notes.append("dynamic footprint validation did not run: the recorder's self-test (synthetic racy / owned prange loops) failed: %s"
                         % json.dumps(doc.get("selftest"))[:600])
        res.count("footprint:not-run")
        return
    for e in doc.get("errors", []):
        res.notes.append("dynamic footprint validation incomplete: %s" % (json.dumps(e)[:700]))
        res.count("footprint:scenario-error")
    try:
        static = fpt.static_table()
    except Exception as e:  # noqa
        res.notes.append("dynamic footprint validation did not run: Gen/Prange.lean unreadable: %s" % e)
        res.count("footprint:not-run")
        return
    # joblib task loops (`module.function@joblib#k`) are in the table for the Lean obligation only: the recorder observes prange
    static = {n: v for n, v in static.items() if "@joblib" not in n}
    seen = sorted(doc.get("enumerated", []))
    if seen != sorted(static):
        # the table the Lean obligation is decided over and the loops of the running library are not the same set
        res.corr_fail("footprint:enumeration", {"library": doc.get("library")}, sorted(static), seen)
    loops = doc["loops"]
    index_loops = sorted(n for n, v in static.items() if v["scope"] == "index")
    exercised = [n for n in index_loops if loops.get(n, {}).get("tracked_executions", 0) > 0 and loops[n]["iterations"] > 0]
    serial_only = [n for n in index_loops if n not in exercised and loops.get(n, {}).get("executions", 0) > 0]
    not_reached = [n for n in index_loops if n not in exercised and n not in serial_only]
    tot = {k: sum(loops[n][k] for n in loops) for k in ("tracked_executions", "iterations", "reads", "writes", "elements")}
    res.count("footprint:index-loops-in-table", len(index_loops))
    res.count("footprint:index-loops-exercised", len(exercised))
    res.count("footprint:index-loops-not-reached", len(not_reached) + len(serial_only))
    res.count("footprint:loop-executions-recorded", tot["tracked_executions"])
    res.count("footprint:iterations-recorded", tot["iterations"])
    res.count("footprint:element-reads-recorded", tot["reads"])
    res.count("footprint:element-writes-recorded", tot["writes"])
    res.count("footprint:scenarios", len(doc.get("scenarios", [])))
    for n in exercised:
        res.count("footprint:iterations:" + n, loops[n]["iterations"])
    other = sorted(n for n in loops if n not in index_loops and loops[n]["tracked_executions"] > 0)
    res.notes.append(
        "dynamic footprint validation (interpreter mode, %s, %d tiny scenarios + init_graph/score_tree extras, child wall %.1f s, "
        "caller blocked %.1f s): %d/%d index loops of Gen/Prange.lean exercised, %d loop executions, %d iterations, %d element reads, "
        "%d element writes over %d distinct elements; arrays recorded per loop: %s; closure-captured arrays recorded: %s; "
        "NOT reached: %s; reached only with parallel=False (serial in the library too, nothing to check): %s; "
        "also exercised outside the index scope: %s; recorder self-test: %d synthetic loops ok"
        % (doc.get("library"), len(doc.get("scenarios", [])), doc.get("wall_s", -1), doc.get("blocked_s", -1), len(exercised),
           len(index_loops), tot["tracked_executions"], tot["iterations"], tot["reads"], tot["writes"], tot["elements"],
           {n: loops[n]["arrays"] for n in exercised}, doc.get("closure_arrays"), not_reached or "none", serial_only or "none",
           other or "none", len(doc["selftest"].get("cases", {}))))
    if plain is not None and plain.get("results_digest") and not doc.get("errors") and not plain.get("errors"):
        if plain["results_digest"] == doc.get("results_digest"):
            res.count("footprint:recorder-transparent")
        else:
            res.notes.append("dynamic footprint validation: the recorded run and a plain interpreter-mode run of the same scenarios "
                             "computed different results (%s vs %s): the recorder changes the computation, its verdicts are suspect"
                             % (doc.get("results_digest"), plain["results_digest"]))
            res.count("footprint:recorder-not-transparent")
    # ---- verdicts against the static table
    bad_scen = []
    for c in doc.get("conflicts", []):
        st = static.get(c["loop"])
        what = ("%s conflict on %s%s (shape %s) between iterations %s of %s; %d conflicting (element, iteration pair)s in that loop "
                "execution; scenario %s" % (c["kind"], c["array"], c["element"], c.get("shape"), c["iterations"], c["loop"],
                                            c["n_conflicting_pairs_in_this_execution"], c["scenario"]))
        if st is None:
            continue
        if not st["noninterfering"]:
            res.count("footprint:conflict-agrees-with-static-interfering:" + c["loop"])
            continue
        sid = (c.get("cfg") or {}).get("id", "x")
        case = {"loop": c["loop"], "array": c["array"], "element": c["element"], "iterations": c["iterations"], "kind": c["kind"],
                "scenario": c["scenario"], "scenario_cfg": c.get("cfg"), "static_classes": sorted(set(st["classes"])),
                "replay": "cd %s && PYNN_REPO=%s %s -m harness.footprint_trace --seed %d --tier %s --only %s --out .cache/footprint/replay.json "
                          "&& cat .cache/footprint/replay.json" % (VERIF, REPO, sys.executable, seed, tier, sid)}
        res.corr_fail("footprint:" + c["loop"], case, "owned", what)
        if c.get("cfg") not in bad_scen:
            bad_scen.append(c.get("cfg"))
    agree = sorted(n for n in loops if loops[n]["conflicts"] and n in static and not static[n]["noninterfering"])
    if agree:
        res.notes.append("dynamic footprint validation: conflicts recorded in loops the static table already classifies as interfering "
                         "(the table and the running code agree): %s" % {n: loops[n]["conflicts"] for n in agree})
    if bad_scen:
        # the generated model says `owned`, the running code shares a location between iterations: evaluate the property
        # predicate itself on full-size histories with the features of the offending scenarios, more repetitions, several thread counts
        maxt = numba.config.NUMBA_NUM_THREADS
        for i, sc in enumerate(bad_scen[:2]):
            for t in sorted({min(4, maxt), maxt}):
                check_cfg(res, cfg_from_scenario(sc, t, i), 8 if tier == "quick" else 16)
        numba.set_num_threads(maxt)


def check_bits_build(res, seed, reps):
    """a bit-packed index: its forest is built by a joblib thread pool (one task per tree, each with its own generator row);
    repeated seeded builds must give the same graph bit for bit"""
    from pynndescent import NNDescent
    rs = np.random.default_rng(9000 + seed)
    X = rs.integers(0, 256, size=(12000, 16), dtype=np.uint8)
    cfg = {"kind": "bits", "n": 12000, "bytes": 16, "metric": "bit_hamming", "n_trees": 8, "n_jobs": -1, "seed": 1234 + seed}
    numba.set_num_threads(numba.config.NUMBA_NUM_THREADS)
    digs = []
    for r in range(reps):
        idx = NNDescent(X, metric="bit_hamming", n_neighbors=10, n_trees=8, random_state=cfg["seed"], n_jobs=-1)
        digs.append(H(idx._neighbor_graph[0], idx._neighbor_graph[1], idx.rng_state))
    res.case(("bits-build", seed), True, sample={"cfg": cfg, "digest": digs[0]})
    res.count("kind_bits"); res.traces += reps
    if len(set(digs)) > 1:
        res.violation("repro:bits:build", "repeated seeded builds of a bit-packed index differ (%d distinct graphs in %d builds)"
                      % (len(set(digs)), reps), {"cfg": cfg})


def run(res, tier, seed, search):
    rng = np.random.default_rng(seed + 77)
    res.rule = ("seeded histories build->prepare->query x2->query->[update->prepare->query] repeated R times in-process under a fixed "
                "thread count, SHA-1 of graph / rng_state / search_rng_state / search graph / vertex order / answers compared after "
                "every step; plus query-repeat and query-independence; non-trivial = >=2 threads and (diversify_prob<1 or parallel "
                "batch queries or n>=1500); plus, in a child process, the interpreter-mode footprint recorder that checks the "
                "ownership classes of Gen/Prange.lean against every element access of every prange iteration on tiny inputs")
    # the recorder needs NUMBA_DISABLE_JIT and therefore its own process; it overlaps with the JIT-bound work below
    handles = []
    for plain in (False, True):
        try:
            handles.append(fpt.start(seed, tier, plain=plain))
        except Exception as e:  # noqa
            handles.append({"error": "%s: %s" % (type(e).__name__, e)})
    ncfg, reps = (6, 4) if tier == "quick" else (24, 8)
    if search:
        ncfg, reps = ncfg * 2, reps * 2
    maxt = numba.config.NUMBA_NUM_THREADS
    try:
        for i in range(ncfg):
            check_cfg(res, gen_cfg(rng, tier, i), reps)
        if search or tier != "quick":
            check_bits_build(res, seed, 5)
        numba.set_num_threads(maxt)
    finally:
        footprint_verdict(res, handles, tier, seed)


def replay(res, doc):
    for c in doc.get("cases", []):
        if isinstance(c.get("case"), dict) and "cfg" in c["case"]:
            check_cfg(res, c["case"]["cfg"], 8)
    # recorded ownership conflicts: re-run the recorder on the scenarios that showed them
    ids = sorted({(c["case"].get("scenario_cfg") or {}).get("id", "x") for c in doc.get("corr_failures", [])
                  if str(c.get("correspondence", "")).startswith("footprint:") and isinstance(c.get("case"), dict)})
    if ids:
        seed, tier = int(doc.get("seed", 0)), doc.get("tier", "quick")
        try:
            h = fpt.start(seed, tier, only=",".join(ids))
        except Exception as e:  # noqa
            h = {"error": "%s: %s" % (type(e).__name__, e)}
        footprint_verdict(res, (h, {"error": "not needed for a replay"}), tier, seed)


if __name__ == "__main__":
    std_main("C05", run, replay)
