"""C05 — bit-reproducibility: the same seeded history repeated under a fixed
thread count must produce bit-identical graphs, generator states, search
structures and query answers after every step; repeating a query returns the
same answer; earlier queries never influence later ones."""
import sys, os, hashlib
sys.path.insert(0, os.path.dirname(os.path.dirname(os.path.abspath(__file__))))
from harness.common import *
setup_numba_cache()
import numpy as np, numba, scipy.sparse as sp
from pynndescent import NNDescent


def H(*arrs):
    h = hashlib.sha1()
    for a in arrs:
        a = np.ascontiguousarray(a)
        h.update(str(a.dtype).encode()); h.update(str(a.shape).encode()); h.update(a.tobytes())
    return h.hexdigest()[:12]


def state_digest(idx, with_search):
    d = {}
    if hasattr(idx, "_neighbor_graph"):
        d["graph"] = H(idx._neighbor_graph[0], idx._neighbor_graph[1])
    d["rng_state"] = H(idx.rng_state)
    d["search_rng_state"] = H(idx.search_rng_state)
    if with_search and hasattr(idx, "_search_graph"):
        g = idx._search_graph
        d["search_graph"] = H(g.indptr, g.indices)
        d["vertex_order"] = H(idx._vertex_order)
    return d


def make_data(cfg):
    rng = np.random.default_rng(cfg["data_seed"])
    n, dim = cfg["n"], cfg["dim"]
    if cfg["kind"] == "dense":
        X = rng.standard_normal((n, dim)).astype(np.float32)
        if cfg["ties"]:
            X = np.round(X * 2).astype(np.float32)
        Q = rng.standard_normal((cfg["nq"], dim)).astype(np.float32)
        if cfg["ties"]:
            Q = np.round(Q * 2).astype(np.float32)        # lattice queries: exactly zero margins in the tree descent (random tie-breaks)
        U = rng.standard_normal((cfg["nu"], dim)).astype(np.float32)
    else:
        X = sp.random(n, dim, density=0.3, format="csr", dtype=np.float32, random_state=cfg["data_seed"])
        Q = sp.random(cfg["nq"], dim, density=0.3, format="csr", dtype=np.float32, random_state=cfg["data_seed"] + 1)
        U = None
    return X, Q, U


def history(cfg, skip_first_query=False):
    """build -> [query] -> prepare -> query x2 (+ second batch) -> [update -> query]; digest after every step."""
    X, Q, U = make_data(cfg)
    numba.set_num_threads(cfg["threads"])
    steps = []
    if cfg.get("metric") == "cosine" and cfg["kind"] == "dense":
        Q = Q.copy(); Q[::7] = 0.0                  # zero-norm queries: rows the search skips must come back the same every time too
    idx = NNDescent(X, n_neighbors=cfg["k"], random_state=cfg["seed"], low_memory=cfg["low_memory"], metric=cfg.get("metric", "euclidean"),
                    diversify_prob=cfg["dprob"], parallel_batch_queries=cfg["pbq"], tree_init=cfg["tree_init"],
                    n_jobs=cfg.get("n_jobs"), max_candidates=cfg.get("max_candidates"))
    steps.append(("build", state_digest(idx, False)))
    idx.prepare()
    steps.append(("prepare", state_digest(idx, True)))
    Q1, Q2 = Q[: cfg["nq"] // 2], Q[cfg["nq"] // 2:]
    if not skip_first_query:
        a = idx.query(Q1, k=cfg["qk"], epsilon=cfg["eps"])
        steps.append(("query1", {"ans": H(*a), **state_digest(idx, True)}))
        b = idx.query(Q1, k=cfg["qk"], epsilon=cfg["eps"])
        steps.append(("query1-again", {"ans": H(*b)}))
    c = idx.query(Q2, k=cfg["qk"], epsilon=cfg["eps"])
    steps.append(("query2", {"ans": H(*c), **state_digest(idx, True)}))
    if cfg["update"] and U is not None:
        idx.update(xs_fresh=U)
        steps.append(("update", state_digest(idx, False)))
        idx.prepare()
        e = idx.query(Q2, k=cfg["qk"], epsilon=cfg["eps"])
        steps.append(("query-after-update", {"ans": H(*e), **state_digest(idx, True)}))
    return steps


def history_keeps_thread_count(cfg):
    """the premise of the property - a FIXED thread count - must survive the history itself: an operation that leaves the process-wide
    count changed makes everything after it run under another partition of the rows and other per-thread generator streams"""
    X, Q, U = make_data(cfg)
    numba.set_num_threads(cfg["threads"])
    idx = NNDescent(X, n_neighbors=cfg["k"], random_state=cfg["seed"], low_memory=cfg["low_memory"], tree_init=cfg["tree_init"],
                    n_jobs=cfg.get("n_jobs"))
    seen = [("build", numba.get_num_threads())]
    idx.prepare(); seen.append(("prepare", numba.get_num_threads()))
    idx.query(Q[:20], k=cfg["qk"]); seen.append(("query", numba.get_num_threads()))
    if U is not None and cfg["kind"] == "dense":
        idx.update(xs_fresh=U); seen.append(("update", numba.get_num_threads()))
        idx.query(Q[:20], k=cfg["qk"]); seen.append(("query-after-update", numba.get_num_threads()))
    return [(s, t) for s, t in seen if t != cfg["threads"]]


def gen_cfg(rng, tier, i):
    kind = "dense" if i % 3 != 2 else "sparse"
    maxt = numba.config.NUMBA_NUM_THREADS
    return {
        "kind": kind, "n": int(rng.choice([600, 1500, 3000])), "dim": int(rng.choice([4, 8])) if kind == "dense" else 30,
        "k": int(rng.choice([5, 10, 15])), "seed": int(rng.integers(0, 1000)), "data_seed": int(rng.integers(0, 10 ** 6)),
        "low_memory": bool(rng.integers(2)), "dprob": float(rng.choice([1.0, 0.5, 0.5])), "pbq": bool(rng.integers(2)),
        "tree_init": bool(rng.integers(4) > 0), "threads": int(rng.choice([2, 3, 4, 8, maxt, maxt])),
        "nq": 400, "nu": 100, "qk": int(rng.choice([5, 10])), "eps": float(rng.choice([0.0, 0.1, 0.3])),
        "update": bool(rng.integers(2)) and kind == "dense", "ties": bool(rng.integers(3) == 0) or i == 1,
        # the index's own limit (below the ambient count): its work runs on n_jobs threads, everything else on the ambient count
        "n_jobs": [None, None, 2][int(rng.integers(3))] if i != 0 else 2,
        "metric": "cosine" if i % 3 == 1 else "euclidean",
    }


def check_cfg(res, cfg, reps):
    runs = []
    for r in range(reps):
        runs.append(history(cfg))
    ref = runs[0]
    key = "%s:%s" % (cfg["kind"], "pbq" if cfg["pbq"] else "serial")
    nontrivial = cfg["threads"] >= 2 and (cfg["dprob"] < 1.0 or cfg["pbq"] or cfg["n"] >= 1500)
    res.case(tuple(sorted(cfg.items())), nontrivial, sample={"cfg": cfg, "steps": [s for s, _ in ref], "digests": ref[1][1]})
    res.count("kind_" + cfg["kind"]); res.count("threads_%d" % cfg["threads"])
    res.count("dprob<1" if cfg["dprob"] < 1 else "dprob=1"); res.count("pbq" if cfg["pbq"] else "serial-query")
    res.traces += reps
    for r, run in enumerate(runs[1:], 1):
        for (s0, d0), (s1, d1) in zip(ref, run):
            diff = [k for k in d0 if d0[k] != d1.get(k)]
            if diff:
                res.violation("repro:%s:%s" % (key, s0), "repetition %d differs from repetition 0 after step %s in %s"
                              % (r, s0, diff), {"cfg": cfg, "step": s0, "fields": diff})
                return
    bad = history_keeps_thread_count(cfg) if cfg.get("n_jobs") else []
    if bad:
        res.violation("repro:%s:thread-count-changed" % key, "with %d threads set (n_jobs=%r) the process-wide count is %d after %s: later work no "
                      "longer runs at the fixed thread count" % (cfg["threads"], cfg.get("n_jobs"), bad[0][1], bad[0][0]), {"cfg": cfg})
    # repeating a query returns the same answer
    d = dict(ref)
    if "query1" in d and d["query1"]["ans"] != d["query1-again"]["ans"]:
        res.violation("repro:%s:query-repeat" % key, "the same query returned a different answer the second time", {"cfg": cfg})
    # earlier queries never influence later ones
    alt = dict(history(cfg, skip_first_query=True))
    if alt["query2"]["ans"] != d["query2"]["ans"]:
        res.violation("repro:%s:query-influence" % key, "answer to batch 2 depends on whether batch 1 was queried before", {"cfg": cfg})


def run(res, tier, seed, search):
    rng = np.random.default_rng(seed + 77)
    res.rule = ("seeded histories build->prepare->query x2->query->[update->prepare->query] repeated R times in-process under a fixed "
                "thread count, SHA-1 of graph / rng_state / search_rng_state / search graph / vertex order / answers compared after "
                "every step; plus query-repeat and query-independence; non-trivial = >=2 threads and (diversify_prob<1 or parallel "
                "batch queries or n>=1500)")
    ncfg, reps = (6, 4) if tier == "quick" else (24, 8)
    if search:
        ncfg, reps = ncfg * 2, reps * 2
    maxt = numba.config.NUMBA_NUM_THREADS
    for i in range(ncfg):
        check_cfg(res, gen_cfg(rng, tier, i), reps)
    numba.set_num_threads(maxt)


def replay(res, doc):
    for c in doc.get("cases", []):
        check_cfg(res, c["case"]["cfg"], 8)


if __name__ == "__main__":
    std_main("C05", run, replay)
