"""Independent float64 reference for every public name of
`pynndescent.distances.named_distances` (properties C07 / C08 / C09).

Nothing in this file imports pynndescent.  Each reference is either the scipy
function that defines the same quantity, or a direct numpy float64 transcription
of the mathematical definition (kernel docstring; failing that, what
/repo/pynndescent/tests/test_distances.py pins).  Where the code *deliberately*
differs from scipy the reference follows the code and its tests and says so in
`notes` (DESIGN.md N6).

SPEC[name] = dict(
  ref         callable(x, y, **kwds) -> float, or None when the definition gives no
              value for this input (undefined: zero vector for an angle; no documented
              definition: circular_kantorovich with p != 1) -- then only the
              NaN / exception / symmetry clauses are checked
  domain      "real" | "nonneg_mass" | "binary" | "bits" | "latlon"
  kwds_gen    callable(rng, dim) -> dict of metric arguments (rng: numpy Generator)
  argorder    positional order of those arguments in the kernel's signature
  orientation "distance" | "similarity"   (true_angular: identical inputs -> 1)
  clamp       (lo, hi) | None   range reported through the surrogate/correction path
  preimage    callable(value) -> value the tolerance is applied to, or None
  identity    bool  (False: f(x,x) is not the closest value by definition -- sinkhorn)
  self_value  what f(x,x) must be close to when identity holds (0, or 1 for true_angular)
  zero        "ok" (zero vectors are in the domain, all clauses checked) |
              "undefined" (generated; only NaN/exception/symmetry clauses) |
              "never" (outside the domain, not generated)
  unit_norm   inputs are L2-normalised before use (dot)
  extreme     magnitudes across [1e-18, 1e18] are generated (N5: only where every
              intermediate float32 square / product stays representable)
  mag         callable(x, y, kwds) -> natural magnitude of the output (tolerance rule)
  band        callable(x, y, kwds, scale) -> (lo, hi) of reference values reachable by
              perturbing the pre-image within the tolerance (tsss), or None
  notes       the decision taken for this metric
)
"""
import math
import numpy as np
from scipy.spatial import distance as sd
from scipy import stats, special
from scipy.optimize import linprog

F32MAX = float(np.finfo(np.float32).max)
F32EPS = float(np.finfo(np.float32).eps)
ABS_TOL = 1e-6
REL_TOL = 2.0 ** -19


def _f(x):
    return np.asarray(x, dtype=np.float64)


# --------------------------------------------------------------------------
# tolerance rule
# --------------------------------------------------------------------------
# close(a, r, name, scale) accepts iff neither is NaN, infinities are equal, and
#
#       |g(a) - g(r)|  <=  1e-6 * scale  +  2**-19 * max(|g(a)|, |g(r)|)
#
# where g is the metric's pre-image map (identity for most metrics; d**2 for
# hellinger, cos(pi(1-v)) for true_angular, 1-v for cosine/correlation/dot/
# spearmanr, sin^2(d/2) on the far half of haversine's range), i.e. the quantity
# the kernel's float32 arithmetic actually rounds before the last, amplifying,
# step.  `scale` (default 1) multiplies ONLY the absolute part and is computed by
# `abs_scale(name, x, y, kwds)`:
#
#       scale = max(1, dim / 8) * mag(x, y, kwds)
#
# * dim/8: a float32 (or float32-term) sum of `dim` products with mixed signs has
#   absolute rounding error up to dim * 2**-24 * sum|terms|  (= dim * 6e-8 for the
#   normalised sums of cosine / dot / hellinger / correlation, whose sum|terms| <= 1
#   by Cauchy-Schwarz), so 1e-6 covers dim <= 8 and grows linearly after that.
# * mag: the natural magnitude of the output for inputs of this size (1 for the
#   scale-free metrics; M = max|entry| for norms, M**2 for sqeuclidean, ...), so the
#   absolute part means "1e-6 of the output scale" at every magnitude in
#   [1e-18, 1e18] instead of accepting everything below 1e-6.
# With dim <= 64 in the generators the absolute part is at most 8e-6 of the output
# scale: a missing factor, wrong exponent or off-by-one count changes generic
# outputs by >= 1e-2 of that scale (binary family: >= 1/dim**2) and cannot pass.
# For tsss (value = A * theta * sin(theta), theta = arccos(c) + 10deg, not invertible
# from the value alone) the pre-image rule is applied as a band: the observed value
# must lie between the extreme reference values over c +- (1e-6*scale_c + 2**-19|c|).
# Likewise wasserstein_1d (pre-image = the vector of CDF differences; see band_wasserstein_1d).

def tol(a, r, scale=1.0):
    return ABS_TOL * scale + REL_TOL * max(abs(a), abs(r))


def close_plain(a, r, scale=1.0):
    a = float(a); r = float(r)
    if math.isnan(a) or math.isnan(r):
        return False
    if math.isinf(a) or math.isinf(r):
        return a == r
    return abs(a - r) <= tol(a, r, scale)


def close(a, r, name, scale=1.0, band=None):
    a = float(a); r = float(r)
    if math.isnan(a) or math.isnan(r):
        return False
    if math.isinf(a) or math.isinf(r):
        return a == r
    if band is not None:
        lo, hi = band
        lo = min(lo, r); hi = max(hi, r)
        return lo - tol(a, lo, scale) <= a <= hi + tol(a, hi, scale)
    g = SPEC[name]["preimage"]
    if g is not None:
        a, r = g(a), g(r)
    return abs(a - r) <= tol(a, r, scale)


def abs_scale(name, x, y, kwds):
    s = SPEC[name]
    dim = max(len(x), 1)
    if s["domain"] == "bits":
        dim *= 8
    m = s["mag"](x, y, kwds) if s["mag"] is not None else 1.0
    return max(1.0, dim / 8.0) * m


def clamp(name, v):
    c = SPEC[name]["clamp"]
    if c is None:
        return float(v)
    return float(min(max(v, c[0]), c[1]))


# --------------------------------------------------------------------------
# pre-image maps
# --------------------------------------------------------------------------
def _pre_one_minus(v):
    return 1.0 - v


def _pre_hellinger(d):
    return d * d


def _pre_true_angular(v):
    # v = 1 - theta/pi  ->  cos(theta); outside [0, 1] (e.g. a FLOAT32_MAX sentinel) unchanged
    if 0.0 <= v <= 1.0:
        return math.cos(math.pi * (1.0 - v))
    return v


def _pre_haversine(d):
    # d = 2 arcsin(sqrt(h)): arcsin amplifies the rounding of h near h = 1 (antipodes);
    # continuous, increasing map: identity on [0, pi/2], h - 1/2 + pi/2 beyond
    if d <= math.pi / 2 or d > math.pi + 1e-3:
        return d
    return math.pi / 2 + (math.sin(d / 2.0) ** 2 - 0.5)


# --------------------------------------------------------------------------
# references: Minkowski family
# --------------------------------------------------------------------------
def ref_euclidean(x, y):
    return float(sd.euclidean(_f(x), _f(y)))


def ref_sqeuclidean(x, y):
    return float(sd.sqeuclidean(_f(x), _f(y)))


def ref_manhattan(x, y):
    return float(sd.cityblock(_f(x), _f(y)))


def ref_chebyshev(x, y):
    return float(sd.chebyshev(_f(x), _f(y)))


def ref_minkowski(x, y, p=2):
    d = np.abs(_f(x) - _f(y))
    if p >= 1:
        return float(sd.minkowski(_f(x), _f(y), p=float(p)))
    return float(np.sum(d ** float(p)) ** (1.0 / float(p)))     # scipy refuses p < 1; docstring formula


def ref_seuclidean(x, y, sigma=None):
    return float(sd.seuclidean(_f(x), _f(y), _f(sigma)))


def ref_wminkowski(x, y, w=None, p=2):
    return float(sd.minkowski(_f(x), _f(y), p=float(p), w=_f(w)))


def ref_mahalanobis(x, y, vinv=None):
    return float(sd.mahalanobis(_f(x), _f(y), _f(vinv)))


# --------------------------------------------------------------------------
# references: other real-valued
# --------------------------------------------------------------------------
def ref_hamming(x, y):
    return float(sd.hamming(_f(x), _f(y)))


def ref_canberra(x, y):
    return float(sd.canberra(_f(x), _f(y)))        # scipy: 0/0 terms count 0, as the kernel


def ref_braycurtis(x, y):
    x, y = _f(x), _f(y)
    den = np.sum(np.abs(x + y))
    if den == 0.0:
        return 0.0                                  # code + tests ("scipy is bad sometimes"): non-finite -> 0
    return float(sd.braycurtis(x, y))


def ref_cosine(x, y):
    x, y = _f(x), _f(y)
    nx, ny = np.dot(x, x), np.dot(y, y)
    if nx == 0.0 and ny == 0.0:
        return 0.0
    if nx == 0.0 or ny == 0.0:
        return 1.0
    return float(sd.cosine(x, y))


def ref_dot(x, y):
    s = float(np.dot(_f(x), _f(y)))
    return 1.0 if s <= 0.0 else 1.0 - s


def ref_correlation(x, y):
    x, y = _f(x), _f(y)
    xm, ym = x - np.mean(x), y - np.mean(y)
    nx, ny = np.dot(xm, xm), np.dot(ym, ym)
    if nx == 0.0 and ny == 0.0:
        return 0.0
    if nx == 0.0 or ny == 0.0:
        return 1.0
    return float(sd.correlation(x, y))


def ref_spearmanr(x, y):
    x, y = _f(x), _f(y)
    cx, cy = bool(np.all(x == x[0])), bool(np.all(y == y[0]))
    if cx and cy:
        return 0.0
    if cx or cy:
        return 1.0
    return float(1.0 - stats.spearmanr(x, y).statistic)


def ref_haversine(x, y):
    x, y = _f(x), _f(y)

    def unit(p):
        lat, lon = p
        return np.array([math.cos(lat) * math.cos(lon), math.cos(lat) * math.sin(lon), math.sin(lat)])
    u, v = unit(x), unit(y)
    return float(math.atan2(np.linalg.norm(np.cross(u, v)), float(np.dot(u, v))))


def _tsss_parts(x, y):
    x, y = _f(x), _f(y)
    nx, ny = math.sqrt(np.dot(x, x)), math.sqrt(np.dot(y, y))
    if nx == 0.0 or ny == 0.0:
        return None
    c = min(max(float(np.dot(x, y)) / (nx * ny), -1.0), 1.0)
    ed = math.sqrt(float(np.sum((x - y) ** 2)))
    md = abs(nx - ny)
    return nx, ny, c, ed, md


def _tsss_from(nx, ny, c, ed, md):
    theta = math.acos(c) + math.radians(10.0)
    triangle = nx * ny * math.sin(theta) / 2.0
    sector = (ed + md) ** 2 * theta
    return triangle * sector


def ref_tsss(x, y):
    p = _tsss_parts(x, y)
    if p is None:
        return None
    return _tsss_from(*p)


def band_tsss(x, y, kwds, scale):
    p = _tsss_parts(x, y)
    if p is None:
        return None
    nx, ny, c, ed, md = p
    dimf = max(1.0, len(x) / 8.0)
    dc = ABS_TOL * dimf + REL_TOL * abs(c)
    vals = [_tsss_from(nx, ny, min(max(cc, -1.0), 1.0), ed, md) for cc in (c - dc, c, c + dc)]
    return min(vals), max(vals)


def ref_true_angular(x, y):
    x, y = _f(x), _f(y)
    nx, ny = math.sqrt(np.dot(x, x)), math.sqrt(np.dot(y, y))
    if nx == 0.0 or ny == 0.0:
        return None
    c = min(max(float(np.dot(x, y)) / (nx * ny), -1.0), 1.0)
    return 1.0 - math.acos(c) / math.pi


# --------------------------------------------------------------------------
# references: distributions
# --------------------------------------------------------------------------
def ref_hellinger(x, y):
    x, y = _f(x), _f(y)
    sx, sy = np.sum(x), np.sum(y)
    if sx == 0.0 and sy == 0.0:
        return 0.0
    if sx == 0.0 or sy == 0.0:
        return 1.0
    bc = float(np.sum(np.sqrt(x * y)) / math.sqrt(sx * sy))
    return math.sqrt(max(1.0 - bc, 0.0))


def _masked(x, y, cost):
    x, y = _f(x), _f(y)
    rm, cm = x != 0, y != 0
    a, b = x[rm], y[cm]
    return a / a.sum(), b / b.sum(), _f(cost)[rm, :][:, cm]


def ref_kantorovich(x, y, cost=None):
    a, b, C = _masked(x, y, cost)
    n, m = C.shape
    A = np.zeros((n + m, n * m))
    for i in range(n):
        A[i, i * m:(i + 1) * m] = 1.0
    for j in range(m):
        A[n + j, j::m] = 1.0
    r = linprog(C.ravel(), A_eq=A, b_eq=np.concatenate([a, b]), bounds=(0, None), method="highs")
    if r.status != 0:
        raise RuntimeError("reference LP failed: " + r.message)
    return float(r.fun)


def ref_sinkhorn(x, y, cost=None, regularization=1.0):
    """Entropic optimal transport <P, C>, P = diag(u) exp(-C/reg) diag(v) with marginals a, b,
    solved in the log domain to 1e-14 (independent of the repo's iteration scheme)."""
    a, b, C = _masked(x, y, cost)
    logK = -C / float(regularization)
    la, lb = np.log(a), np.log(b)
    f = np.zeros_like(a); g = np.zeros_like(b)
    for _ in range(200000):
        g_new = lb - special.logsumexp(logK + f[:, None], axis=0)
        f_new = la - special.logsumexp(logK + g_new[None, :], axis=1)
        done = max(np.max(np.abs(f_new - f)), np.max(np.abs(g_new - g))) < 1e-14
        f, g = f_new, g_new
        if done:
            break
    P = np.exp(f[:, None] + logK + g[None, :])
    return float(np.sum(P * C))


def _cdfs(x, y):
    x, y = _f(x), _f(y)
    return np.cumsum(x / np.sum(x)), np.cumsum(y / np.sum(y))


def ref_wasserstein_1d(x, y, p=1):
    if p == 1:
        pos = np.arange(len(x), dtype=np.float64)
        return float(stats.wasserstein_distance(pos, pos, _f(x), _f(y)))
    F, G = _cdfs(x, y)
    return float(np.sum(np.abs(F - G) ** float(p)) ** (1.0 / float(p)))


def band_wasserstein_1d(x, y, kwds, scale):
    """value = ||F - G||_p over the CDFs.  Each CDF entry is a sum of float32-rounded quotients (the sparse
    kernel divides float32 by a float32 sum), so the pre-image -- the vector of CDF differences D_i -- carries
    absolute rounding; |D|^p with p < 1 amplifies it without bound at D_i = 0 (an exact 0 that becomes 6e-8
    contributes 2.4e-4 for p = 1/2).  The tolerance is therefore applied to the pre-image: the observed value
    must lie between the values obtained with every |D_i| moved by -eps_i / +eps_i,
    eps_i = 1e-6 max(1, dim/8) + 2**-19 |D_i|."""
    p = float(kwds.get("p", 1))
    F, G = _cdfs(x, y)
    d = np.abs(F - G)
    eps = ABS_TOL * max(1.0, len(d) / 8.0) + REL_TOL * d
    hi = float(np.sum((d + eps) ** p) ** (1.0 / p))
    lo = float(np.sum(np.maximum(d - eps, 0.0) ** p) ** (1.0 / p))
    return lo, hi


def ref_circular_kantorovich(x, y, p=1):
    if p != 1:
        return None        # no documented definition for p != 1 (D7f); only NaN / symmetry / identity
    F, G = _cdfs(x, y)
    D = F - G
    # circular earth mover's distance: min over the cut point = min_mu sum |D - mu|,
    # attained at one of the D_i (piecewise linear) -- evaluated without using a median
    return float(min(np.sum(np.abs(D - mu)) for mu in D))


def _smoothed(x, y):
    p, q = _f(x) + F32EPS, _f(y) + F32EPS
    return p / np.sum(p), q / np.sum(q)


def ref_jensen_shannon(x, y):
    p, q = _smoothed(x, y)
    m = 0.5 * (p + q)
    return float(0.5 * (np.sum(special.rel_entr(p, m)) + np.sum(special.rel_entr(q, m))))


def ref_symmetric_kl(x, y):
    p, q = _smoothed(x, y)
    return float(np.sum(special.rel_entr(p, q)) + np.sum(special.rel_entr(q, p)))


# --------------------------------------------------------------------------
# references: binary family (on non-zero-ness, as the kernels)
# --------------------------------------------------------------------------
def _bools(x, y):
    return np.asarray(x) != 0, np.asarray(y) != 0


def _counts(x, y):
    bx, by = _bools(x, y)
    n = bx.shape[0]
    ctt = int(np.sum(bx & by)); ctf = int(np.sum(bx & ~by)); cft = int(np.sum(~bx & by))
    return n, ctt, ctf, cft, n - ctt - ctf - cft


def ref_jaccard(x, y):
    bx, by = _bools(x, y)
    if not (bx.any() or by.any()):
        return 0.0
    return float(sd.jaccard(bx, by))


def ref_matching(x, y):
    bx, by = _bools(x, y)
    return float(sd.hamming(bx, by))


def ref_dice(x, y):
    bx, by = _bools(x, y)
    if not (bx.any() or by.any()):
        return 0.0
    return float(sd.dice(bx, by))


def ref_kulsinski(x, y):
    n, ctt, ctf, cft, cff = _counts(x, y)
    if ctf + cft == 0:
        return 0.0                      # N6: identical supports -> 0 (old scipy: (n - ctt)/n ... not 0)
    return (ctf + cft - ctt + n) / (cft + ctf + n)


def ref_rogerstanimoto(x, y):
    bx, by = _bools(x, y)
    return float(sd.rogerstanimoto(bx, by))


def ref_russellrao(x, y):
    bx, by = _bools(x, y)
    if np.array_equal(bx, by):
        return 0.0                      # N6
    return float(sd.russellrao(bx, by))


def ref_sokalmichener(x, y):
    n, ctt, ctf, cft, cff = _counts(x, y)
    r = 2.0 * (ctf + cft)
    return r / (cff + ctt + r)          # removed from scipy >= 1.14; definition R / (S + R)


def ref_sokalsneath(x, y):
    n, ctt, ctf, cft, cff = _counts(x, y)
    if ctf + cft == 0:
        return 0.0                      # scipy raises for all-false input; tests: non-finite -> 0
    bx, by = _bools(x, y)
    return float(sd.sokalsneath(bx, by))


def ref_yule(x, y):
    bx, by = _bools(x, y)
    return float(sd.yule(bx, by))       # scipy returns 0 when ctf*cft == 0, as the kernel


def ref_bit_hamming(x, y):
    a, b = np.unpackbits(np.asarray(x, np.uint8)), np.unpackbits(np.asarray(y, np.uint8))
    return float(np.sum(a != b))


def ref_bit_jaccard(x, y):
    a, b = np.unpackbits(np.asarray(x, np.uint8)), np.unpackbits(np.asarray(y, np.uint8))
    union = int(np.sum(a | b)); inter = int(np.sum(a & b))
    if union == 0:
        return 0.0
    if inter == 0:
        return math.inf
    return -math.log(inter / union)


# --------------------------------------------------------------------------
# metric-argument generators (values are float32-representable, stored as float64
# arrays as the repo's tests pass them)
# --------------------------------------------------------------------------
def _r32(a):
    return np.asarray(np.asarray(a, dtype=np.float32), dtype=np.float64)


P_MINKOWSKI = [1, 2, 3, 4, 0.5, 1.5, 2.0, 3.0]
P_WASSERSTEIN = [1, 2, 3, 0.5, 1.0, 2.0]
P_CIRCULAR = [1, 2, 3]


def _no_kwds(rng, dim):
    return {}


def _kw_minkowski(rng, dim):
    return {"p": P_MINKOWSKI[int(rng.integers(len(P_MINKOWSKI)))]}


def _kw_seuclidean(rng, dim):
    return {"sigma": _r32(rng.uniform(0.25, 4.0, dim))}


def _kw_wminkowski(rng, dim):
    return {"w": _r32(rng.uniform(0.1, 3.0, dim)), "p": [1, 2, 3, 1.5, 2.0][int(rng.integers(5))]}


def _kw_mahalanobis(rng, dim):
    b = rng.normal(size=(dim, dim))
    v = np.eye(dim) + b @ b.T / dim            # SPD, eigenvalues in [1, ~5]: well conditioned
    v = _r32(v)
    return {"vinv": (v + v.T) / 2.0}


def cost_matrix(rng, dim):
    kind = int(rng.integers(3))
    if kind == 0:
        i = np.arange(dim, dtype=np.float64)
        c = np.abs(i[:, None] - i[None, :]) / max(dim - 1, 1) * 2.0
    elif kind == 1:
        pts = rng.normal(size=(dim, 2))
        c = np.sqrt(((pts[:, None, :] - pts[None, :, :]) ** 2).sum(-1))
    else:
        c = 1.0 - np.eye(dim)
    c = _r32(c)
    c = (c + c.T) / 2.0
    np.fill_diagonal(c, 0.0)
    return c


def _kw_kantorovich(rng, dim):
    return {"cost": cost_matrix(rng, dim)}


SINKHORN_MAX_RATIO = 4.0


def _kw_sinkhorn(rng, dim, regularization=None):
    # The repo's solver stops after at most 1000 iterations; its contraction rate is tanh(max(cost)/(2 reg))**2,
    # so for max(cost)/reg >~ 7 it stops short of its own 1e-9 tolerance (observed: 0.5% off the fixed point at
    # ratio 7.1).  The definition is checked where the iteration converges: max(cost)/reg <= 4.
    reg = [0.5, 1.0, 2.0][int(rng.integers(3))] if regularization is None else regularization
    c = cost_matrix(rng, dim)
    m = float(np.max(c)) if c.size else 0.0
    if m > SINKHORN_MAX_RATIO * reg:
        c = _r32(c * (SINKHORN_MAX_RATIO * reg / m) * 0.999)
        c = (c + c.T) / 2.0
    return {"cost": c, "regularization": reg}


def _kw_wasserstein_1d(rng, dim):
    return {"p": P_WASSERSTEIN[int(rng.integers(len(P_WASSERSTEIN)))]}


def _kw_circular(rng, dim):
    return {"p": P_CIRCULAR[int(rng.integers(len(P_CIRCULAR)))]}


def kwds_to_json(kwds):
    return {k: (np.asarray(v).tolist() if isinstance(v, np.ndarray) else v) for k, v in kwds.items()}


def kwds_from_json(kwds):
    return {k: (np.asarray(v, dtype=np.float64) if isinstance(v, list) else v) for k, v in kwds.items()}


# --------------------------------------------------------------------------
# natural output magnitudes (absolute part of the tolerance)
# --------------------------------------------------------------------------
def _M(x, y):
    m = 0.0
    if len(x):
        m = max(float(np.max(np.abs(_f(x)))), float(np.max(np.abs(_f(y)))))
    return m


def _mag_norm(x, y, kw):
    return _M(x, y)


def _mag_sq(x, y, kw):
    return _M(x, y) ** 2


def _mag_seuclidean(x, y, kw):
    return _M(x, y) / math.sqrt(float(np.min(kw["sigma"])))


def _mag_wminkowski(x, y, kw):
    return _M(x, y) * float(np.max(kw["w"])) ** (1.0 / float(kw["p"]))


def _mag_mahalanobis(x, y, kw):
    # value = sqrt(d' V d); the float32 rounding of d perturbs it by up to
    # sqrt(kappa ||V||) ||d|| 2**-24 with ||d|| <= 2 M sqrt(dim)
    return _M(x, y) * math.sqrt(float(np.max(np.abs(kw["vinv"]))) * max(len(x), 1))


def _mag_tsss(x, y, kw):
    x, y = _f(x), _f(y)
    nx, ny = math.sqrt(np.dot(x, x)), math.sqrt(np.dot(y, y))
    return nx * ny * (nx + ny) ** 2


def _mag_cost(x, y, kw):
    return max(float(np.max(np.abs(kw["cost"]))), 0.0)


# --------------------------------------------------------------------------
# the table
# --------------------------------------------------------------------------
def _e(ref, domain, notes, kwds_gen=_no_kwds, argorder=(), orientation="distance", clamp=None,
       preimage=None, identity=True, self_value=0.0, zero="ok", unit_norm=False,
       extreme=False, mag=None, band=None):
    return dict(ref=ref, domain=domain, kwds_gen=kwds_gen, argorder=tuple(argorder),
                orientation=orientation, clamp=clamp, preimage=preimage, identity=identity,
                self_value=self_value, zero=zero, unit_norm=unit_norm, extreme=extreme,
                mag=mag, band=band, notes=notes)


_euclidean = _e(ref_euclidean, "real", "docstring sqrt(sum (x_i-y_i)^2); scipy euclidean",
                extreme=True, mag=_mag_norm)
_sqeuclidean = _e(ref_sqeuclidean, "real", "docstring sum (x_i-y_i)^2; scipy sqeuclidean; float32 accumulator, "
                  "uint16 counter (D13: dim < 65536 only)", extreme=True, mag=_mag_sq)
_manhattan = _e(ref_manhattan, "real", "docstring sum |x_i-y_i|; scipy cityblock", extreme=True, mag=_mag_norm)
_chebyshev = _e(ref_chebyshev, "real", "docstring max |x_i-y_i|; scipy chebyshev", extreme=True, mag=_mag_norm)
_minkowski = _e(ref_minkowski, "real", "docstring (sum |x_i-y_i|^p)^(1/p); scipy minkowski for p >= 1, the docstring "
                "formula for p < 1 (scipy refuses); integer p keeps |d|^p in float32, so extreme magnitudes "
                "are generated with p <= 2 only (N5)", kwds_gen=_kw_minkowski, argorder=("p",),
                extreme=True, mag=_mag_norm)
_seuclidean = _e(ref_seuclidean, "real", "docstring sqrt(sum (x_i-y_i)^2 / v_i): the argument `sigma` is the "
                 "per-coordinate VARIANCE (scipy seuclidean V), as test_seuclidean pins",
                 kwds_gen=_kw_seuclidean, argorder=("sigma",), mag=_mag_seuclidean)
_wminkowski = _e(ref_wminkowski, "real", "docstring (sum w_i |x_i-y_i|^p)^(1/p); scipy minkowski(w=) (>= 1.8), "
                 "as test_weighted_minkowski pins", kwds_gen=_kw_wminkowski, argorder=("w", "p"),
                 mag=_mag_wminkowski)
_mahalanobis = _e(ref_mahalanobis, "real", "no docstring; test_mahalanobis pins scipy mahalanobis with VI = the "
                  "matrix argument: sqrt(d' VI d); generated VI symmetric positive definite, well conditioned "
                  "(a nearly singular VI is the `_partial` case of DESIGN C07)",
                  kwds_gen=_kw_mahalanobis, argorder=("vinv",), mag=_mag_mahalanobis)
_canberra = _e(ref_canberra, "real", "scipy canberra; 0/0 terms count 0 (kernel guards denominator > 0)",
               extreme=True)
_cosine = _e(ref_cosine, "real", "scipy cosine (range [0,2]); code + tests: both zero -> 0, one zero -> 1; "
             "clamp [0,1] is the range reported through the alternative_cosine surrogate (similarity <= 0 "
             "saturates at 1)", clamp=(0.0, 1.0), preimage=_pre_one_minus, extreme=True)
_dot = _e(ref_dot, "real", "kernel: 1 - <x,y> if <x,y> > 0 else 1; ASSUMES L2-normalised input (inputs are "
          "normalised in float32 by the generator; zero vectors cannot be normalised and are outside the domain); "
          "self value 1 - |x|^2 is 0 only up to the float32 normalisation",
          clamp=(0.0, 1.0), preimage=_pre_one_minus, zero="never", unit_norm=True)
_correlation = _e(ref_correlation, "real", "scipy correlation; code + tests: both centred norms 0 -> 0, exactly one "
                  "-> 1 (scipy: nan)", preimage=_pre_one_minus, extreme=True)
_haversine = _e(ref_haversine, "latlon", "great-circle angle between (lat, lon) points in radians "
                "(test_haversine pins sklearn BallTree haversine); reference = atan2(|u x v|, u.v) of the 3-D "
                "unit vectors, independent of the haversine formula; pre-image sin^2(d/2) on d > pi/2 because "
                "2 arcsin(sqrt(h)) amplifies the rounding of h near the antipodes", preimage=_pre_haversine)
_braycurtis = _e(ref_braycurtis, "real", "scipy braycurtis sum|x-y| / sum|x+y|; code + tests: zero denominator -> 0 "
                 "(scipy: nan/inf) -- this includes x = -y, where the quotient is n/0", extreme=True)
_spearmanr = _e(ref_spearmanr, "real", "test_spearmanr pins 1 - scipy.stats.spearmanr (average ranks); constant "
                "inputs follow `correlation`'s degenerate branches (both constant -> 0, one -> 1; scipy: nan)",
                preimage=_pre_one_minus, extreme=True)
_tsss = _e(ref_tsss, "real", "no docstring, no test. TS-SS (Heidarian & Dinneen 2016): triangle |x||y| sin(t)/2 "
           "times sector, t = arccos(cos) + 10 degrees. The paper's sector is pi (ED+MD)^2 t_deg/360 = (ED+MD)^2 "
           "t_rad / 2; the kernel uses (ED+MD)^2 t_rad, i.e. TWICE the paper's value. A positive constant factor "
           "changes no neighbour order and nothing in the repo documents the scale, so the reference follows the "
           "kernel's scale. Zero vector: angle undefined (kernel raises ZeroDivisionError: D7g)",
           zero="undefined", extreme=True, mag=_mag_tsss, band=band_tsss)
_true_angular = _e(ref_true_angular, "real", "no docstring; DESIGN C07: 1 - theta/pi, similarity-like (identical "
                   "-> 1, N2); test_alternative_distances pins it against true_angular_from_alt_cosine on "
                   "non-negative data. For <x,y> <= 0 the kernel returns the distance-style sentinel FLOAT32_MAX "
                   "instead of 1 - theta/pi in [0, 1/2] (reported as metric:true_angular:sentinel); with a zero "
                   "vector the angle is undefined (kernel: 0.0 for two zero vectors, FLOAT32_MAX for one)",
                   orientation="similarity", clamp=(0.5, 1.0), preimage=_pre_true_angular, self_value=1.0,
                   zero="undefined", extreme=True)
_hellinger = _e(ref_hellinger, "nonneg_mass", "sqrt(1 - sum sqrt(x_i y_i) / sqrt(sum x sum y)) (Hellinger distance of "
                "the normalised vectors); kernel: both zero mass -> 0, one -> 1",
                clamp=(0.0, 1.0), preimage=_pre_hellinger, extreme=True)
_kantorovich = _e(ref_kantorovich, "nonneg_mass", "optimal transport cost between the normalised non-zero parts with "
                  "the given ground cost; scipy.optimize.linprog (HiGHS) on the transport LP; symmetric "
                  "zero-diagonal cost generated", kwds_gen=_kw_kantorovich, argorder=("cost",), zero="never",
                  mag=_mag_cost)
_wasserstein_1d = _e(ref_wasserstein_1d, "nonneg_mass", "p = 1: scipy.stats.wasserstein_distance on positions 0..n-1; "
                     "p != 1: what the kernel and test_wasserstein_1d (dense = sparse) define, the l_p distance of "
                     "the CDFs (sum |F_i-G_i|^p)^(1/p); zero mass is outside the domain (N7)",
                     kwds_gen=_kw_wasserstein_1d, argorder=("p",), zero="never",
                     band=band_wasserstein_1d)
_circular = _e(ref_circular_kantorovich, "nonneg_mass", "p = 1: circular earth mover's distance min_mu sum|F_i-G_i-mu| "
               "(evaluated over all candidate mu, no median); p != 1: no documented definition (the kernel shifts by "
               "median((F-G)^p)), value not checked, symmetry is (D7f: p = 2 asymmetric)",
               kwds_gen=_kw_circular, argorder=("p",), zero="never")
_sinkhorn = _e(ref_sinkhorn, "nonneg_mass", "entropic OT <P,C>, P = diag(u) exp(-C/reg) diag(v) with the normalised "
               "non-zero parts as marginals; independent log-domain solver to 1e-14; sinkhorn(x,x) != 0 (N3); generated with "
               "max(cost)/regularization <= 4, where the repo's 1000-iteration cap reaches its own tolerance",
               kwds_gen=_kw_sinkhorn, argorder=("cost", "regularization"), identity=False, zero="never",
               mag=_mag_cost)
_js = _e(ref_jensen_shannon, "nonneg_mass", "Jensen-Shannon divergence (natural log, NOT its square root) of "
         "p = (x+eps)/sum(x+eps), eps = float32 epsilon: the kernel's deliberate smoothing is part of the "
         "reference; test_jensen_shannon pins the unsmoothed formula to rtol 1e-4 on positive data; scipy rel_entr")
_skl = _e(ref_symmetric_kl, "nonneg_mass", "KL(p||q) + KL(q||p) of the eps-smoothed normalised vectors (as "
          "jensen_shannon); scipy rel_entr")
_hamming = _e(ref_hamming, "real", "scipy hamming: fraction of coordinates with x_i != y_i (value comparison, not "
              "non-zero-ness)")
_jaccard = _e(ref_jaccard, "binary", "scipy jaccard on non-zero-ness; both empty -> 0 (tests)", clamp=(0.0, 1.0))
_dice = _e(ref_dice, "binary", "scipy dice; no disagreement (incl. both empty) -> 0 (tests: non-finite -> 0)")
_matching = _e(ref_matching, "binary", "fraction of coordinates whose non-zero-ness differs (scipy hamming on booleans; "
               "sklearn 'matching')")
_kulsinski = _e(ref_kulsinski, "binary", "old scipy kulsinski (ctf+cft-ctt+n)/(ctf+cft+n) (removed from scipy); N6: "
                "identical supports -> 0")
_rogerstanimoto = _e(ref_rogerstanimoto, "binary", "scipy rogerstanimoto 2neq/(n+neq)")
_russellrao = _e(ref_russellrao, "binary", "scipy russellrao (n-ctt)/n; N6: identical supports -> 0 (code + tests)")
_sokalsneath = _e(ref_sokalsneath, "binary", "scipy sokalsneath; no disagreement -> 0 (scipy raises on all-false)")
_sokalmichener = _e(ref_sokalmichener, "binary", "R/(S+R), R = 2(ctf+cft), S = ctt+cff (removed from scipy >= 1.14; "
                    "equals rogerstanimoto)")
_yule = _e(ref_yule, "binary", "scipy yule 2 ctf cft/(ctt cff + ctf cft); 0 when ctf cft = 0")
_bit_hamming = _e(ref_bit_hamming, "bits", "test_bit_hamming: NUMBER of differing bits (not divided by the length)")
_bit_jaccard = _e(ref_bit_jaccard, "bits", "test_bit_jaccard: -ln(jaccard similarity) = -ln(|and|/|or|); both empty -> 0 "
                  "(D7d repair); disjoint non-empty -> +inf")

SPEC = {
    "euclidean": _euclidean, "l2": _euclidean,
    "sqeuclidean": _sqeuclidean,
    "manhattan": _manhattan, "taxicab": _manhattan, "l1": _manhattan,
    "chebyshev": _chebyshev, "linfinity": _chebyshev, "linfty": _chebyshev, "linf": _chebyshev,
    "minkowski": _minkowski,
    "seuclidean": _seuclidean, "standardised_euclidean": _seuclidean,
    "wminkowski": _wminkowski, "weighted_minkowski": _wminkowski,
    "mahalanobis": _mahalanobis,
    "canberra": _canberra, "cosine": _cosine, "dot": _dot, "correlation": _correlation,
    "haversine": _haversine, "braycurtis": _braycurtis, "spearmanr": _spearmanr,
    "tsss": _tsss, "true_angular": _true_angular,
    "hellinger": _hellinger,
    "kantorovich": _kantorovich, "wasserstein": _kantorovich,
    "wasserstein_1d": _wasserstein_1d, "wasserstein-1d": _wasserstein_1d,
    "kantorovich-1d": _wasserstein_1d, "kantorovich_1d": _wasserstein_1d,
    "circular_kantorovich": _circular, "circular_wasserstein": _circular,
    "sinkhorn": _sinkhorn,
    "jensen-shannon": _js, "jensen_shannon": _js,
    "symmetric-kl": _skl, "symmetric_kl": _skl, "symmetric_kullback_liebler": _skl,
    "hamming": _hamming, "jaccard": _jaccard, "dice": _dice, "matching": _matching,
    "kulsinski": _kulsinski, "rogerstanimoto": _rogerstanimoto, "russellrao": _russellrao,
    "sokalsneath": _sokalsneath, "sokalmichener": _sokalmichener, "yule": _yule,
    "bit_hamming": _bit_hamming, "bit_jaccard": _bit_jaccard,
}


def canonical_names():
    """One representative public name per distinct spec entry, and its aliases."""
    seen, out = {}, {}
    for name, s in SPEC.items():
        if id(s) in seen:
            out[seen[id(s)]].append(name)
        else:
            seen[id(s)] = name
            out[name] = []
    return out


def kwds_sweep(name, rng, dim):
    """Argument dicts that together cover every discrete option of the metric's arguments."""
    s = SPEC[name]
    g = s["kwds_gen"]
    if g is _kw_minkowski:
        return [{"p": p} for p in P_MINKOWSKI]
    if g is _kw_wminkowski:
        return [dict(_kw_wminkowski(rng, dim), p=p) for p in [1, 2, 3, 1.5, 2.0]]
    if g is _kw_wasserstein_1d:
        return [{"p": p} for p in P_WASSERSTEIN]
    if g is _kw_circular:
        return [{"p": p} for p in P_CIRCULAR]
    if g is _kw_sinkhorn:
        return [_kw_sinkhorn(rng, dim, regularization=r) for r in [0.5, 1.0, 2.0] for _ in range(2)]
    if g is _no_kwds:
        return []
    return [g(rng, dim) for _ in range(3)]


def preimage_array(name, v):
    """Vectorised form of SPEC[name]['preimage'] (same maps, numpy float64) for the ufunc sweeps of C09."""
    v = np.asarray(v, dtype=np.float64)
    g = SPEC[name]["preimage"]
    if g is None:
        return v
    if g is _pre_one_minus:
        return 1.0 - v
    if g is _pre_hellinger:
        return v * v
    if g is _pre_true_angular:
        inside = (v >= 0.0) & (v <= 1.0)
        return np.where(inside, np.cos(np.pi * (1.0 - np.where(inside, v, 0.0))), v)
    return np.vectorize(g, otypes=[np.float64])(v)


def close_array(a, r, name, scale=1.0):
    """Vectorised `close` (no band): boolean array; NaN never close, infinities must be equal."""
    a = np.asarray(a, dtype=np.float64); r = np.asarray(r, dtype=np.float64)
    fin = np.isfinite(a) & np.isfinite(r)
    with np.errstate(all="ignore"):
        ga = preimage_array(name, np.where(fin, a, 0.0)); gr = preimage_array(name, np.where(fin, r, 0.0))
        ok = np.abs(ga - gr) <= ABS_TOL * scale + REL_TOL * np.maximum(np.abs(ga), np.abs(gr))
    inf_ok = (~np.isnan(a)) & (~np.isnan(r)) & (a == r)
    return np.where(fin, ok, inf_ok)
