#!/venv/bin/python
"""numba-subset -> Lean translator for the SEARCH-GRAPH kernels of pynndescent/pynndescent_.py (properties C15 / C16).

Reads the *source text* of the kernels listed in KERNELS from $PYNN_REPO (default /repo) and rewrites
lean/PynnVerif/Gen/SearchGraphKernels.lean (namespace Pynn.GenSG, definitions only, Mathlib-free; `rd` / `wr` / `LoopOut`
are those of Gen/Kernels.lean, which this translator does not touch).  Machinery: class `Fn` of translate_kernels.py
(`numba.prange` is translated as `range`: that the iterations touch disjoint cells is property C05's obligation); added:

  * a read-only row view `v = a[lo:hi]` -> `let v <- slice a lo hi` (numpy clamps `hi` to the length and gives the empty
    array for `lo >= hi`; a negative bound means "from the end" in Python and is `none` here).  The view is a COPY in the
    translation, so the kernel is rejected (`Unsupported`) if `v` could be loaded after a store into `a`;
  * `np.sort(v)[k]` -> `rd (SortFn.sortArr v) k` for an UNINTERPRETED function `sortArr : Array P -> Array P` (class `SortFn P`, a
    parameter of every generated kernel) (the theorems assume it returns the ascending rearrangement; numba's sort is not translated).
Anything else is `Unsupported`: the kernel becomes a `none` stub of the same signature (the driver still links; the
theorem that says it returns `some ...` no longer builds).
"""
import ast, os, sys
sys.path.insert(0, os.path.dirname(os.path.abspath(__file__)))
import translate_kernels as tk
from translate_kernels import Unsupported, Fn, find_def, names_loaded, stored_names

REPO = tk.REPO
OUT = os.path.join(tk.VERIF, "lean", "PynnVerif", "Gen", "SearchGraphKernels.lean")
STUB_ALL = "--stub-all" in sys.argv

# (file, kernel, parameters, result, arrays stored into)
KERNELS = [
    ("pynndescent_.py", "degree_prune_internal", dict(indptr="arrI", data="arrP", max_degree="Int"), "Unit", ["data"]),
    # `data`, `dist`, `rng_state`, `prune_probability` are only used through `dist(data[a], data[b])` and
    # `tau_rand(local_rng_state) < prune_probability`, which become the uninterpreted `DivParams.dist a b` / `DivParams.draw i c`
    ("pynndescent_.py", "diversify", dict(indices="arr2I", distances="arr2P", data="arr2P", dist="Unit", rng_state="arrI", prune_probability="P"),
     ("arr2I", "arr2P"), ["indices", "distances"]),
]


def view_unsafe(stmts, v, a, stored=False):
    """True if `v` (a copy standing for a view of `a`) may be loaded after a store into `a`; returns (unsafe, stored)"""
    for s in stmts:
        if isinstance(s, ast.If):
            if stored and v in names_loaded(s.test): return True, stored
            u1, s1 = view_unsafe(s.body, v, a, stored)
            u2, s2 = view_unsafe(s.orelse, v, a, stored)
            if u1 or u2: return True, True
            stored = s1 or s2
        elif isinstance(s, (ast.For, ast.While)):
            st = a in stored_names(s.body)
            ld = any(v in names_loaded(b) for b in s.body) or v in names_loaded(s.iter if isinstance(s, ast.For) else s.test)
            if ld and (stored or st): return True, True
            stored = stored or st
        else:
            if stored and v in names_loaded(s): return True, stored
            if a in stored_names([s]): stored = True
    return False, stored


class _Draws(ast.NodeTransformer):
    """`local_rng_state = rng_state + i` -> `draw_cnt = 0`;  `if tau_rand(local_rng_state) < prune_probability: B` ->
    `draw_now = drawOutcome(i, draw_cnt); draw_cnt += 1; if draw_now: B` (the generator is private to the row and is consulted
    exactly at these tests: its outcomes are the uninterpreted stream `DivParams.draw row counter`)"""
    def __init__(self):
        self.row = None

    def visit_Assign(self, n):
        if len(n.targets) == 1 and isinstance(n.targets[0], ast.Name) and n.targets[0].id == "local_rng_state":
            if not (isinstance(n.value, ast.BinOp) and isinstance(n.value.op, ast.Add) and ast.unparse(n.value.left) == "rng_state"
                    and isinstance(n.value.right, ast.Name)):
                raise Unsupported("local_rng_state = " + ast.unparse(n.value))
            self.row = n.value.right.id
            return ast.Assign(targets=[ast.Name(id="draw_cnt", ctx=ast.Store())], value=ast.Constant(value=0))
        return n

    def visit_If(self, n):
        self.generic_visit(n)
        if ast.unparse(n.test) == "tau_rand(local_rng_state) < prune_probability" and self.row is not None and not n.orelse:
            return [ast.Assign(targets=[ast.Name(id="draw_now", ctx=ast.Store())],
                               value=ast.Call(func=ast.Name(id="drawOutcome", ctx=ast.Load()),
                                              args=[ast.Name(id=self.row, ctx=ast.Load()), ast.Name(id="draw_cnt", ctx=ast.Load())], keywords=[])),
                    ast.AugAssign(target=ast.Name(id="draw_cnt", ctx=ast.Store()), op=ast.Add(), value=ast.Constant(value=1)),
                    ast.If(test=ast.Name(id="draw_now", ctx=ast.Load()), body=n.body, orelse=[])]
        return n


def is_dist_call(e):
    return isinstance(e, ast.Call) and isinstance(e.func, ast.Name) and e.func.id == "dist" and len(e.args) == 2 and not e.keywords \
        and all(isinstance(a, ast.Subscript) and isinstance(a.value, ast.Name) and a.value.id == "data"
                and not isinstance(a.slice, (ast.Slice, ast.Tuple)) for a in e.args)


class GFn(Fn):
    def __init__(self, fdef, ptypes, ret):
        if fdef.name == "diversify":
            fdef = _Draws().visit(fdef)
            ast.fix_missing_locations(fdef)
            for n in ast.walk(fdef):
                if isinstance(n, ast.Name) and n.id in ("local_rng_state", "tau_rand", "rng_state", "prune_probability"):
                    raise Unsupported("generator used other than in `tau_rand(local_rng_state) < prune_probability`")
                if isinstance(n, ast.Name) and n.id in ("data", "dist") and isinstance(n.ctx, ast.Load):
                    pass
        super().__init__(fdef, ptypes, ret)

    def ty(self, e, env):
        if isinstance(e, ast.Name) and e.id == "FLOAT32_EPS": return "P"
        if isinstance(e, ast.Attribute) and ast.unparse(e) == "np.inf": return "P"
        if is_dist_call(e) and all(self.ty(a.slice, env) == "Int" for a in e.args): return "P"
        if isinstance(e, ast.Call) and isinstance(e.func, ast.Name) and e.func.id == "drawOutcome": return "Bool"
        if isinstance(e, ast.List) and len(e.elts) == 1:
            t = self.ty(e.elts[0], env)
            if t == "Int": return "arrI"
            if t == "P": return "arrP"
        if isinstance(e, ast.Subscript) and isinstance(e.value, ast.Call) and ast.unparse(e.value.func) == "np.sort" \
                and len(e.value.args) == 1 and not e.value.keywords and self.ty(e.value.args[0], env) == "arrP" \
                and not isinstance(e.slice, (ast.Slice, ast.Tuple)):
            return "P"
        return super().ty(e, env)

    def ex(self, e, env):
        if isinstance(e, ast.Name) and e.id == "FLOAT32_EPS": return "(DivParams.eps : P)"
        if isinstance(e, ast.Attribute) and ast.unparse(e) == "np.inf": return "(DivParams.top : P)"
        if is_dist_call(e) and self.ty(e, env) == "P":
            return "(DivParams.dist %s %s : P)" % (self.ex(e.args[0].slice, env), self.ex(e.args[1].slice, env))
        if isinstance(e, ast.Call) and isinstance(e.func, ast.Name) and e.func.id == "drawOutcome":
            return "(DivParams.draw P %s %s)" % (self.ex(e.args[0], env), self.ex(e.args[1], env))
        if isinstance(e, ast.List) and len(e.elts) == 1 and self.ty(e, env) in ("arrI", "arrP"):
            return "#[%s]" % self.ex(e.elts[0], env)
        if isinstance(e, ast.Subscript) and isinstance(e.value, ast.Call) and ast.unparse(e.value.func) == "np.sort" and self.ty(e, env) == "P":
            return "(← rd (SortFn.sortArr %s) %s)" % (self.ex(e.value.args[0], env), self.ex(e.slice, env))
        if isinstance(e, ast.Subscript) and isinstance(e.slice, ast.Slice) and e.slice.lower is not None and e.slice.upper is not None \
                and e.slice.step is None and isinstance(e.value, ast.Name) and self.ty(e.value, env) in ("arrP", "arrI"):
            return "(← slice %s %s %s)" % (e.value.id, self.ex(e.slice.lower, env), self.ex(e.slice.upper, env))
        return super().ex(e, env)

    def cond(self, e, env, then, els, ind):
        if isinstance(e, ast.Name) and env.get(e.id) == "Bool":
            return [ind + "if %s then" % e.id] + then(ind + "  ") + [ind + "else"] + els(ind + "  ")
        return super().cond(e, env, then, els, ind)

    def block(self, stmts, env, ctx, ind):
        if stmts:
            s = stmts[0]
            if isinstance(s, ast.Assign) and len(s.targets) == 1 and isinstance(s.targets[0], ast.Name) and isinstance(s.value, ast.Subscript) \
                    and isinstance(s.value.slice, ast.Slice) and isinstance(s.value.value, ast.Name):
                v, a = s.targets[0].id, s.value.value.id
                if a in self.mut and view_unsafe(stmts[1:], v, a)[0]:
                    raise Unsupported("the view %s of %s is loaded after a store into %s" % (v, a, a))
        return super().block(stmts, env, ctx, ind)


PRELUDE = '''import PynnVerif.Gen.Kernels
/-! GENERATED by harness/translate_searchgraph.py from {repo}/pynndescent/pynndescent_.py — do not edit.
Definitions only; the theorems about them live in Proofs/GenSearchGraph.lean and Props/C16.lean. -/
set_option linter.unusedVariables false
namespace Pynn.GenSG
open Pynn.GenK

/-- the row view `a[lo:hi]` (read-only use): numpy clamps `hi` to the length, `lo ≥ hi` is the empty array; negative
bounds ("from the end") are outside the translation -/
@[inline] def slice {{α : Type}} (a : Array α) (lo hi : Int) : Option (Array α) :=
  if 0 ≤ lo ∧ 0 ≤ hi then some (a.extract lo.toNat hi.toNat) else none

/-- `np.sort` on a 1-D array: UNINTERPRETED (a parameter of the generated kernels; the theorems assume it returns the
ascending rearrangement of its argument, the driver instantiates it with a sort) -/
class SortFn (P : Type) where
  sortArr : Array P → Array P

/-- the UNINTERPRETED parameters of `diversify`: `FLOAT32_EPS`, `np.inf`, the distance between two points given by their
numbers (`dist(data[a], data[b])`: the loads from `data` are not translated), and the outcomes of the generator tests
`tau_rand(rng_state + i) < prune_probability` of row `i`, in the order they are evaluated -/
class DivParams (P : Type) where
  eps : P
  top : P
  dist : Int → Int → P
  draw : Int → Int → Bool

variable {{P : Type}} [LT P] [DecidableLT P] [OfNat P 0] [SortFn P] [DivParams P]

'''


def stub(kname, ptypes, ret, mut, why):
    r = ret if isinstance(ret, tuple) else () if ret == "Unit" else (ret,)
    parts = tuple(ptypes[m] for m in mut) + tuple(r)
    sig = " ".join("(%s : %s)" % (p_, tk.LEAN_TY[t]) for p_, t in ptypes.items())
    return ("/-- `%s` NOT TRANSLATED: %s -/\ndef %s (fuel : Nat) %s : Option (%s) := none\n"
            % (kname, why.replace("-/", "- /"), kname, sig, tk.lean_ty(parts)))


def main():
    parts, report = [PRELUDE.format(repo=REPO)], []
    trees = {}
    for fname, kname, ptypes, ret, mut in KERNELS:
        try:
            if STUB_ALL:
                raise Unsupported("stubbed: the generated file did not compile")
            if fname not in trees:
                trees[fname] = ast.parse(open(os.path.join(REPO, "pynndescent", fname)).read())
            fdef = find_def(trees[fname], kname)
            if fdef is None:
                raise Unsupported("function not found")
            fn = GFn(fdef, dict(ptypes), ret)
            text = fn.emit()
            if fn.mut != mut:
                raise Unsupported("the set of arrays stored into changed: %s" % fn.mut)
            parts.append("/-- `%s.%s` -/\n" % (fname[:-3], kname) + text + "\n")
            report.append((kname, "ok"))
        except Exception as e:  # noqa
            why = ("%s" % e) if isinstance(e, Unsupported) else "translator error %s: %s" % (type(e).__name__, e)
            parts.append(stub(kname, dict(ptypes), ret, mut, why))
            report.append((kname, "unsupported: %s" % why))
    parts.append("end Pynn.GenSG\n")
    text = "\n".join(parts)
    old = open(OUT).read() if os.path.exists(OUT) else None
    if old != text:
        os.makedirs(os.path.dirname(OUT), exist_ok=True)
        with open(OUT, "w") as f:
            f.write(text)
    for k, r in report:
        print("%-32s %s" % (k, r))


if __name__ == "__main__":
    main()
