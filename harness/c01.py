"""C01 — the k-neighbour graph is well-formed and every reported distance is true.

kernel level : the whole real `nn_descent` (tree/random/heap initialisation, candidate building with the
               exact generator, local join, both update appliers, stop test, deheap_sort) vs the Lean model,
               bit-for-bit on integer-valued data, both memory modes, thread counts 1/2/3/16;
API level    : NNDescent(...).neighbor_graph for dense / CSR / bit-packed x metric families x configurations,
               evaluated with the well-formedness predicate and an independent float64 metric reference."""
import sys, os, warnings
sys.path.insert(0, os.path.dirname(os.path.dirname(os.path.abspath(__file__))))
from harness.common import *
setup_numba_cache()
warnings.filterwarnings("ignore")
import numpy as np, numba
from pynndescent import NNDescent
from harness import api, oracles, descent_kernels as dk

COMBOS = [("euclidean", "dense32"), ("cosine", "csr"), ("manhattan", "dense64"), ("bit_jaccard", "bits"),
          ("correlation", "csr"), ("hellinger", "dense32"), ("jaccard", "csr"), ("cosine", "dense32"),
          ("hamming", "csr"), ("minkowski", "dense32"), ("true_angular", "dense32"), ("euclidean", "csr"),
          ("bit_hamming", "bits"), ("dot", "dense32"), ("canberra", "denseF"), ("hellinger", "csr"),
          ("braycurtis", "dense32"), ("chebyshev", "csr"), ("dice", "dense32"), ("correlation", "dense32"),
          ("sqeuclidean", "dense32"), ("jensen_shannon", "dense32"), ("matching", "csr"), ("l2", "csr"), ("l2", "dense32")]


def kernel_level(res, rng, n_cases):
    for c in range(n_cases):
        cfg = dk.nnd_case(rng, small=(c % 2 == 0)); cfg["sparse"] = (c % 3 == 2)     # every third case: sparse_nndescent.nn_descent
        outs = {}
        for low in (True, False):
            impl, line, (X, tab, ind, dst, _init) = dk.run_nnd_pair(cfg, low)
            model = run_driver([line])[0]
            outs[low] = impl
            res.traces += 1
            if model != impl:
                res.corr_fail("nn_descent_bit_exact", {"cfg": cfg, "low_memory": low}, model[:300], impl[:300])
            # the property predicate on the REAL arrays (distance table = exact squared euclidean on integer data)
            bad = graph_predicate_exact(tab, cfg["k"], ind, dst)
            if bad:
                res.violation("graph:kernel:" + bad[0], bad[1], {"cfg": cfg, "low_memory": low})
        res.case(tuple(sorted(cfg.items())), nontrivial=(cfg["n_iters"] > 0 and cfg["n"] > cfg["k"]),
                 sample={"cfg": cfg, "row0": outs[True].split(" | ")[0].split(" ")[:cfg["k"]]})
        res.count("kernel_cases"); res.count("kernel_sparse" if cfg.get("sparse") else "kernel_dense"); res.count("tree" if cfg["tree"] else "no-tree"); res.count("init_" + cfg["init"])
        res.count("threads_%d" % cfg["threads"])


def graph_predicate_exact(tab, k, ind, dst):
    n = tab.shape[0]
    if ind.shape != (n, k):
        return ("shape", "shape %s" % (ind.shape,))
    for p in range(n):
        row = ind[p]; real = row >= 0
        r = row[real]
        if (row >= n).any():
            return ("range", "row %d names %s" % (p, row.tolist()))
        if len(set(r.tolist())) != len(r):
            return ("duplicate", "row %d names a point twice: %s" % (p, row.tolist()))
        if real.any() and (~real).any() and np.argmax(~real) < np.max(np.nonzero(real)[0]):
            return ("sentinel-order", "row %d: real entry after -1: %s" % (p, row.tolist()))
        if (np.diff(dst[p]) < 0).any():
            return ("order", "row %d not ascending: %s" % (p, dst[p].tolist()))
        for j in range(k):
            if real[j] and dst[p, j] != tab[p, row[j]]:
                return ("distance", "row %d slot %d: %r but dist(%d,%d)=%r" % (p, j, float(dst[p, j]), p, row[j], float(tab[p, row[j]])))
            if not real[j] and not np.isinf(dst[p, j]):
                return ("sentinel-value", "row %d: -1 slot carries %r" % (p, float(dst[p, j])))
    return None


def gen_config(rng, n, k):
    cfg = {"low_memory": bool(rng.integers(2)), "tree_init": bool(rng.integers(4) > 0),
           "n_jobs": [None, -1, 1, 2, 3][int(rng.integers(5))], "n_trees": [None, 1, 3][int(rng.integers(3))],
           "leaf_size": [None, 3, 12][int(rng.integers(3))], "max_candidates": [None, 3, 20][int(rng.integers(3))],
           "n_iters": [None, 0, 1, 4][int(rng.integers(4))], "delta": [0.001, 0.0, 0.1][int(rng.integers(3))],
           "init": ["none", "none", "graph", "graph+dist"][int(rng.integers(4))]}
    return cfg


def api_case(res, rng, metric, kind):
    n = int(rng.choice([3, 6, 12, 40, 120])); k = int(rng.choice([2, 4, 8, 15])); dim = int(rng.choice([2, 4, 7]))
    if kind == "bits":
        dim = int(rng.choice([1, 2, 4]))
    zero_rows = bool(rng.integers(3) == 0) and metric not in ("dot",)
    X, L = api.gen_dataset(rng, metric, kind, n, dim, zero_rows=zero_rows)
    kw = api.metric_kwds(metric, rng, dim)
    cfg = gen_config(rng, n, k)
    if kind.startswith("csr") and cfg["init"] == "graph+dist":
        cfg["init"] = "graph"              # the sparse constructor takes no init_dist
    extra = {}
    if cfg["init"] != "none":
        G = rng.integers(0, n, size=(n, k)).astype(np.int32)
        G[rng.random((n, k)) < 0.3] = -1
        extra["init_graph"] = G
        if cfg["init"] == "graph+dist":
            from harness import refmetrics as R
            Dm = np.zeros((n, k), dtype=np.float32)
            for i in range(n):
                for j in range(k):
                    if G[i, j] >= 0:
                        v = oracles._ref(metric, L[i].astype(np.float64), L[G[i, j]].astype(np.float64), kw)
                        Dm[i, j] = 0.0 if v is None else v
            extra["init_dist"] = Dm
    case = {"metric": metric, "kind": kind, "n": n, "k": k, "dim": dim, "kwds": kw, "cfg": cfg, "zero_rows": zero_rows,
            "X": (X.toarray() if hasattr(X, "toarray") else np.asarray(X)).tolist() if n <= 12 else "n=%d (regenerate from seed)" % n}
    key = "graph:%s:%s" % (kind, metric)
    try:
        idx = NNDescent(X, metric=metric, metric_kwds=kw, n_neighbors=k, random_state=int(rng.integers(10 ** 6)),
                        low_memory=cfg["low_memory"], tree_init=cfg["tree_init"], n_jobs=cfg["n_jobs"],
                        n_trees=cfg["n_trees"], leaf_size=cfg["leaf_size"], max_candidates=cfg["max_candidates"],
                        n_iters=cfg["n_iters"], delta=cfg["delta"], **extra)
        inds, dists = idx.neighbor_graph
    except Exception as e:  # noqa
        res.violation(key + ":exception", "%s: %s" % (type(e).__name__, str(e)[:300]), case)
        return
    probs = oracles.graph_problems(L, k, metric, kw, inds, dists)
    res.case((metric, kind, n, k, dim, tuple(sorted((a, str(b)) for a, b in cfg.items())), np.asarray(L).tobytes()),
             nontrivial=(n > 2), sample={"metric": metric, "kind": kind, "n": n, "k": k, "cfg": cfg,
                                         "row0": [inds[0].tolist(), [float(v) for v in dists[0]]]})
    res.count("api_" + kind); res.count("n<=k" if n <= k else "n>k"); res.count("init_" + cfg["init"])
    res.traces += 1
    for kind_, what in probs[:1]:
        res.violation(key + ":" + kind_, what, case)
    if not probs and rng.integers(3) == 0:
        # building the search structures must not disturb what the index exposes as its neighbour graph
        try:
            idx.prepare()
            i2, d2 = idx.neighbor_graph
            if not (np.array_equal(inds, i2) and np.array_equal(dists, d2, equal_nan=True)):
                res.violation(key + ":changed-by-prepare", "neighbor_graph read after prepare() differs from the one read after construction "
                              "(%d rows differ)" % int(np.sum(np.any((inds != i2) | (dists != d2), axis=1))), case)
        except Exception as e:  # noqa
            res.violation(key + ":exception", "prepare(): %s: %s" % (type(e).__name__, str(e)[:300]), case)
        res.count("api_graph_after_prepare")


def run(res, tier, seed, search):
    rng = np.random.default_rng(seed + 101)
    res.rule = ("kernel level: random nn_descent configurations on integer data (n<=160, k<=9, tree/random/heap init, "
                "threads 1/2/3/16, both memory modes) compared bit-for-bit with the Lean model, non-trivial = n_iters>0 and n>k; "
                "API level: (metric, data kind) x sizes incl. n<=k x build configurations incl. init_graph with -1 holes / init_dist, "
                "well-formedness predicate + float64 reference; distinct = hash of configuration and data")
    nk, combos_n, reps = (10, 6, 3) if tier == "quick" else (60, len(COMBOS), 6)
    if search:
        nk, reps = nk * 3, reps * 2
    kernel_level(res, rng, nk)
    dk.check_init_kernels(res, rng, 15 if tier == "quick" else 150)
    start = (seed * combos_n) % len(COMBOS)
    # combos with their own code paths (normalising dot; cosine's zero-row branches) run on every seed
    # (+ a sparse metric that takes the feature count: the n_features glue of the constructor)
    always = [("dot", "dense32"), ("cosine", "dense32"), ("hamming", "csr"), ("l2", "csr")]      # (+ an alias name on the sparse side)
    rot = [COMBOS[(start + i) % len(COMBOS)] for i in range(combos_n)]
    for metric, kind in always + [c for c in rot if c not in always][: max(combos_n - 3, 1)]:
        for r in range(reps if (metric, kind) not in always or tier != "quick" else 2):
            api_case(res, rng, metric, kind)
    numba.set_num_threads(numba.config.NUMBA_NUM_THREADS)


if __name__ == "__main__":
    std_main("C01", run)
