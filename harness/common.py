"""Shared plumbing for the correspondence harness (run with /venv/bin/python).

* the implementation is always imported from /repo's working tree (editable install);
* numba's on-disk cache is redirected into the checkout and keyed by a hash of
  *all* pynndescent sources (numba itself only tracks the file a function lives
  in, so an edit to utils.py would otherwise leave stale callers in the cache);
* every random choice derives from one seed (VERIF_SEED);
* results are handed back to `check` as one JSON document.
"""
import hashlib, json, os, random, subprocess, sys, time, glob, shutil

VERIF = os.path.dirname(os.path.dirname(os.path.abspath(__file__)))
REPO = os.environ.get("PYNN_REPO", "/repo")
LEAN = os.path.join(VERIF, "lean")
DRIVER = os.path.join(LEAN, ".lake", "build", "bin", "driver")


def source_hash():
    h = hashlib.sha1()
    for f in sorted(glob.glob(os.path.join(REPO, "pynndescent", "*.py"))):
        h.update(f.encode())
        h.update(open(f, "rb").read())
    return h.hexdigest()[:16]


def setup_numba_cache():
    """Must be called before numba is imported."""
    base = os.path.join(VERIF, ".cache", "numba")
    d = os.path.join(base, source_hash())
    os.makedirs(d, exist_ok=True)
    os.utime(d, None)
    # keep the 3 most recently used cache dirs (disk is limited)
    dirs = sorted(glob.glob(os.path.join(base, "*")), key=os.path.getmtime, reverse=True)
    for old in dirs[3:]:
        shutil.rmtree(old, ignore_errors=True)
    os.environ["NUMBA_CACHE_DIR"] = d
    if REPO not in sys.path:
        sys.path.insert(0, REPO)
    os.environ.setdefault("PYTHONDONTWRITEBYTECODE", "1")
    sys.dont_write_bytecode = True
    return d


def f32bits(x):
    import numpy as np
    return int(np.asarray(x, dtype=np.float32).view(np.uint32))


def bits_row(a):
    import numpy as np
    return " ".join(str(int(v)) for v in np.ascontiguousarray(a, dtype=np.float32).view(np.uint32).ravel())


def ints_row(a):
    return " ".join(str(int(v)) for v in a)


def run_driver(lines, timeout=600):
    """Pipe command lines to the Lean model driver, return its output lines."""
    if not os.path.exists(DRIVER):
        raise RuntimeError("driver not built: " + DRIVER)
    inp = "\n".join(lines) + "\n"
    p = subprocess.run([DRIVER], input=inp.encode(), stdout=subprocess.PIPE,
                       stderr=subprocess.PIPE, timeout=timeout)
    if p.returncode != 0:
        raise RuntimeError("driver failed: " + p.stderr.decode()[-2000:])
    out = p.stdout.decode().split("\n")
    if out and out[-1] == "":
        out.pop()
    if len(out) != len(lines):
        raise RuntimeError("driver returned %d lines for %d commands" % (len(out), len(lines)))
    return out


class Result:
    """Accumulates what one harness run covered and found."""

    def __init__(self, pid, tier, seed):
        self.pid, self.tier, self.seed = pid, tier, seed
        self.evaluations = 0
        self.hashes = set()          # distinct non-trivial canonical cases
        self.samples = []
        self.hist = {}
        self.corr_failures = []      # model vs implementation disagreements (with input)
        self.violations = []         # property predicate false on the REAL code (with input)
        self.notes = []
        self.rule = ""
        self.traces = 0
        self.t0 = time.time()

    def count(self, key, n=1):
        self.hist[key] = self.hist.get(key, 0) + n

    def case(self, canon, nontrivial=True, sample=None):
        self.evaluations += 1
        if nontrivial:
            self.hashes.add(hashlib.sha1(repr(canon).encode()).hexdigest())
        if sample is not None and len(self.samples) < 4:
            self.samples.append(sample)

    def corr_fail(self, name, case, expected=None, observed=None):
        if len(self.corr_failures) < 20:
            self.corr_failures.append({"correspondence": name, "case": case,
                                       "model": expected, "impl": observed})
        self.count("corr_fail:" + name)

    def violation(self, key, what, case):
        """key identifies the failing input / call site (matched against known_findings)."""
        # at most 3 recorded per key (all are counted) so that one failing site cannot crowd out another
        if self.hist.get("violation:" + key, 0) < 3 and len(self.violations) < 300:
            self.violations.append({"key": key, "what": what, "case": case})
        self.count("violation:" + key)

    def dump(self, path):
        doc = {
            "property_id": self.pid, "tier": self.tier, "seed": self.seed,
            "evaluations": self.evaluations, "distinct_nontrivial": len(self.hashes),
            "samples": self.samples, "hist": self.hist, "rule": self.rule,
            "corr_failures": self.corr_failures, "violations": self.violations,
            "notes": self.notes, "traces": self.traces, "wall_s": time.time() - self.t0,
        }
        with open(path, "w") as f:
            json.dump(doc, f, indent=1, default=str)


def std_main(pid, run, replay=None):
    """Entry point used by every harness module: `python -m harness.cXX --tier T --seed S --out F`."""
    import argparse
    ap = argparse.ArgumentParser()
    ap.add_argument("--tier", default="quick")
    ap.add_argument("--seed", type=int, default=0)
    ap.add_argument("--out", required=True)
    ap.add_argument("--search", action="store_true",
                    help="failing-input search mode: proof/correspondence broke, spend more budget on the real code")
    ap.add_argument("--replay", default=None)
    a = ap.parse_args()
    res = Result(pid, a.tier, a.seed)
    try:
        if a.replay:
            doc = json.load(open(a.replay))
            if replay is None:
                res.notes.append("replay not supported for this property; re-running the seeded check")
                run(res, a.tier, doc.get("seed", a.seed), a.search)
            else:
                replay(res, doc)
        else:
            run(res, a.tier, a.seed, a.search)
    except Exception as e:  # noqa
        # An exception that escapes from the implementation (a kernel that raises, a numba typing error after a
        # source change) on an input the harness generated is a failing input, not an infrastructure error.
        # Exceptions raised purely inside the harness stay infrastructure errors (exit 2).
        import traceback
        tb = traceback.extract_tb(e.__traceback__)
        impl = [f for f in tb if os.path.join(REPO, "pynndescent") in f.filename or "/numba/" in f.filename]
        if not impl:
            raise
        last_h = [f for f in tb if VERIF in f.filename][-1:]
        where = "%s:%d" % (os.path.basename(last_h[0].filename), last_h[0].lineno) if last_h else "?"
        res.violation("exception:%s" % type(e).__name__,
                      "the implementation raised %s: %s (reached from %s; last implementation frame %s:%d)"
                      % (type(e).__name__, str(e)[:300], where, os.path.basename(impl[-1].filename), impl[-1].lineno),
                      {"seed": a.seed, "tier": a.tier, "traceback": traceback.format_exc()[-1500:]})
    res.dump(a.out)
