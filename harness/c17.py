"""C17 — the caller's arrays are never modified.  Every array handed to the API (data, queries, xs_fresh,
xs_updated, init_graph, init_dist; for sparse input indptr / indices / data separately) is snapshotted and
compared byte-for-byte after every operation of a history; the alias bit the Lean model predicts for the
constructor is compared with np.shares_memory."""
import sys, os, pickle, warnings
sys.path.insert(0, os.path.dirname(os.path.dirname(os.path.abspath(__file__))))
from harness.common import *
setup_numba_cache()
warnings.filterwarnings("ignore")
import numpy as np, numba, scipy.sparse as sp
from pynndescent import NNDescent
from harness import api


class Watch:
    def __init__(self):
        self.items = []

    def add(self, name, a):
        if a is None:
            return a
        if sp.issparse(a):
            for part in ("indptr", "indices", "data"):
                arr = getattr(a, part)
                self.items.append((name + "." + part, arr, arr.tobytes(), arr.dtype, arr.shape))
            self.items.append((name + ".sorted-flag", None, bool(a.has_sorted_indices), a, None))
        else:
            a_ = np.asarray(a)
            self.items.append((name, a_, a_.tobytes(), a_.dtype, a_.shape))
        return a

    def changed(self):
        for name, arr, snap, dt, sh in self.items:
            if arr is None:
                continue
            if arr.tobytes() != snap or arr.dtype != dt or arr.shape != sh:
                return name
        return None


def make_input(rng, metric, style, n, dim):
    """returns (array handed to the index, model class tokens)"""
    if style == "bits":
        X = rng.integers(0, 256, size=(n, dim)).astype(np.uint8)
        return X, "u8 c 0 0 1"
    base, _ = api.gen_dataset(rng, metric, "dense32", n, dim)
    if style == "f32c":
        return np.ascontiguousarray(base), "f32 c 0 0 1"
    if style == "f32sub":
        # "any array": an ndarray SUBCLASS instance (user class; np.memmap behaves the same) - check_array hands back a base-class
        # view of the same buffer, so identity tests on the object say "converted" although nothing was copied
        return np.ascontiguousarray(base).view(_UserArray), "f32 c 0 0 1"
    if style == "f32memmap":
        import tempfile
        d = tempfile.mkdtemp(prefix="c17mm_"); _TMPDIRS.append(d)
        mm = np.memmap(os.path.join(d, "x.dat"), dtype=np.float32, mode="w+", shape=base.shape)
        mm[:] = base
        return mm, "f32 c 0 0 1"
    if style == "f64c":
        return base.astype(np.float64), "f64 c 0 0 1"
    if style == "f32f":
        return np.asfortranarray(base), "f32 f 0 0 1"
    if style == "f32strided":
        big = np.zeros((n, 2 * dim), dtype=np.float32); big[:, ::2] = base
        return big[:, ::2], "f32 strided 0 0 1"
    if style == "f64f":
        return np.asfortranarray(base.astype(np.float64)), "f64 f 0 0 1"
    M = sp.csr_matrix(base * (rng.random(base.shape) < 0.7))
    for i in range(n):
        if M.indptr[i] == M.indptr[i + 1]:
            M = M.tolil(); M[i, 0] = 1.0; M = M.tocsr()
    M = M.astype(np.float32)
    if style == "csr32":
        M.sort_indices(); return M, "f32 c 1 1 1"
    if style == "csr32dup":
        # sorted within rows but NOT canonical: some (row, column) positions are stored twice (as matrix products, hand-built CSR
        # or concatenations leave them) - passes every "is it sorted / is it float32 CSR" test un-copied
        M.sort_indices()
        ind, dat, ptr = [], [], [0]
        for i in range(n):
            for j in range(M.indptr[i], M.indptr[i + 1]):
                reps = 2 if rng.random() < 0.25 else 1
                for _ in range(reps):
                    ind.append(M.indices[j]); dat.append(M.data[j] / reps)
            ptr.append(len(ind))
        D_ = sp.csr_matrix((np.array(dat, dtype=np.float32), np.array(ind, dtype=np.int32), np.array(ptr, dtype=np.int32)), shape=M.shape)
        D_.has_sorted_indices = True
        return D_, "f32 c 1 1 1"
    if style == "csr32u":
        return api.unsort_csr(rng, M), "f32 c 1 1 0"
    if style == "csr64":
        M = M.astype(np.float64); M.sort_indices(); return M, "f64 c 1 1 1"
    if style == "csc32":
        return M.tocsc(), "f32 c 1 0 1"
    raise ValueError(style)


class _UserArray(np.ndarray):
    pass


_TMPDIRS = []

STYLES = ["csr32dup", "f32sub", "f32memmap", "f32c", "f64c", "f32f", "f32strided", "csr32", "csr32u", "csr64", "csc32", "bits", "f64f"]


def check_case(res, rng, style, metric, update_first=False, tree_init=None, compressed=None):
    n = int(rng.choice([30, 70])); dim = 5 if style != "bits" else 3; k = 4
    X, cls = make_input(rng, metric, style, n, dim)
    sparse = sp.issparse(X)
    w = Watch(); w.add("data", X)
    mclass = "bit" if style == "bits" else ("dot" if metric == "dot" else "plain")
    extra = {}
    if sparse and rng.integers(2) == 0 and X.format == "csr":
        G = rng.integers(0, n, size=(n, k)).astype(np.int32); G[rng.random((n, k)) < 0.3] = -1      # the documented "unknown" marker
        extra["init_graph"] = w.add("init_graph", G)
    if not sparse and rng.integers(3) == 0 and metric != "dot":
        G = rng.integers(0, n, size=(n, k)).astype(np.int32); G[rng.random((n, k)) < 0.2] = -1
        extra["init_graph"] = w.add("init_graph", G)
        if rng.integers(2):
            extra["init_dist"] = w.add("init_dist", rng.random((n, k)).astype(np.float32))
    tree_init = bool(rng.integers(3) > 0) if tree_init is None else tree_init
    if compressed is None:
        compressed = bool(rng.integers(4) == 0)
    if compressed:
        extra["compressed"] = True                 # configuration: a compressed index must not economise on the CALLER's arrays either
    case = {"style": style, "metric": metric, "n": n, "tree_init": tree_init, "extra": sorted(extra)}
    key = "alias:%s:%s" % (style, metric)
    ops_done = ["init"]
    try:
        idx = NNDescent(X, metric=metric, n_neighbors=k, random_state=int(rng.integers(10 ** 6)), tree_init=tree_init, **extra)
        # model's alias bit vs np.shares_memory right after construction
        model = run_driver(["alias %s %s" % (cls, mclass)])[0]
        mf = dict(t.split("=") for t in model.split(" "))
        raw = idx._raw_data
        shares = bool(np.shares_memory(raw.data, X.data)) if sparse and sp.issparse(raw) and X.format == "csr" else \
            (bool(np.shares_memory(raw, X)) if not sparse else False)
        res.count("alias_%s" % ("shared" if shares else "copied"))
        if (mf["alias"] == "1") != shares:
            res.corr_fail("alias_after_init", {**case, "class": cls}, model, "shares_memory=%s" % shares)
        bad = w.changed()
        history = ["prepare", "query", "update", "query", "pickle", "compress"]
        rng.shuffle(history)
        if history.index("compress") < history.index("update"):      # a compressed index refuses updates: keep the update observable
            i, j = history.index("compress"), history.index("update")
            history[i], history[j] = history[j], history[i]
        if update_first:                                               # replacement rows written while _raw_data may still alias the caller
            history.remove("update"); history.insert(0, "update")
        for op in [None] + history:
            if op == "prepare":
                idx.prepare()
            elif op == "query":
                qstyle = style if style != "csc32" else "csr32u"
                Q, _ = make_input(rng, metric, qstyle if rng.integers(2) else ("f64c" if not sparse and style != "bits" else qstyle), 9, dim)
                w.add("query", Q)
                idx.query(Q, k=3)
            elif op == "update":
                if sparse or idx.compressed and not hasattr(idx, "_neighbor_graph"):
                    continue
                F, _ = make_input(rng, metric, style, 5, dim); U, _ = make_input(rng, metric, style, 2, dim)
                w.add("xs_fresh", F); w.add("xs_updated", U)
                ui = w.add("updated_indices", np.array([1, 3]))
                idx.update(xs_fresh=F, xs_updated=U, updated_indices=ui)
            elif op == "pickle":
                pickle.loads(pickle.dumps(idx))
            elif op == "compress":
                idx.compress_index()
            if op:
                ops_done.append(op)
            bad = w.changed()
            if bad:
                res.violation(key + ":" + bad.split(".")[0], "caller's %s changed after %s" % (bad, ops_done), {**case, "ops": list(ops_done)})
                break
    except Exception as e:  # noqa
        if style == "csr32dup":
            # non-canonical CSR (duplicate entries) is outside what the sparse kernels are written for (sorted, duplicate-free rows):
            # an operation that raises on it is not this property's concern - that the caller's arrays are untouched is
            bad = w.changed()
            res.count("noncanonical_csr_raised")
            res.notes.append("non-canonical CSR input: %s: %s after %s (arrays %s)" % (type(e).__name__, str(e)[:120], ops_done,
                                                                                   "changed: " + bad if bad else "unchanged"))
            if bad:
                res.violation(key + ":" + bad.split(".")[0], "caller's %s changed after %s (the operation then raised %s)"
                              % (bad, ops_done, type(e).__name__), {**case, "ops": list(ops_done)})
        elif not (isinstance(e, ValueError) and "compressed" in str(e)):
            res.violation(key + ":exception", "%s: %s after %s" % (type(e).__name__, str(e)[:200], ops_done), case)
    res.case((style, metric, n, tree_init, tuple(sorted(extra)), tuple(ops_done)), nontrivial=len(ops_done) > 3,
             sample={**case, "ops": list(ops_done), "model": cls})
    res.traces += 1


def run(res, tier, seed, search):
    rng = np.random.default_rng(seed + 1717)
    res.rule = ("input styles (f32/f64, C/F/strided, ndarray subclass, np.memmap, CSR sorted/unsorted, CSR f64, CSC, uint8) x metrics incl. the normalising dot x "
                "shuffled histories {prepare, query, update(fresh+replace), pickle, compress}; bytes of every array ever handed in compared "
                "after every op; alias bit of the model vs np.shares_memory; non-trivial = >= 3 operations completed")
    metrics = {"bits": ["bit_hamming"], "default": ["euclidean", "dot", "cosine", "manhattan"]}
    others = [s_ for s_ in STYLES if s_ not in ("f32c", "csr32u", "f32sub", "csr32dup")]
    styles = STYLES if tier != "quick" or search else ["f32c", "csr32u", "f32sub", "csr32dup"] + [others[(3 * seed + i) % len(others)] for i in range(3)]
    reps = 1 if tier == "quick" else 3
    for style in styles:
        ms = metrics["bits"] if style == "bits" else metrics["default"]
        for r in range(reps):
            m = ms[int(rng.integers(len(ms)))]
            if style.startswith("cs") and m == "dot":
                m = "cosine"
            check_case(res, rng, style, m)
        if style == "f32c":
            check_case(res, rng, style, "dot")
            check_case(res, rng, style, "euclidean", update_first=True)
            check_case(res, rng, style, "dot", update_first=True)
            # the index aliases this buffer: every (metric with its own query glue) x (rows reordered at prepare or not)
            for m in ("cosine", "euclidean"):
                for ti in (False, True):
                    check_case(res, rng, style, m, tree_init=ti, compressed=False)
                check_case(res, rng, style, m, tree_init=True, compressed=True)
        if style in ("f32sub", "f32memmap"):
            check_case(res, rng, style, "dot")
        if style in ("csr32u", "csr32dup"):
            check_case(res, rng, style, "euclidean")
    import shutil
    while _TMPDIRS:
        shutil.rmtree(_TMPDIRS.pop(), ignore_errors=True)


if __name__ == "__main__":
    std_main("C17", run)
