"""C19 — thread count restored on every exit: fault sequences on the real code.

For each n_jobs and each way construction / prepare can fail after the thread
count was lowered (and for normal completion) the process-wide numba thread
count after the call must equal the count before it.  The calls to
numba.set_num_threads made by the implementation are recorded (by wrapping the
function object in the harness process, /repo is untouched) and validated
against the shape the generated skeleton allows: at most one lowering call
followed, on every exit, by a call that re-installs the entry value."""
import sys, os, random
sys.path.insert(0, os.path.dirname(os.path.dirname(os.path.abspath(__file__))))
from harness.common import *
setup_numba_cache()
import numpy as np, numba, scipy.sparse as sp
import pynndescent
from pynndescent import NNDescent

CALLS = []
_real_set = numba.set_num_threads


def _rec_set(n):
    CALLS.append(int(n))
    return _real_set(n)


numba.set_num_threads = _rec_set


X_QUERY = np.random.default_rng(3).standard_normal((4, 4)).astype(np.float32)


def py_metric(x, y):  # deliberately NOT jitted: nn_descent fails to compile with it
    return float(np.abs(x - y).sum())


class _Interrupter:
    """stands in for sys.stdout: the first progress line containing `needle` is answered with KeyboardInterrupt"""
    def __init__(self, needle):
        self.needle = needle

    def write(self, text):
        if self.needle in text:
            raise KeyboardInterrupt()
        return len(text)

    def flush(self):
        pass


def quiet(thunk):
    """verbose=True without the noise"""
    old = sys.stdout
    sys.stdout = open(os.devnull, "w")
    try:
        return thunk()
    finally:
        sys.stdout.close(); sys.stdout = old


def interrupted(thunk, needle):
    old = sys.stdout
    sys.stdout = _Interrupter(needle)
    try:
        return thunk()
    finally:
        sys.stdout = old


def scenarios(rng, tier):
    X = rng.standard_normal((70, 4)).astype(np.float32)
    S = sp.random(70, 12, density=0.4, format="csr", dtype=np.float32, random_state=int(rng.integers(1 << 30)))
    good_graph = rng.integers(0, 70, size=(70, 5)).astype(np.int32)
    out = []
    # (the machine maximum too: with a lowered entry count n_jobs RAISES the count, and that must be undone as well)
    jobs = [None, -1, 1, 2, 3, numba.config.NUMBA_NUM_THREADS] if tier == "quick" else [None, -1, 1, 2, 3, 5, 8, numba.config.NUMBA_NUM_THREADS]
    for nj in jobs:
        out.append(("ok-dense", nj, lambda nj=nj: NNDescent(X, n_neighbors=5, n_jobs=nj, random_state=1)))
        out.append(("ok-dense-prepare", nj, lambda nj=nj: NNDescent(X, n_neighbors=5, n_jobs=nj, random_state=1).prepare()))
        # configurations: every switch that adds work inside the thread-limited region of the constructor / of prepare
        out.append(("ok-dense-compressed", nj, lambda nj=nj: NNDescent(X, n_neighbors=5, n_jobs=nj, random_state=1, compressed=True)))
        out.append(("ok-sparse-compressed-prepare", nj,
                    lambda nj=nj: NNDescent(S, metric="cosine", n_neighbors=5, n_jobs=nj, random_state=1, compressed=True).prepare()))
        cfg = dict(compressed=bool(rng.integers(2)), low_memory=bool(rng.integers(2)), tree_init=bool(rng.integers(2)),
                   metric=str(rng.choice(["euclidean", "cosine", "manhattan", "dot"])), parallel_batch_queries=bool(rng.integers(2)))
        out.append(("ok-config-%s" % "-".join("%s=%s" % kv for kv in sorted(cfg.items())), nj,
                    lambda nj=nj, cfg=cfg: NNDescent(X if rng.integers(2) else S, n_neighbors=5, n_jobs=nj, random_state=1, **cfg).prepare()))
        out.append(("ok-transformer-fit-transform", nj,
                    lambda nj=nj: pynndescent.PyNNDescentTransformer(n_neighbors=5, n_jobs=nj, random_state=1).fit(X).transform(X_QUERY)))
        def upd(nj=nj):
            idx = NNDescent(X, n_neighbors=5, n_jobs=nj, random_state=1)
            idx.prepare()
            idx.update(xs_fresh=X[:7] + np.float32(0.5))          # update() re-runs prepare() on a prepared index
            return idx
        out.append(("ok-prepare-then-update", nj, upd))
        out.append(("ok-sparse-parallel-batch-prepare-query", nj,
                    lambda nj=nj: NNDescent(S, metric="cosine", n_neighbors=5, n_jobs=nj, random_state=1, parallel_batch_queries=True).query(S[:3], k=3)))
        out.append(("ok-dense-parallel-batch-prepare", nj,
                    lambda nj=nj: NNDescent(X, n_neighbors=5, n_jobs=nj, random_state=1, parallel_batch_queries=True).prepare()))
        # "raises" includes what is not an Exception subclass: Ctrl-C while the (verbose) build prints its progress
        out.append(("fail-interrupt-in-constructor", nj, lambda nj=nj: interrupted(lambda: NNDescent(X, n_neighbors=5, n_jobs=nj, random_state=1, verbose=True), "NN descent")))

        def prep_interrupt(nj=nj):
            idx = NNDescent(X, n_neighbors=5, n_jobs=nj, random_state=1)
            idx.verbose = True
            return ("prepare-interrupt", idx)
        out.append(("fail-interrupt-in-prepare", nj, prep_interrupt))
        out.append(("fail-sparse-unsupported-metric", nj,
                    lambda nj=nj: NNDescent(S, metric="mahalanobis", n_neighbors=5, n_jobs=nj, random_state=1)))
        out.append(("fail-init-graph-size-verbose", nj,
                    lambda nj=nj: quiet(lambda: NNDescent(X, n_neighbors=5, n_jobs=nj, random_state=1, init_graph=good_graph[:50], verbose=True))))
        out.append(("fail-init-graph-size", nj,
                    lambda nj=nj: NNDescent(X, n_neighbors=5, n_jobs=nj, random_state=1, init_graph=good_graph[:50])))
        out.append(("fail-init-dist-shape", nj,
                    lambda nj=nj: NNDescent(X, n_neighbors=5, n_jobs=nj, random_state=1, init_graph=good_graph,
                                            init_dist=np.zeros((70, 3), dtype=np.float32))))
        out.append(("fail-sparse-init-graph-size", nj,
                    lambda nj=nj: NNDescent(S, n_neighbors=5, n_jobs=nj, random_state=1, init_graph=good_graph[:50])))
        out.append(("fail-nonjitted-callable-metric", nj,
                    lambda nj=nj: NNDescent(X, metric=py_metric, n_neighbors=5, n_jobs=nj, random_state=1)))

        def prep_fail(nj=nj):
            idx = NNDescent(X, n_neighbors=5, n_jobs=nj, random_state=1)
            idx._distance_func = py_metric        # prepare() now fails inside diversify
            return ("prepare", idx)
        out.append(("fail-prepare-bad-distance-func", nj, prep_fail))
    for nj in [None, 2]:
        def amb(nj=nj, how="prepare"):
            idx = NNDescent(X, n_neighbors=5, n_jobs=nj, random_state=1)
            return ("ambient", idx, how)
        out.append(("ok-prepare-after-ambient-change", nj, amb))
        out.append(("ok-query-after-ambient-change", nj, lambda nj=nj: amb(nj, "query")))
    for nj in [0, 10 ** 6]:
        out.append(("fail-invalid-n_jobs", nj, lambda nj=nj: NNDescent(X, n_neighbors=5, n_jobs=nj, random_state=1)))
    return out


def run_one(res, name, nj, thunk, start):
    _real_set(start)
    before = numba.get_num_threads()
    del CALLS[:]
    exc = None
    try:
        r = thunk()
        if isinstance(r, tuple) and r[0] == "ambient":
            # the process-wide count is changed by the application between construction and the first prepare / query
            other = max(1, before - 1) if before > 1 else before
            _real_set(other)
            before = numba.get_num_threads()
            del CALLS[:]
            if r[2] == "prepare":
                r[1].prepare()
            else:
                r[1].query(X_QUERY, k=3)
        elif isinstance(r, tuple) and r[0] == "prepare-interrupt":
            del CALLS[:]
            interrupted(r[1].prepare, "diversification")
        elif isinstance(r, tuple) and r[0] == "prepare":
            mid = numba.get_num_threads()
            if mid != before:
                res.violation("threads:%s" % "constructor-before-prepare", "count %d -> %d" % (before, mid),
                              {"scenario": name, "n_jobs": nj, "start": start})
            del CALLS[:]
            r[1].prepare()
    except BaseException as e:  # noqa
        exc = type(e).__name__
    after = numba.get_num_threads()
    calls = list(CALLS)
    lowered = any(c != before for c in calls)
    res.count("exit:" + ("raised" if exc else "normal"))
    res.count("scenario:" + name.split("-")[0])
    if name.startswith("fail") and exc is None:
        res.notes.append("scenario %s (n_jobs=%r) did not raise" % (name, nj))
    res.case((name, nj, start), nontrivial=bool(exc and lowered),
             sample={"scenario": name, "n_jobs": nj, "threads_before": before, "exception": exc,
                     "set_num_threads_calls": calls, "threads_after": after})
    res.traces += 1
    if after != before:
        res.violation("threads:" + name, "thread count %d before, %d after (n_jobs=%r, exception=%s)"
                      % (before, after, nj, exc), {"scenario": name, "n_jobs": nj, "start": start})
    # trace shape allowed by the skeleton: every lowering is followed by a final re-install of the entry value
    if lowered and calls[-1] != before:
        res.corr_fail("thread_call_trace", {"scenario": name, "n_jobs": nj}, "last call restores %d" % before, calls)


def run(res, tier, seed, search):
    rng = np.random.default_rng(seed + 5)
    res.rule = ("n_jobs x {normal constructor, constructor+prepare, 6 ways to fail after the count was lowered, prepare failing, "
                "invalid n_jobs} x entry thread counts; non-trivial = raised after the count was lowered (observed through the "
                "recorded set_num_threads calls); distinct = (scenario, n_jobs, entry count)")
    maxt = numba.config.NUMBA_NUM_THREADS
    starts = [maxt, max(1, maxt // 2)] if tier == "quick" and not search else [maxt, max(1, maxt // 2), 4]
    light = ("ok-dense", "ok-dense-compressed", "fail-init-graph-size", "fail-sparse-unsupported-metric", "ok-dense-prepare", "fail-init-graph-size-verbose")
    for si, start in enumerate(starts):
        for name, nj, thunk in scenarios(rng, tier):
            if tier == "quick" and not search and si > 0 and name not in light:
                continue        # quick tier: the lowered entry count only for the cheap scenarios (each prepare() compiles a closure)
            run_one(res, name, nj, thunk, min(start, maxt))
    _real_set(maxt)


if __name__ == "__main__":
    std_main("C19", run)
