"""Per-property registration: used by `check` (harness module, evidence level,
assumptions) and by tools/mkmanifest.py (MANIFEST.json is generated from this)."""

COMMON_ASSUMPTIONS = [
    "each numba kernel computes what its hand-written Lean model computes: sampled bit-exactly on generated inputs on every run, not proved",
    "Lean 4.33.0 kernel; theorems may use only propext, Classical.choice, Quot.sound (audited with #print axioms on every run)",
]
TB = "trusted: Lean kernel + {propext, Classical.choice, Quot.sound}; "

PROPS = {
    "C08": {
        "harness": "c08", "level": "proof", "category": "proof", "design_ref": "DESIGN.md 5/C08, 4.7", "translators": [],
        "technique": "Lean 4 proof (two-pointer merges decode to pointwise operations; sparse metric = dense metric on list-encoded vectors, over any ordered ring/field) + exact correspondence of the merge kernels + real sparse vs real dense kernels on all support patterns",
        "text": "Lean theorems over a literal model of sparse.py's merge kernels (sparse_sum/diff/mul with dropped zeros and tail loops, "
                "sparse_dot_product with its early returns, arr_union/intersect, fast_intersection_size): merge_decode / merge_wf / merge_enc "
                "(every support relation at once), dot_product_agrees, intersection_size_agrees, and sparse_X (enc x) (enc y) [n] = dense_X x y "
                "for the Minkowski family, hamming, the binary family with the n_features closed-form corrections, cosine parts, hellinger sums, "
                "braycurtis, canberra and correlation's implicit-zero accounting (where defect D17 lived), all before the final sqrt; enc provably "
                "satisfies the well-formedness precondition. The model is compared exactly with the real merge kernels on all support patterns "
                "for dim <= 5 with small-integer values (cancellations to 0) and the real sparse metrics are compared with the real dense "
                "metrics for every name in both tables (n_features / p / ground metric supplied; union of supports for JS / symmetric KL)",
        "note": TB + "float rounding is outside the theorems (ordered ring/field); sqrt/log final steps, kantorovich, wasserstein_1d, non-integer minkowski p "
                     "and the JS/KL bodies are compared on real kernels only; rows < 65536 entries (uint16 cursors); CSR rows sorted, no stored zeros",
        "explanation": "theorems for all support patterns and values; exact kernel correspondence; real sparse vs dense on exhaustive small patterns",
        "assumptions": COMMON_ASSUMPTIONS + ["sparse rows have strictly increasing indices and no stored zeros (enc_wf; scipy canonical CSR)",
                                             "empty operands of sparse_dot_product are not generated (out-of-bounds read in the kernel: memory safety is outside the model)"],
    },
    "C11": {
        "harness": "c11", "level": "proof", "category": "proof", "design_ref": "DESIGN.md 5/C11, 4.1",
        "technique": "Lean 4 proof (invariant by induction over offer sequences) + bit-exact differential correspondence",
        "text": "Lean theorems topk_checked, topk_simple, push_accept_perm, push_reject_id, deheapSort_spec about a literal model of the "
                "three push kernels and deheap_sort, for every heap size, linear order and offer sequence; the model is tied to the numba "
                "kernels by bit-exact comparison after every single operation on generated sequences, and the property predicate is "
                "evaluated on the real kernels' output",
        "note": TB + "the sampled bit-exact correspondence between the Lean model and utils.py; float32 priorities without NaN; rows < 65536 slots",
        "explanation": "theorems over every heap size / linear order / offer sequence; correspondence after every single push and after deheap_sort",
        "assumptions": COMMON_ASSUMPTIONS + ["float32 priorities are totally ordered (no NaN reaches a heap)",
                                             "uint16 loop counters in the kernels: rows shorter than 65536 slots"],
    },
    "C01": {
        "harness": "c01", "level": "proof", "category": "proof", "design_ref": "DESIGN.md 5/C01, 4.2", "translators": [],
        "technique": "Lean 4 proof (well-formedness invariant by induction over every kernel of a literal NN-descent model) + bit-exact differential correspondence of the whole nn_descent + API oracle with float64 metric reference",
        "text": "Lean theorem descent_wellformed: for every n, k, symmetric distance table, leaf array, generator state, n_iters, stop test, "
                "max_candidates, thread count, memory mode and well-formed initial heap, the output of the modelled nn_descent has n rows of k "
                "slots, each sorted closest-first, real entries distinct, in range and first, sentinels (-1, inf) last, and every real entry "
                "carries the true distance. The model is the code as written (heap layout, exact Tausworthe generator incl. float32 draws, "
                "thread partition, i<j / k>=j enumerations, <, <= tests, stop test) and is compared bit-for-bit with the real numba nn_descent "
                "on integer data in both memory modes; the public neighbor_graph of dense / CSR / bit-packed indexes over metric families and "
                "build configurations (init_graph with holes, init_dist, n<=k, zero rows, duplicates) is checked with the same predicate and an "
                "independent float64 reference of each metric",
        "note": TB + "the sampled bit-exact correspondence of the model with pynndescent_.py/utils.py (dense kernels; the sparse twin is covered at API "
                     "level only); metric values are compared under the float32 tolerance rule of DESIGN C07; the correction step is property C09",
        "explanation": "invariant theorem over all configurations; whole-pipeline bit-exact correspondence; API predicate with float64 reference",
        "assumptions": COMMON_ASSUMPTIONS + ["the distance function is symmetric and NaN-free on the data", "init_dist, when supplied and used, is truthful (docstring contract)"],
    },
    "C03": {
        "harness": "c03", "level": "other", "category": "other", "design_ref": "DESIGN.md 5/C03, 7", "translators": [],
        "technique": "Lean 4 proof of the provable clauses (single-leaf exactness, delivery of every discovered pair to both endpoints) + bit-exact correspondence; recall floors only measured (sampling)",
        "text": "PARTIAL. Proved in Lean for the literal NN-descent model: single_leaf_exact (when one leaf holds all points the graph after leaf "
                "initialisation is the exact k-NN graph up to ties, for every n, k, metric), local_join_delivers_both (+_high): every discovered "
                "pair is offered to both endpoints in both memory modes, rows are exactly the feed of those offers; C13 gives monotone improvement. "
                "Tied to the code by the bit-exact nn_descent correspondence and an API check that a dataset fitting one leaf yields the exact graph. "
                "The 90 % / 80 % recall floors are statistical statements about a randomised heuristic: they are MEASURED on seeded well-conditioned "
                "families (uniform, gaussian, clustered, manifold, sparse topic mixture, binary prototypes x metric families x memory mode x tree_init "
                "x n_jobs, averaged over repetitions) and reported as sampling, not proof",
        "note": TB + "the recall floors have no theorem (no executable-model statement expresses them); a measured mean below the floor is reported with the seeded family as replay",
        "explanation": "partial: two of the three sentences of the property are decided by theorems + correspondence; the recall floors are sampled. "
                       "Measured recalls of this run are listed under coverage.notes",
        "assumptions": COMMON_ASSUMPTIONS + ["recall floors: sampling on seeded families, averaged over repetitions; query floor asserted for the default tree-seeded search only"],
    },
    "C05": {
        "harness": "c05", "level": "proof", "category": "proof", "design_ref": "DESIGN.md 5/C05, 4.6, 2.3", "translators": ["prange"],
        "technique": "Lean 4 proof (schedule independence of non-interfering loops) + decide over per-iteration memory footprints regenerated from the source + bit-for-bit repetition",
        "text": "Lean proves once that a prange loop whose iterations touch only rows they own yields the sequential result under every "
                "interleaving (schedule_independent, schedules_agree: all merges, any number of iterations); translate_prange.py regenerates "
                "on every run the read/write/mutator/reduction footprint of one iteration of every prange loop in the package and Lean "
                "`decide`s that every loop on the build/prepare/query/update paths is non-interfering; seeded histories are repeated under "
                "fixed thread counts and compared bit-for-bit (graph, generator states, search graph, answers) after every step",
        "note": TB + "the footprint translator (ast walk with alias resolution, guard domination, CSR row segments, inter-procedural mutator "
                     "summaries; conservative: unclassifiable effects are `shared`) and its contract that owned classes denote rows no other "
                     "iteration touches; numba's prange executes some merge of the iterations; real interleavings are only sampled",
        "explanation": "general theorem + decide on Gen/Prange.lean; repetition of seeded histories under thread counts 2..16",
        "assumptions": ["numba prange runs the iterations' operations in some interleaving that preserves each iteration's own order",
                        "indptr arrays are monotone (CSR row segments are disjoint)", "metric kernels do not mutate their arguments",
                        "integer += reductions in prange are exact and commutative"],
    },
    "C06": {
        "harness": "c06", "level": "proof", "category": "proof", "design_ref": "DESIGN.md 5/C06, 2.3", "translators": ["tables"],
        "technique": "Lean 4 decide over selection tables regenerated by executing the real selection statements on every metric name + real pickle/joblib round-trips",
        "text": "translate_tables.py regenerates on every run the extensional decision table of the metric selection at construction "
                "(the statements of __init__, located by AST and executed on a stub for every public name x {dense, CSR}) and after load "
                "(the real __setstate__ on a stub); Lean decides that load re-selects exactly the kernel, correction and n_features "
                "convention construction chose, that CSR indexes only run sparse kernels, and that surrogate/correction pairs follow the "
                "tables; real indexes (dense / CSR / bit-packed, surrogate metrics, metric_kwds, compressed) are dumped and loaded with "
                "pickle protocols and joblib at three life points and answers compared bit-for-bit",
        "note": TB + "the tables translator; pickle carries every other attribute unchanged (exercised on real round-trips, not proved); "
                     "callable (user-supplied) metrics are outside the tables",
        "explanation": "decide over Gen/Tables.lean (every built-in name x data kind); real round-trips compared bit-for-bit",
        "assumptions": ["pickle/joblib reproduce every attribute other than the re-selected distance function (sampled on real round-trips)"],
    },
    "C12": {
        "harness": "c12", "level": "proof", "category": "proof", "design_ref": "DESIGN.md 5/C12", "translators": [],
        "technique": "Lean 4 proof (refinement: high-memory applier = low-memory applier under the in_graph invariant, lifted through the whole descent loop) + bit-exact correspondence of both appliers + API equality of both modes",
        "text": "Lean theorems applyHigh_eq_applyLow (graph AND change count, any thread count, any truthful update list, under the invariant that a "
                "recorded candidate is one the heap would reject) and descent_low_eq_high (the whole modelled nn_descent returns identical rows and "
                "generator state in both modes, for every configuration), plus low_memory_thread_count_irrelevant; both real appliers are compared "
                "bit-for-bit with the model on the same update lists (self pairs, repeats, 1..16 threads) and with each other; real indexes built "
                "with low_memory=True and False must have identical neighbor_graph arrays, search graphs and answers (dense, CSR, bit-packed)",
        "note": TB + "the sampled bit-exact correspondence of model and kernels; symmetric NaN-free distance",
        "explanation": "refinement theorem for all configurations + kernel correspondence + API equality",
        "assumptions": COMMON_ASSUMPTIONS + ["symmetric distance function"],
    },
    "C13": {
        "harness": "c13", "level": "proof", "category": "proof", "design_ref": "DESIGN.md 5/C13", "translators": [],
        "technique": "Lean 4 proof (order statistics of every row are non-increasing under every kernel, by induction over the op sequence) + bit-exact correspondence + rank-wise API comparisons",
        "text": "Lean theorems push_rank_le / descent_rank_le / iteration_rank_le: for every threshold t the number of entries of every row within t "
                "never decreases under any push, any update application, any initialisation kernel, any iteration and the final sort, for arbitrary "
                "graphs and update lists (no invariant needed), i.e. the j-th smallest distance of every row is non-increasing; reinsert_eq: re-pushing "
                "a well-formed row reproduces it (update() starts from the old lists). The real nn_descent is run from supplied heaps and compared "
                "rank-wise (exact) and with the model; at API level init_graph (with -1 holes, +-init_dist) vs result, n_iters=t vs t+1, and "
                "neighbor_graph before vs after update(xs_fresh) are compared rank-wise",
        "note": TB + "the sampled bit-exact correspondence; reported (corrected) distances are compared at API level, monotonicity of corrections is C09",
        "explanation": "monotonicity theorem for all op sequences + kernel correspondence + rank-wise API comparisons",
        "assumptions": COMMON_ASSUMPTIONS,
    },
    "C19": {
        "harness": "c19", "translators": ["threads"], "level": "proof", "category": "proof", "design_ref": "DESIGN.md 5/C19, 2.3",
        "technique": "Lean 4 proof (soundness of an exception-flow checker) + decide over a skeleton regenerated from the source + fault sequences on the real API",
        "text": "translate_threads.py regenerates, on every run, the exception-flow skeleton of every function in the package that calls "
                "numba.set_num_threads; Lean proves once that a skeleton accepted by `safe` restores the count on every exit (normal, return, "
                "exception at any may-raise point) and `decide`s `safe` on today's skeletons; the real constructor/prepare are run through every "
                "listed failure mode and n_jobs value and the thread count is compared before/after",
        "note": TB + "the translator (ast walk, conservative: unknown constructs are never safe); numba.set_num_threads(original) itself does not raise; "
                     "the thread count is only changed through numba.set_num_threads",
        "explanation": "general theorem safe_sound + decide on Gen/ThreadFlow.lean; API fault sequences with recorded set_num_threads calls",
        "assumptions": ["the only way the package changes the thread count is numba.set_num_threads (grep'd by the translator over all modules)",
                        "restoring with the saved entry value does not raise"],
    },
}
