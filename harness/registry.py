"""Per-property registration: used by `check` (harness module, evidence level,
assumptions) and by tools/mkmanifest.py (MANIFEST.json is generated from this)."""

COMMON_ASSUMPTIONS = [
    "each numba kernel computes what its hand-written Lean model computes: sampled bit-exactly on generated inputs on every run, not proved",
    "Lean 4.33.0 kernel; theorems may use only propext, Classical.choice, Quot.sound (audited with #print axioms on every run)",
]
TB = "trusted: Lean kernel + {propext, Classical.choice, Quot.sound}; "

PROPS = {
    "C08": {
        "harness": "c08", "level": "proof", "category": "proof", "design_ref": "DESIGN.md 5/C08, 4.7", "translators": ["kernels", "sparsemetrics"],
        "technique": "Lean 4 proof (two-pointer merges decode to pointwise operations; sparse metric = dense metric on list-encoded vectors, over any ordered ring/field) "
                     "+ tie BY THEOREM for the four two-pointer kernels sparse_sum / sparse_mul / sparse_dot_product / fast_intersection_size: their source text is "
                     "translated to Lean on every run (harness/translate_kernels.py -> Gen/Kernels.lean) and the translation is proved memory safe and equal to the "
                     "hand-written model for every input; the translator is validated by executing its output against the numba kernels on every run "
                     "+ exact correspondence of the remaining merge kernels + real sparse vs real dense kernels on all support patterns",
        "text": "ALSO TIED BY THEOREM (harness/translate_sparsemetrics.py -> Gen/SparseMetricKernels.lean, regenerated every run): the sparse metric kernels sparse_diff, "
                "sparse_squared_euclidean, sparse_euclidean, sparse_manhattan, sparse_chebyshev - wrappers that CALL the translated sparse_sum (on -data2) and loop once over the "
                "merged row - are proved memory safe and equal to the model (kernel_sparse_diff_refines, kernel_sparse_squared_euclidean_refines, kernel_sparse_euclidean_refines, "
                "kernel_sparse_manhattan_refines, kernel_sparse_chebyshev_refines: all rows, any carrier, fuel >= n1+n2+1); kernel_sparse_metrics_enc restates sqeuclidean_agrees / "
                "manhattan_agrees / chebyshev_agrees on the translated source, and kernel_sparse_eq_dense states property C08 on BOTH regenerated kernels over R: translated sparse_X on "
                "the CSR encodings = translated dense X of distances.py (Gen/MetricKernels.lean) on the vectors, for squared_euclidean, manhattan, chebyshev. "
                "Lean theorems over a literal model of sparse.py's merge kernels (sparse_sum/diff/mul with dropped zeros and tail loops, "
                "sparse_dot_product with its early returns, arr_union/intersect, fast_intersection_size): merge_decode / merge_wf / merge_enc "
                "(every support relation at once), dot_product_agrees, intersection_size_agrees, and sparse_X (enc x) (enc y) [n] = dense_X x y "
                "for the Minkowski family, hamming, the binary family with the n_features closed-form corrections, cosine parts, hellinger sums, "
                "braycurtis, canberra and correlation's implicit-zero accounting (where defect D17 lived), all before the final sqrt; enc provably "
                "satisfies the well-formedness precondition. TIE TO THE CODE, by theorem, for sparse_sum, sparse_mul, sparse_dot_product and "
                "fast_intersection_size: on every run harness/translate_kernels.py re-reads the source text of these kernels in sparse.py and regenerates "
                "Gen/Kernels.lean (syntax-directed translation into the Option monad: every array load/store is bounds-checked and answers none outside the "
                "array, every loop is a fuel-bounded recursion); kernel_sparse_sum_refines, kernel_sparse_mul_refines, kernel_sparse_dot_product_refines, "
                "kernel_fast_intersection_size_refines prove that for EVERY pair of rows (parallel arrays of equal length, non-negative indices, any carrier "
                "with 0, decidable equality, + and *; sorted or not) and fuel >= n1+n2+1 the translated kernel performs no out-of-bounds access (sparse_sum: "
                "np.zeros(n1+n2) buffers, invariant nnz <= i1+i2, final [:nnz] slices), terminates and returns exactly the model's result; "
                "kernel_sparse_dot_product_empty_oob: with an empty operand the translated kernel reads ind[0] out of bounds (none) - the same answer as the model; "
                "kernel_merge_decode / kernel_enc_agrees restate merge_decode, merge_enc, dot_product_agrees and intersection_size_agrees on the translated "
                "source. A change to one of these kernels changes Gen/Kernels.lean and the proofs are re-checked against it (mutation self-test: `<` -> `<=`, a "
                "dropped `if val != 0`, `i1 < limit1` -> `<=` each break the build; renaming a local does not). The remaining kernels (sparse_diff, dense_union, "
                "arr_union, arr_intersect) and all 8 again are compared exactly with the model on all support patterns "
                "for dim <= 5 with small-integer values (cancellations to 0) and the real sparse metrics are compared with the real dense "
                "metrics for every name in both tables (n_features / p / ground metric supplied; union of supports for JS / symmetric KL)",
        "note": TB + "the translator harness/translate_sparsemetrics.py (same machinery; np.abs -> absV, max -> maxV, np.sqrt -> a function parameter; validated by executing "
                     "gsm_diff / gsm_sqeuclidean / gsm_manhattan / gsm_chebyshev against numba on every case incl. ill-formed rows); the other sparse metric kernels (minkowski, hamming, canberra, "
                     "bray_curtis, binary family, cosine, dot, hellinger, correlation, ...) are tied by sampling only; "
                     "the translator harness/translate_kernels.py (numba subset -> Lean; unsupported syntax omits the kernel and breaks the proof), validated on "
                     "every run by executing the translated kernels in the native driver (gk_sum, gk_mul, gk_dot, gk_isect) on every generated case plus "
                     "ill-formed rows (unsorted, duplicate indices, stored zeros) and comparing exactly with the numba kernels (translated-kernel:<name>); the "
                     "translation computes in unbounded Int and an abstract carrier: "
                     "float rounding is outside the theorems (ordered ring/field; the refinement theorems use no arithmetic law, only decidable `== 0`); "
                     "sqrt/log final steps, kantorovich, wasserstein_1d, non-integer minkowski p "
                     "and the JS/KL bodies are compared on real kernels only; rows < 65536 entries (uint16 cursors); CSR rows sorted, no stored zeros "
                     "(needed by the *_agrees / merge_* theorems, not by the refinement theorems); sparse_diff, dense_union, arr_union, arr_intersect are tied "
                     "to the model by sampled exact comparison only",
        "explanation": "theorems for all support patterns and values; four merge kernels tied to their source text by theorem (translation re-generated and "
                       "re-proved each run, translator validated by execution against numba); exact kernel correspondence; real sparse vs dense on exhaustive small patterns",
        "assumptions": COMMON_ASSUMPTIONS + ["sparse rows have strictly increasing indices and no stored zeros (enc_wf; scipy canonical CSR)",
                                             "empty operands of sparse_dot_product are not generated (out-of-bounds read in the kernel, proved for the translated source: kernel_sparse_dot_product_empty_oob)",
                                             "harness/translate_kernels.py renders the numba semantics of the four two-pointer kernels faithfully (int cursors as unbounded Int, no bounds checks = none; "
                                             "validated by execution against numba on every run, not proved)"],
    },
    "C11": {
        "harness": "c11", "level": "proof", "category": "proof", "design_ref": "DESIGN.md 5/C11, 4.1", "translators": ["kernels"],
        "technique": "Lean 4 proof (invariant by induction over offer sequences) + refinement theorems over the regenerated Lean translation "
                     "of the heap kernels' source (every input; memory safety included) + bit-exact differential correspondence",
        "text": "Lean theorems topk_checked, topk_simple, push_accept_perm, push_reject_id, deheapSort_spec about a literal model of the "
                "three push kernels and deheap_sort, for every heap size, linear order and offer sequence. For simple_heap_push, "
                "checked_heap_push, checked_flagged_heap_push and siftdown the tie between model and code is itself a theorem: "
                "harness/translate_kernels.py re-translates the kernels' source text into Lean on every run (Gen/Kernels.lean: Option monad, "
                "out-of-bounds load/store = none, loops over fuel) and kernel_simple_heap_push_refines, kernel_checked_heap_push_refines, "
                "kernel_checked_flagged_heap_push_refines, kernel_siftdown_refines prove that for every input (equal-sized arrays, non-empty "
                "row, fuel >= size + 1) the translated kernel returns exactly the model's row and return value; kernel_pushes_memory_safe: no "
                "load or store ever leaves an array; kernel_push_empty_row_out_of_bounds: on an empty row the pushes do read priorities[0] out "
                "of bounds (k >= 1 is a real precondition); kernel_arrays_determined: the zipped row determines the arrays; kernel_checked_topk / "
                "kernel_flagged_topk / kernel_simple_topk: any offer sequence fed through the translated checked_heap_push / "
                "checked_flagged_heap_push / simple_heap_push (distinct offers) from make_heap's arrays never leaves them and ends with the "
                "k best distinct candidates in the arrays; kernel_deheap_sort_refines / kernel_deheap_sort_sorts: the translated deheap_sort itself (2-D arrays, the "
                "views A[i, :j] handed to the translated siftdown with write-back) never leaves an array on rectangular n x k input and "
                "turns every row into the model's deheapSort of that row, hence (heap rows) ascending with the same (candidate, distance) "
                "pairs; kernel_deheap_sort_spec: the same for the per-row loop written out by hand over the translated siftdown. The refinement theorems use "
                "no order axioms (any type with decidable <=, <: they also hold of float32 with NaN). A change to a kernel changes the "
                "generated definitions and the refinement proofs stop building (a kernel that leaves the translated subset becomes a stub "
                "`none`, so the driver still builds and the proofs still fail). The translator is validated by execution: every "
                "single push of every generated sequence, utils.siftdown calls, utils.deheap_sort calls (1 x k and 2 x k) and every "
                "apply_graph_updates_low_memory case are also run through the generated kernels by the driver (gk_push, gk_siftdown, "
                "gk_deheap, gk_apply) and compared bit for bit with the numba kernels; the model stays compared bit for bit with the real "
                "kernels after every operation as before (pushes, deheap_sort, both update appliers, heap initialisers), and the property "
                "predicate is evaluated on the real kernels' output",
        "note": TB + "the translator harness/translate_kernels.py (syntax-directed, anything unsupported turns the kernel into a `none` stub and breaks the proof; "
                     "validated on every run by executing its output against the numba kernels bit for bit) for the four heap kernels and deheap_sort (prange read as range: row independence is C05's obligation); "
                     "the sampled bit-exact correspondence between the Lean model and utils.py for the callers (update appliers, heap "
                     "initialisers); integer locals are "
                     "unbounded Int in the translation (uint16 cursors: rows < 65536 slots); float32 priorities without NaN",
        "explanation": "theorems over every heap size / linear order / offer sequence; refinement theorems generated-kernel = model for every input "
                       "(regenerated from the source each run); correspondence after every single push and after deheap_sort; generated kernels "
                       "executed against numba on every push",
        "assumptions": COMMON_ASSUMPTIONS + ["float32 priorities are totally ordered (no NaN reaches a heap)",
                                             "uint16 loop counters in the kernels: rows shorter than 65536 slots",
                                             "parallel heap arrays have equal lengths and at least one slot (make_heap with size >= 1)"],
    },
    "C01": {
        "harness": "c01", "level": "proof", "category": "proof", "design_ref": "DESIGN.md 5/C01, 4.2", "translators": [],
        "technique": "Lean 4 proof (well-formedness invariant by induction over every kernel of a literal NN-descent model) + bit-exact differential correspondence of the whole nn_descent + API oracle with float64 metric reference",
        "text": "Lean theorem descent_wellformed: for every n, k, symmetric distance table, leaf array, generator state, n_iters, stop test, "
                "max_candidates, thread count, memory mode and well-formed initial heap, the output of the modelled nn_descent has n rows of k "
                "slots, each sorted closest-first, real entries distinct, in range and first, sentinels (-1, inf) last, and every real entry "
                "carries the true distance. The model is the code as written (heap layout, exact Tausworthe generator incl. float32 draws, "
                "thread partition, i<j / k>=j enumerations, <, <= tests, stop test) and is compared bit-for-bit with the real numba nn_descent "
                "on integer data in both memory modes; the public neighbor_graph of dense / CSR / bit-packed indexes over metric families and "
                "build configurations (init_graph with holes, init_dist, n<=k, zero rows, duplicates) is checked with the same predicate and an "
                "independent float64 reference of each metric",
        "note": TB + "the sampled bit-exact correspondence of the model with pynndescent_.py/utils.py (dense kernels; the sparse twin is covered at API "
                     "level only); metric values are compared under the float32 tolerance rule of DESIGN C07; the correction step is property C09",
        "explanation": "invariant theorem over all configurations; whole-pipeline bit-exact correspondence; API predicate with float64 reference",
        "assumptions": COMMON_ASSUMPTIONS + ["the distance function is symmetric and NaN-free on the data", "init_dist, when supplied and used, is truthful (docstring contract)"],
    },
    "C03": {
        "harness": "c03", "level": "other", "category": "other", "design_ref": "DESIGN.md 5/C03, 7", "translators": ["kernels"],
        "technique": "Lean 4 proof of the provable clauses (single-leaf exactness, delivery of every discovered pair to both endpoints) + refinement theorems over the regenerated Lean translations of generate_leaf_updates and generate_graph_updates + bit-exact correspondence; recall floors only measured (sampling)",
        "text": "PARTIAL. Proved in Lean for the literal NN-descent model: single_leaf_exact (when one leaf holds all points the graph after leaf "
                "initialisation is the exact k-NN graph up to ties, for every n, k, metric), local_join_delivers_both (+_high): every discovered "
                "pair is offered to both endpoints in both memory modes, rows are exactly the feed of those offers; C13 gives monotone improvement. "
                "For the two pair generators the tie between model and code is a theorem: harness/translate_kernels.py re-translates its source "
                "on every run (dist a function parameter on rows of data, one update list per leaf row starting with the (-1, -1, inf) "
                "placeholder, both breaks, range(i + 1, ..), the short-circuit threshold test) and kernel_generate_leaf_updates_refines proves "
                "that for every rectangular leaf block whose non-negative entries are row numbers the translated kernel never leaves an array, "
                "list r of its result is the placeholder followed by exactly the model's leafUpdates of row r (every pair i < j of the valid "
                "prefix beating one of the two thresholds, in the code's order), and every triple satisfies OkTriple, the precondition of the "
                "appliers' refinement theorems (C12); kernel_generate_graph_updates_refines: the same for the local join generate_graph_updates "
                "against the model's joinUpdates (new x new from the candidate's own position on, self pair included, then new x old, negative "
                "entries skipped, test <=), so that local_join_delivers_both speaks about updates the generated kernel produced; both translations "
                "are executed by the driver (gk_leafupd, gk_graphupd, dist = squared euclidean) against the numba kernels on generated blocks "
                "(holes, short rows, infinite / zero thresholds) on every run. "
                "Tied to the code by the bit-exact nn_descent correspondence and an API check that a dataset fitting one leaf yields the exact graph. "
                "The 90 % / 80 % recall floors are statistical statements about a randomised heuristic: they are MEASURED on seeded well-conditioned "
                "families (uniform, gaussian, clustered, manifold, sparse topic mixture, binary prototypes x metric families x memory mode x tree_init "
                "x n_jobs, averaged over repetitions) and reported as sampling, not proof",
        "note": TB + "the recall floors have no theorem (no executable-model statement expresses them); a measured mean below the floor is reported with the seeded family as replay",
        "explanation": "partial: two of the three sentences of the property are decided by theorems + correspondence; the recall floors are sampled. "
                       "Measured recalls of this run are listed under coverage.notes",
        "assumptions": COMMON_ASSUMPTIONS + ["recall floors: sampling on seeded families, averaged over repetitions; query floor asserted for the default tree-seeded search only"],
    },
    "C04": {
        "harness": "c04", "level": "proof", "category": "proof", "design_ref": "DESIGN.md 5/C04", "translators": [],
        "technique": "Lean 4 proof (invariant by induction over every operation history of a life-cycle state machine, for all forest / NN-descent oracles) + comparison of the model with the real object after every operation of seeded histories + C01/C02 predicates against the model's logical dataset",
        "text": "Model/Index.lean follows update / _init_search_graph / compress_index / __getstate__ as written (restore caller order by "
                "argsort(_vertex_order) iff the attribute exists, write replacements, append, reset rows and references of replaced points, "
                "re-seed, rebuild search structures iff any existed, refuse a compressed index or an invalid row number before touching "
                "anything); rows carry (identity, version) tags. Lean proves perm_roundtrip, history_inv (for every finite history and every "
                "vertex-order / found-neighbour oracle: _raw_data is the logical dataset in vertex order, one graph row per logical point owned by "
                "its current version, no tag of a replaced row survives, the compiled closure was built over the current rows), "
                "logical_dataset_spec (the logical dataset is the original rows with replacements applied followed by appended rows in order), "
                "update_refused_leaves_state / update_bad_index_leaves_state. Seeded histories over {prepare, query, update fresh / replace / both / "
                "invalid index, pickle, compress_index} on dense float and bit-packed indexes are run on the real code; after every operation the "
                "model (fed with the real vertex orders) must agree on row count, existence of _vertex_order / graph, compressed flag, error kind and "
                "_raw_data == logical[stored order], and the C01 / C02 predicates are evaluated against the logical dataset",
        "note": TB + "NN-descent and the forest are oracle inputs of the life-cycle model (their own properties are C01/C14); the correspondence with the real "
                     "object is sampled on seeded histories; pickling itself is C06",
        "explanation": "invariant theorem over all histories and oracles; model vs real object after every op; truthfulness predicates vs logical dataset",
        "assumptions": COMMON_ASSUMPTIONS + ["sparse indexes cannot be updated (NotImplementedError) and are outside C04's quantifier"],
    },
    "C05": {
        "harness": "c05", "level": "proof", "category": "proof", "design_ref": "DESIGN.md 5/C05, 4.6, 2.3", "translators": ["prange"],
        "technique": "Lean 4 proof (schedule independence of non-interfering loops) + decide over per-iteration memory footprints regenerated from the source + interpreter-mode footprint recorder that checks the translator's ownership classes against every element access of every prange iteration on every run + bit-for-bit repetition",
        "text": "Lean proves once that a prange loop whose iterations touch only rows they own yields the sequential result under every "
                "interleaving (schedule_independent, schedules_agree: all merges, any number of iterations); translate_prange.py regenerates "
                "on every run the read/write/mutator/reduction footprint of one iteration of every prange loop in the package and Lean "
                "`decide`s that every loop on the build/prepare/query/update paths is non-interfering; the translator's ownership contract "
                "(an effect classified loopVar / guardedMod / csrSeg / privateAlloc touches only locations no other iteration touches) is "
                "validated dynamically on every run: harness/footprint_trace.py runs the real library in interpreter mode "
                "(NUMBA_DISABLE_JIT, child process) through an in-memory rewrite of every prange loop (same numbering as Gen/Prange.lean) "
                "that replaces every array, tuple of arrays and list visible to the loop body (arguments, locals allocated before the loop, "
                "closure variables) by a recording view of the same memory, logs every element read and written (by address, so aliases "
                "and overlapping views agree; also inside callees: heap pushes, siftdown, tau_rand, distance kernels) under the running "
                "iteration, and requires W(i) ∩ W(j) = ∅ and W(i) ∩ R(j) = ∅ for all iterations i ≠ j of every loop execution, on tiny dense "
                "and CSR histories (build with/without trees, low_memory both, prepare with diversify / diversify_csr / degree_prune, "
                "serial and parallel batch queries, update, init_graph, score_tree); a conflict in a loop the table calls owned is a "
                "correspondence failure and triggers the repetition search on full-size histories with the same features; loops "
                "exercised / not reached and the numbers of iterations and element accesses are listed in the evidence; the recorder "
                "checks itself on synthetic racy and owned loops and against a plain interpreter-mode run (same results) every time; "
                "seeded histories are repeated under fixed thread counts and compared bit-for-bit (graph, generator states, search "
                "graph, answers) after every step",
        "note": TB + "the footprint translator (ast walk with alias resolution, guard domination, CSR row segments, inter-procedural mutator "
                     "summaries; conservative: unclassifiable effects are `shared`); its contract that owned classes denote rows no other "
                     "iteration touches is no longer only trusted: it is checked on every run by the interpreter-mode recorder, for the "
                     "inputs and loops that recorder reaches (all 16 index loops today; the evidence lists any loop not reached). What "
                     "the recorder cannot show: the interleavings the OS scheduler really produces (it observes ownership, the Lean theorem "
                     "carries the schedule quantifier; repetition under thread counts only samples them), loops or branches its tiny "
                     "scenarios do not reach, scalar accumulators (`n_changes +=`: the int/float reduction classes stay the translator's), "
                     "module-level constant arrays, accesses inside numpy ufunc / C internals below whole-operand granularity, and any "
                     "difference between numba-compiled and interpreted execution of the same source; numba's prange executes some merge "
                     "of the iterations",
        "explanation": "general theorem + decide on Gen/Prange.lean + dynamic validation of the table's ownership classes (interpreter-mode "
                       "element-level footprint recorder, every run); repetition of seeded histories under thread counts 2..16",
        "assumptions": ["numba prange runs the iterations' operations in some interleaving that preserves each iteration's own order",
                        "indptr arrays are monotone (CSR row segments are disjoint)", "metric kernels do not mutate their arguments",
                        "integer += reductions in prange are exact and commutative",
                        "compiled and interpreted execution of a kernel touch the same array elements (the recorder observes the interpreter)"],
    },
    "C06": {
        "harness": "c06", "level": "proof", "category": "proof", "design_ref": "DESIGN.md 5/C06, 2.3", "translators": ["tables"],
        "technique": "Lean 4 decide over selection tables regenerated by executing the real selection statements on every metric name + real pickle/joblib round-trips",
        "text": "translate_tables.py regenerates on every run the extensional decision table of the metric selection at construction "
                "(the statements of __init__, located by AST and executed on a stub for every public name x {dense, CSR}) and after load "
                "(the real __setstate__ on a stub); Lean decides that load re-selects exactly the kernel, correction and n_features "
                "convention construction chose, that CSR indexes only run sparse kernels, and that surrogate/correction pairs follow the "
                "tables; real indexes (dense / CSR / bit-packed, surrogate metrics, metric_kwds, compressed) are dumped and loaded with "
                "pickle protocols and joblib at three life points and answers compared bit-for-bit",
        "note": TB + "the tables translator; pickle carries every other attribute unchanged (exercised on real round-trips, not proved); "
                     "callable (user-supplied) metrics are outside the tables",
        "explanation": "decide over Gen/Tables.lean (every built-in name x data kind); real round-trips compared bit-for-bit",
        "assumptions": ["pickle/joblib reproduce every attribute other than the re-selected distance function (sampled on real round-trips)"],
    },
    "C12": {
        "harness": "c12", "level": "proof", "category": "proof", "design_ref": "DESIGN.md 5/C12", "translators": ["kernels"],
        "technique": "Lean 4 proof (refinement: high-memory applier = low-memory applier under the in_graph invariant, lifted through the whole descent loop) "
                     "+ refinement theorems over the regenerated Lean translations of both update appliers' source (every input; memory safety included) "
                     "+ bit-exact correspondence of both appliers + API equality of both modes",
        "text": "Lean theorems applyHigh_eq_applyLow (graph AND change count, any thread count, any truthful update list, under the invariant that a "
                "recorded candidate is one the heap would reject) and descent_low_eq_high (the whole modelled nn_descent returns identical rows and "
                "generator state in both modes, for every configuration), plus low_memory_thread_count_irrelevant. For the low-memory applier the tie "
                "between model and code is itself a theorem: harness/translate_kernels.py re-translates the source text of "
                "apply_graph_updates_low_memory (and of the checked_flagged_heap_push it calls) into Lean on every run (Gen/Kernels.lean: three nested "
                "fuel loops over thread number / update block / entry, tuple unpacking, the `continue` on p == -1 or q == -1, p % n_threads == n, rows "
                "handed to the translated push with write-back, out-of-bounds load/store = none) and kernel_apply_graph_updates_low_memory_refines "
                "proves that for every rectangular graph (n rows of k >= 1 slots in the three arrays), n_threads > 0, update blocks whose triples are "
                "placeholders or name rows 0 <= p, q < n, and fuel >= n_threads + #blocks + max block length + k + 3, the translated kernel never leaves "
                "an array, keeps the shape, returns the model's change count and leaves, row for row, the model's graph applyLow n_threads (zipGraph ..) "
                "(updsOf updates), where updsOf concatenates the blocks in order and drops the (-1) placeholders; kernel_low_memory_thread_count_irrelevant: "
                "two runs of the translated kernel with any two positive thread counts return the same graph and count (= the sequential application); "
                "kernel_low_memory_eq_high_memory: under heap order + true distances + valid in_graph record + truthful updates of a symmetric distance the "
                "translated low-memory kernel's graph and count are those of the modelled high-memory applier; "
                "kernel_apply_graph_updates_high_memory_refines: the translated apply_graph_updates_high_memory (in_graph, a list of sets used only "
                "through `x in in_graph[r]` and `in_graph[r].add(x)`, is translated as Array (List Int) - add conses, in is list membership - which "
                "is the model's InGraph) never leaves an array (one set per row, fuel >= #blocks + max block length + k + 2) and returns exactly the "
                "model's record, change count and graph applyHigh (zipGraph ..) (updsOf updates) in_graph; kernel_high_memory_eq_low_memory: C12's "
                "statement on BOTH regenerated kernels - under heap order + true distances + valid record + truthful updates of a symmetric distance "
                "the translated high-memory and the translated low-memory applier (any positive thread count) return the same graph and the same count, "
                "and the record invariant holds again. A change to the applier or to the push "
                "changes the generated definitions and these proofs stop building. Both real appliers are compared bit-for-bit with the model on the "
                "same update lists (self pairs, repeats, 1..16 threads) and with each other, and both translated appliers are executed by the "
                "driver (gk_apply, gk_apply_high) on the same graphs and update blocks and compared bit for bit (graph, count, and for the high-memory "
                "path the final in_graph sets) with the numba kernels (translator validation); real "
                "indexes built with low_memory=True and False must have identical neighbor_graph arrays, search graphs and answers (dense, CSR, bit-packed)",
        "note": TB + "the translator harness/translate_kernels.py for apply_graph_updates_low_memory, apply_graph_updates_high_memory and "
                     "checked_flagged_heap_push (syntax-directed; prange read as range - that the threads' writes do not interfere is C05's obligation; a "
                     "numba set is read as the list of elements added to it, only `in` and `add` are translated; validated on every run by executing its "
                     "output against the numba kernels); the sampled bit-exact correspondence of model and kernels for the rest of nn_descent; "
                     "symmetric NaN-free distance",
        "explanation": "refinement theorem for all configurations + generated-kernel = model theorem for the low-memory applier + kernel correspondence + API equality",
        "assumptions": COMMON_ASSUMPTIONS + ["symmetric distance function",
                                             "update triples name existing rows or carry the -1 placeholder (generate_graph_updates emits row numbers only)"],
    },
    "C13": {
        "harness": "c13", "level": "proof", "category": "proof", "design_ref": "DESIGN.md 5/C13", "translators": ["kernels"],
        "technique": "Lean 4 proof (order statistics of every row are non-increasing under every kernel, by induction over the op sequence) + refinement theorem over the regenerated Lean translation of init_from_neighbor_graph's source + bit-exact correspondence + rank-wise API comparisons",
        "text": "Lean theorems push_rank_le / descent_rank_le / iteration_rank_le: for every threshold t the number of entries of every row within t "
                "never decreases under any push, any update application, any initialisation kernel, any iteration and the final sort, for arbitrary "
                "graphs and update lists (no invariant needed), i.e. the j-th smallest distance of every row is non-increasing; reinsert_eq: re-pushing "
                "a well-formed row reproduces it (update() starts from the old lists). For init_from_neighbor_graph the tie between model and code is a "
                "theorem: harness/translate_kernels.py re-translates its source (and checked_flagged_heap_push's) into Lean on every run and "
                "kernel_init_from_neighbor_graph_refines proves that for every rectangular heap (n rows of k >= 1 slots), m <= n rows of w entries in "
                "indices / distances and fuel >= m + w + k + 2 the translated kernel never leaves an array and returns, row for row, the model's "
                "initFromNeighborGraph; kernel_update_reinsert: run on make_heap(n', k)'s arrays with the index / distance arrays of a well-formed old "
                "graph, the translated kernel returns every old row as the same multiset of (index, distance) pairs and leaves the appended rows "
                "empty; the translation is executed by the driver (gk_initnbr) against the numba kernel on every generated case. The real nn_descent is run from supplied heaps and compared "
                "rank-wise (exact) and with the model; at API level init_graph (with -1 holes, +-init_dist) vs result, n_iters=t vs t+1, and "
                "neighbor_graph before vs after update(xs_fresh) are compared rank-wise",
        "note": TB + "the translator harness/translate_kernels.py for init_from_neighbor_graph and checked_flagged_heap_push (validated by executing its "
                     "output against numba on every run); the sampled bit-exact correspondence for the other kernels; reported (corrected) distances are compared at API level, monotonicity of corrections is C09",
        "explanation": "monotonicity theorem for all op sequences + kernel correspondence + rank-wise API comparisons",
        "assumptions": COMMON_ASSUMPTIONS,
    },
    "C14": {
        "harness": "c14", "level": "proof", "category": "proof", "design_ref": "DESIGN.md 5/C14, 4.4, Appendix E", "translators": [],
        "technique": "Lean 4 proof (structural induction over the tree of recursive calls, for every side oracle; array-threading "
                     "proof of the flattening with frame lemmas; fuel-free routing argument) + array-for-array differential "
                     "correspondence with the real numba/Python kernels",
        "text": "Lean theorems leaves_partition, tree_partition, leaf_size_bound, build_terminates, convert_spec, route_terminates_valid, "
                "linked_form_spec, leafArray_spec about a literal model of make_*_tree (one control structure for the five split kernels; "
                "margins, hyperplanes and coins abstracted by an arbitrary side oracle incl. the re-draw fall-back that may again leave a "
                "side empty), of the post-order linked lists, get_leaves_from_tree, recursive_convert / convert_tree_format (arrays "
                "pre-filled with -1 and written cell by cell, returned (node_num, leaf_start) threaded as in the code) and the "
                "search_flat_tree loop `while children[node,0] > 0`: for every oracle, leaf size, depth fuel and index list the leaves "
                "are a permutation of the input, a leaf larger than leaf_size sits at exhausted depth, depth <= max_depth (termination "
                "does not depend on the data), the flat indices are the concatenated leaves, leaf rows tile [0,n) (the leaf at offset 0 "
                "is (0,-end) and is classified as a leaf), inner rows are (node+1, larger in-range row), and routing under every side "
                "function ends, with fuel = number of nodes, in a leaf row whose slice is a leaf of the linked tree. The model is tied "
                "to rp_trees.py by comparing, on generated data sets (random / duplicates / all-identical / all-zero / collinear / "
                "n <= leaf_size / n in {0,1,2}) x {dense euclidean, dense angular, bit-packed, sparse euclidean, sparse angular} x "
                "leaf_size 1.. x max_depth 0..200: buildTree fed with the side decisions read off the real tree, linearize, leafArray, "
                "recursiveConvert and route (side decisions recomputed with the real select_side* on a copy of the generator state and, "
                "away from the EPS band, from numpy margins) array for array; the property predicates are evaluated on the real linked "
                "trees, leaf arrays, flat trees, make_forest output, NNDescent._rp_forest / _search_forest / _vertex_order and on the "
                "results of the real search kernels and tree_search_closure",
        "note": TB + "the sampled array-for-array correspondence between the Lean model and rp_trees.py; int32 overflow is not modelled "
                     "(unbounded Int); memory safety is out of scope (numba has no bounds checks: sparse routing through an empty hyperplane "
                     "or with an empty query reads out of bounds and is not exercised); leaf_size >= 0 (a negative leaf_size divides by zero "
                     "in the split); observed but not forbidden by the property: empty leaves (the fall-back can leave a side empty), and "
                     "resort_tree_indices composes the permutations in the wrong order for search trees other than the first "
                     "(tree.indices[tree_order] instead of tree_order[tree.indices]; those trees are never descended by query())",
        "explanation": "theorems over every side oracle / leaf size / depth fuel / index list / side function; correspondence of the five "
                       "model functions with the real kernels on every generated tree and routed query; predicates on real outputs at "
                       "kernel, forest and index level",
        "assumptions": COMMON_ASSUMPTIONS + [  # noqa: F821  (defined in registry.py)
            "every *_random_projection_split returns a stable partition of its `indices` by a 0/1 side array (read off the source: the five "
            "kernels share the count / re-draw / populate code; the partition and its stability are checked on every generated tree)",
            "node numbers, offsets and point ids fit int32 (unbounded Int in the model)",
            "leaf_size >= 0 and the data has at least one column; the linked tree handed to convert_tree_format was built by make_*_tree",
        ],
    },
    "C17": {
        "harness": "c17", "level": "proof", "category": "proof", "design_ref": "DESIGN.md 5/C17", "translators": [],
        "technique": "Lean 4 proof over an alias model (who owns the current data buffer) for every input class, metric class and history + byte-for-byte before/after comparison of every array handed to the real API + np.shares_memory vs the model's alias bit",
        "text": "Model/Alias.lean lists, as written in the code, the alias / copy / in-place-write operations of __init__ (check_array, "
                "sorted_indices, normalize with copy_on_normalize), _init_search_graph, update, query; Lean proves caller_buffers_unchanged: "
                "for all 7 dtypes x 3 layouts x dense/sparse x CSR x sorted-indices classes, the three metric classes (plain, normalising dot, "
                "bit-packed) and every history of prepare / update / compress / pickle no in-place write targets a buffer reachable from the "
                "caller, plus alias_iff (exactly when the index keeps sharing memory) and query_never_writes. On the real API every array "
                "ever passed (data, queries, xs_fresh, xs_updated, updated_indices, init_graph, init_dist; indptr / indices / data of sparse "
                "input) is snapshotted and compared byte-for-byte after every operation of shuffled histories over f32/f64, C/F/strided, "
                "CSR sorted/unsorted/f64, CSC, uint8 inputs, and the model's alias bit is compared with np.shares_memory",
        "note": TB + "the alias model is hand-written from the source (sklearn check_array / normalize, numpy indexing semantics are trusted as "
                     "documented); numba kernels are assumed not to write their read-only inputs (data is passed to kernels that only read it; "
                     "the byte comparison samples this)",
        "explanation": "theorem over all input classes and histories; byte-for-byte comparison on real histories; alias bit vs shares_memory",
        "assumptions": ["numpy fancy/boolean indexing, astype, vstack, ascontiguousarray of a permuted array and scipy sorted_indices return new buffers",
                        "numba kernels do not write the data / query arrays they are given (sampled by the byte comparison)"],
    },
    "C18": {
        "harness": "c18", "level": "proof", "category": "proof", "design_ref": "DESIGN.md 5/C18", "translators": [],
        "technique": "Lean 4 proof (coo -> tocsr assembly stores exactly the found slots when row indices are distinct) + entry-for-entry, bit-for-bit comparison of transform / fit_transform with the index's own output",
        "text": "Model/Transformer.lean models transform's assembly: one COO triple per slot with index >= 0 (the found mask), scipy tocsr = canonical "
                "order with equal coordinates summed. Lean proves transform_entries: when every row's non-negative indices are distinct (C02) the "
                "stored entries are exactly {(i, idx[i][j], dist[i][j]) : idx[i][j] >= 0}, their number is the number of found slots, rows < #queries, "
                "columns < n_fit, coordinates strictly increasing; fit_transform_row_count (n_neighbors+1 entries per full row); and, as examples, that "
                "a duplicate coordinate (the pre-repair -1 translation) is summed. On the real code transform(X) is compared with "
                "index_.query(X, n_neighbors, search_epsilon) and fit_transform(X) with the neighbor graph of an identically seeded index, triple for "
                "triple with float32 bit patterns, across metrics, data kinds and transformer parameters; the assembly is also compared with the Lean "
                "model through the driver; values are checked against the float64 metric reference",
        "note": TB + "scipy's coo_matrix.tocsr() sums duplicates and keeps explicit zeros (modelled, compared on every case); fit_transform is compared with a "
                     "second, identically seeded fit (reproducibility is C05)",
        "explanation": "assembly theorem for all answer arrays; exact comparison of real transform / fit_transform with index output and with the model",
        "assumptions": COMMON_ASSUMPTIONS,
    },
    "C02": {
        "harness": "c02", "level": "proof", "category": "proof", "design_ref": "DESIGN.md 5/C02, 4.5, Appendix E (Query), 6 (D4, D5)",
        "translators": ["kernels"],
        "technique": "Lean 4 proof (invariants over the elementary state changes of the graph search: visited-table discipline => "
                     "simple_heap_push never sees a vertex twice; termination measure; translation lemmas) + bit-exact differential "
                     "correspondence of the numba search_closure + property predicate on the real query() output",
        "text": "For the visited table the tie between model and code is a theorem: harness/translate_kernels.py re-translates utils.has_been_visited and "
                "utils.mark_visited (one bit per vertex in a byte array; >>, <<, &, | on non-negative ints through Nat, a negative operand is `none`) "
                "on every run and kernel_has_been_visited_refines / kernel_mark_visited_refines prove that for every table of non-negative bytes and "
                "every vertex whose byte exists the translated kernels stay inside the table, has_been_visited answers non-zero iff the model's "
                "Array Bool table (visOf table) says visited, and mark_visited sets exactly that bit (visOf table' = mark (visOf table) c) and keeps "
                "bytes bytes; kernel_visited_out_of_table: a vertex beyond the table is read out of bounds (the (n // 8) + 1 allocation is what "
                "keeps c < n inside); the translations are executed by the driver (gk_visited, gk_mark) against the numba kernels on random byte "
                "tables on every run. Lean theorems search_sound, search_terminates, search_fuel_irrelevant, seeds_distinct, popMin_least, translate_sentinel, "
                "translate_truth, translate_injective, query_sound, batch_rows_independent, batch_sound, skipped_row about a literal model "
                "of one iteration of search_closure (result heap via simple_heap_push, heapq seed set on (d, vertex) tuples, visited table, "
                "leaf + min(k, n_neighbors) - |leaf| random candidates, (1+eps) bound recomputed after every push, strict '<' tests, "
                "both loop exits), deheap_sort and the -1-preserving translation through _vertex_order: for EVERY search graph, distance "
                "table, leaf, generator stream (hence serial, parallel and racy generator states alike), k, n_neighbors, bound scaling and "
                "fuel, every filled slot of an answer row names a distinct row < n of the caller's data with the true distance, rows ascend, "
                "unfilled slots are (-1, inf) and come last; the loop ends by its own condition within n iterations and extra fuel changes "
                "nothing; the pre-repair translation (vo[-1]) is refuted by a 2-point example. The model is tied to the code by reproducing, "
                "for real dense indexes over integer-valued data (euclidean/manhattan, tree_init T/F), exactly the inputs the closure sees "
                "(CSR of _search_graph, distance table from the real _distance_func, leaf from the real _tree_search, generator values from "
                "the real tau_rand_int on the copy query() makes) and comparing raw heap, visited table, sorted row and public answer "
                "bit-for-bit; the same for the SPARSE closure of _init_sparse_search_function on real CSR indexes (sparse_squared_euclidean "
                "+ sqrt, sparse_manhattan, tree_init T/F; table from the real sparse kernel on the permuted stored CSR rows, leaf from the "
                "real sparse_tree_search_closure, query handed over as sorted / unsorted CSR, CSR with a stored zero, ndarray and passed "
                "to the closure as query()'s sparse branch prepares it; search_rng_state unchanged by the call) with the UNCHANGED model "
                "(the closures differ only in how dist is evaluated: heapify of the empty seed list is a no-op, distance_bound / d_vertex "
                "are inferred float32, the zero-norm branch is dead); both closures are also compared on MULTI-ROW batches: serial mode, "
                "2..6 rows (same indexes, plus a dense cosine index with zero-norm rows), row i's leaf and draws taken from ONE copy of "
                "search_rng_state which the real _tree_search / tau_rand_int advance from row to row exactly as far as the loop does (a "
                "`continue`d zero-norm row draws nothing and is the model's skippedRow), every row's raw heap, sorted row and public "
                "answer, the visited table the LAST row leaves in a table handed over full of ones, and the unchanged caller state "
                "compared bit-for-bit; and on indexes built with parallel_batch_queries=True (dense and sparse closures), 1..6 rows, row i "
                "against the model run on the leaf / draws obtained from search_rng_state + i with an empty visited table, the caller's "
                "table (ones / zeros) and state untouched, the batch bit-identical to its rows submitted one by one with rng_state + i "
                "(the instance of batch_rows_independent that C05 relies on) and to the same call repeated under "
                "numba.set_num_threads(1 / 2 / 4), query() itself run under the default / 1 / 2 / 4 threads in turn; "
                "the hypotheses of the theorems (CSR well-formed, leaf duplicate-free, draws < n, raw = data[vo]) are checked on "
                "the real arrays; the property predicate (distinct, in range, -1 last, ascending, distance = independent float64 metric of "
                "the query and the CALLER's row) is evaluated on real query() output for dense / CSR / bit-packed data x tree_init x "
                "compressed x parallel_batch_queries, k > n_neighbors, k > n, zero-norm queries, data points as queries, eps in {0,.1,.5}",
        "note": TB + "the sampled bit-exact correspondence between Model/Search.lean and search_closure (dense and sparse closures; serial mode: "
                     "single-row batches and batches of 2..6 rows with the generator state carried from row to row; parallel mode "
                     "(parallel_batch_queries=True): batches of 1..6 rows with the states rng_state + i; euclidean / manhattan, serial batches "
                     "also dense cosine with exactly normalisable (power-of-two norm) and zero queries — quick tier, sparse: the tree-routed "
                     "euclidean index plus, alternating with the seed, euclidean random-init or manhattan random-init closures, parallel: "
                     "one dense and one sparse euclidean index, one tree-routed and one random-init, alternating with the seed; the full "
                     "cross in the thorough tier; thread schedules of the parallel loop are sampled (default / 1 / 2 / 4 threads, repeated "
                     "calls), not enumerated; the visited table of a parallel row or of a serial row other than the last is private / "
                     "overwritten and is compared only through its effect on the raw heap; "
                     "sparse data rows and queries are non-empty and, with tree_init, distinct: routing through an empty "
                     "hyperplane / empty operand reads out of bounds, memory safety is outside the model); "
                     "dist(data[v], q) is an input of the model (its truth is C07/C08/C09); the final distance correction is applied by "
                     "the real ufunc (C09); float32 distances without NaN; that parallel iterations touch only their own row and private "
                     "tables is C05's footprint check",
        "explanation": "theorems over every graph / distance table / leaf / generator stream / k / eps / fuel; bit-exact correspondence of "
                       "raw heap, visited table, sorted row, translated answer for single rows, serial multi-row batches (carried generator "
                       "state) and parallel batches (state + i, thread-count invariance); API predicate with float64 references in caller numbering",
        "assumptions": COMMON_ASSUMPTIONS + [
            "float32 distances are totally ordered (no NaN reaches the heap or the seed set), np.inf is the greatest value",
            "the search graph is an n x n CSR matrix (indices < n, indptr monotone, len n+1), the tree leaf is a slice of a permutation "
            "of the rows, generator values are reduced modulo n: checked on the real arrays of every kernel-level case, not proved",
            "_raw_data = data[_vertex_order] with _vertex_order a permutation (checked per index; established by _init_search_graph, C04/C14)",
            "heapq on (float32, int32) tuples pops the lexicographically least tuple (numba's tuple comparison; NaN-free)",
            "k >= 1 and n_neighbors >= 1 (otherwise the first heappop of the real code raises)",
        ],
    },
    "C10": {
        "harness": "c10", "level": "proof", "category": "proof", "design_ref": "DESIGN.md 5/C10, 7, Appendix D", "translators": [],
        "technique": "Lean 4 proof of a certificate checker (weak LP duality with tolerance over Q, all sizes) + per-run certification of the real "
                     "solver's output in exact rational arithmetic + Lean proofs of the LP-level consequences",
        "text": "The network simplex itself (optimal_transport.py, ~900 lines of pivoting on a threaded spanning tree) is NOT modelled. Lean proves "
                "once, for every size, cost matrix and candidate (flow f, potentials u, v, tolerance eps), that acceptance by the executable checker "
                "Transport.certify implies <C,f> <= <C,g> + gap for EVERY non-negative plan g with the marginals of f (certify_sound, linked to the "
                "array-level Boolean the native driver evaluates), the variant against plans whose marginals are exactly the normalised inputs "
                "(certify_sound_exact_marginals) and the two-sided bound on the value (certify_value); and, for the LP optimum itself: symmetry under "
                "a symmetric cost, 0 for equal distributions under a non-negative zero-diagonal cost, invariance under rescaling either input, "
                "independence of the cost outside supp(x) x supp(y), and equality with the 1-D closed form sum|F-G| for the cost |i-j| (lower bound for "
                "every plan + the comonotone coupling attains it). On every check run the harness executes the real Python body of "
                "distances.kantorovich / sparse.sparse_kantorovich with the real numba kernels, records flow and node potentials at the "
                "network_simplex_core boundary, converts the doubles to exact rationals and the native Lean checker certifies EVERY run "
                "(gap <= 1e-9 max C; marginal residuals against the exactly normalised inputs <= 1e-9; returned value = <C,f> computed exactly); "
                "swapped / equal / rescaled inputs, the |i-j| cost (vs the exact closed form and wasserstein_1d), sparse vs densified calls and a "
                "scipy linprog cross-check are evaluated on the real outputs",
        "note": TB + "the simplex is not modelled: its OUTPUT is certified per run, so nothing is claimed about inputs that were not run; "
                     "termination of the pivot loop is OBSERVED under a deadline (worker process killed on overrun; max_iter exhaustion is recorded, and "
                     "reported when the certificate then fails), not proved; the harness's reading of flow/pi out of the solver's arrays (arc (i,j) at "
                     "n*m-1-(i*m+j), node ids n+m-1-k; asserted against source/target on every run); the interpreted body of kantorovich behaves like "
                     "the compiled one (their return values are compared on every run); floating-point normalisation is covered only through the "
                     "residual bound (the certified plan has the normalised marginals up to 1e-9, the LP minimum between *its own* marginals is what "
                     "the two-sided theorem bounds); existence of an LP minimum for an arbitrary cost matrix is not proved (the ot_* theorems are "
                     "stated for any value that is the minimum; existence is exhibited for equal distributions and for the |i-j| cost)",
        "explanation": "theorems for all sizes over Q; every run of the real solver (3000 quick / 15000 thorough) certified by the proved checker in exact "
                       "arithmetic; relations and independent LP cross-check on real outputs",
        "assumptions": [
            "Lean 4.33.0 kernel; theorems may use only propext, Classical.choice, Quot.sound (audited with #print axioms on every run)",
            "the solver's arrays are read with the arc / node numbering of allocate_graph_structures(use_arc_mixing=False) (asserted on every run)",
            "termination of network_simplex_core is observed (deadline + max_iter), not proved",
            "inputs: non-negative float32 vectors of positive mass, finite non-negative float64 cost; float rounding of the normalisation and of the "
            "returned sum is covered by the stated tolerances (1e-9 relative to max C; value to 1e-6 relative)",
        ],
    },
    "C15": {
        "harness": "c15", "level": "proof", "category": "proof", "design_ref": "DESIGN.md 5/C15, 4.3, App. E, notes N8/D8", "translators": ["searchgraph"],
        "technique": "PARTIAL tie by theorem for the dense diversify: its source text is translated to Lean on every run (harness/translate_searchgraph.py -> Gen/SearchGraphKernels.lean; FLOAT32_EPS, np.inf, dist(data[a], data[b]) and the generator tests uninterpreted) and the two inner loops of a row are proved equal to the model (kernel_diversify_row_refines_partial); the WHOLE translated kernel is executed against numba bit for bit with the recorded draws. Lean 4 proof (greedy occlusion = unique solution of the rule, by induction over the visiting order; agreement of the "
                     "list-append and the argsort form for every draw stream) + bit-exact differential correspondence of all four real kernels",
        "text": "TIE TO THE CODE (partial) for pynndescent_.diversify, regenerated from its source text on every run (prange as range, typed lists as arrays with push, break / flag, write-back with -1 / np.inf; uninterpreted class DivParams: eps, top, dist as a function of the two point numbers, draw i c = outcome of the c-th test tau_rand(rng_state+i) < prune_probability of row i): kernel_diversify_row_refines_partial - for every row of width >= 1, every dist, every draw stream, fuel >= 2W+2, the translated scan loop (= scanNew) and candidate loop (= divLoop) build, without out-of-bounds access, exactly the model's new_indices / new_distances (diversifyList row).1; kernel_diversify_first_and_prob_zero restates first_retained_list / prob_zero_retains_all_list on the translated kernel. NOT proved (stated in Props/C15.lean): the write-back loop (padding) and the outer loop over rows. Lean theorems occlude_is_rule, rule_unique, first_retained, prob_zero_retains_all, kernels_agree, occlude_idempotent (and the "
                "list-form corollaries occlude_is_rule_list, first_retained_list, prob_zero_retains_all_list, list_stops_at_sentinel) about literal "
                "models of the two loops behind the four kernels (diversify / sparse.diversify: list-append form with the -1 break; diversify_csr / "
                "sparse.diversify_csr: argsort + retained[] form with the visiting order as a parameter), for every row length, storage order, "
                "visiting order, distance table (no symmetry or triangle inequality assumed) and linear order of lengths; kernels_agree holds for "
                "every draw stream, i.e. every prune_probability and generator state. The models are tied to the numba kernels by comparing "
                "output rows / data arrays bit for bit on generated rows (integer-coordinate datasets under euclidean, manhattan, sqeuclidean: "
                "ties, zero-distance duplicates, -1 padding and holes, unsorted CSR storage, lengths at 0, EPS/2, EPS, EPS+ulp) for "
                "prune_probability 1, 0 and 0.5 (the outcomes of tau_rand(rng_state+i) < 0.5 are recorded from the real generator and replayed "
                "by the model), and the property predicate (iff-rule for some admissible tie order, nearest retained, probability 0 retains "
                "all, dense = sparse, list = CSR on equal visiting orders) is evaluated on the real output",
        "note": TB + "the translator harness/translate_searchgraph.py (validated on every run by executing the WHOLE translated diversify in the native driver, gk-div-list, on every generated row at p = 1, 0 and 0.5 with the recorded draws, bit for bit against numba: translated-kernel:diversify); the loads data[indices[i,j]] are not translated (dist is a table between point numbers, as in the model); the refinement theorem covers the two inner loops of a row only (write-back and outer loop: tied by the execution above and the sampled model comparison); diversify_csr and the sparse twins are not translated; the sampled bit-exact correspondence between Model/Diversify.lean and the four kernels; the distance table handed to the "
                     "model is the metric kernel's own float64 return value (dense and sparse kernels are observed to return identical bits on "
                     "the generated data); tau_rand itself is left out (its outcomes are replayed); tau_rand returning exactly 1.0 "
                     "(probability 3e-8 per draw) is excluded at prune_probability = 1; float32 lengths without NaN",
        "explanation": "theorems over every row / visiting order / distance table / draw stream; kernel-level correspondence of 4 kernels x 3 probabilities, "
                       "tie-free rows exactly, tied CSR rows for some ordering of the tied entries (numba's own argsort first, then brute force <= 720 orders)",
        "assumptions": COMMON_ASSUMPTIONS + [
            "float32 lengths and metric values are totally ordered (no NaN reaches a diversify kernel)",
            "np.argsort inside diversify_csr returns a permutation that sorts the lengths ascending (any order among ties)",
            "tau_rand(state) < 1.0 (the single float32 value 1.0 excluded) for prune_probability = 1",
            "dense and sparse metric kernels return the same value for the same pair of points (sampled bit for bit; C08 is the property about it)"],
    },
    "C16": {
        "harness": "c16", "level": "proof", "category": "proof", "design_ref": "DESIGN.md 5/C16, 4.3, App. E, App. G, notes D9/D19", "translators": ["searchgraph"],
        "technique": "tie BY THEOREM for degree_prune_internal: its source text is translated to Lean on every run (harness/translate_searchgraph.py -> Gen/SearchGraphKernels.lean; np.sort an uninterpreted parameter assumed to sort) and the translation is proved memory safe and equal to the model degreePrune row by row (kernel_degree_prune_internal_refines); the translator is validated by executing its output against numba bit for bit. Lean 4 proof about a literal model of degree_prune_internal and an executable stage-by-stage model of _init_search_graph "
                     "+ bit-exact kernel correspondence + end-to-end edge-set prediction of the real _search_graph + API-level predicate",
        "text": "TIE TO THE CODE by theorem for degree_prune_internal (regenerated from pynndescent_.py on every run: prange as range, the read-only row view data[indptr[i]:indptr[i+1]] as a copy - rejected if it could be loaded after a store -, np.sort the uninterpreted SortFn.sortArr): kernel_degree_prune_internal_refines - for every well-formed CSR (row pointers non-negative, non-decreasing, within data), max_degree >= 1, every sort function that returns the ascending rearrangement (sort_hypothesis_of_ascending_perm: any ascending permutation is it) and fuel >= len(indptr)+len(data)+2, the translated kernel performs no out-of-bounds load or store and every output row is the model's degreePrune 0 m of the input row (entries > np.sort(row)[m-1] become 0.0); kernel_degree_prune_bound restates prune_bound / prune_keeps_min on the translated kernel. Lean theorems prune_bound (for m >= 1 fewer than m kept entries are strictly shorter than the cut, every kept entry is <= cut, every "
                "non-zero entry <= cut is kept), prune_keeps_min, prune_subset about degree_prune_internal for every row and linear order; "
                "searchGraph_no_self_loops (square, no diagonal), searchGraph_subgraph (every edge joins two points of which one lists the other) "
                "and searchGraph_nearest_partial (the list-nearest other point survives the forward pass, the <=0 -> EPS protection, the second "
                "greedy pass, the symmetrisation and the diagonal removal; the pruned row keeps a shortest candidate; the edge itself is kept "
                "unless m strictly shorter edges are) about the pipeline model for diversify_prob = 1; the pipeline over ARBITRARY draw streams "
                "(searchGraphD draw1 draw2, of which searchGraph is the all-prune instance by rfl): searchGraphD_no_self_loops, searchGraphD_subgraph, "
                "searchGraphD_degree for all draws; searchGraph_nearest (every draw stream: the list-nearest other point is an edge unless m shorter "
                "ones are kept, under htie = no other point stored after it at exactly its length is strictly closer to it - vacuous for a unique "
                "list-nearest point; no symmetry needed), searchGraph_nearest_fwd1 (ties allowed when the table is symmetric and row u's forward pass "
                "prunes on every test), searchGraph_nearest_tied (all draws, all tie orders: it or a point tied with it survives, the final row holds a "
                "shortest candidate), searchGraph_nearest_needs_htie (machine-checked counterexample: with ties and lucky draws an unstable argsort "
                "lets a tied entry occlude it - the real kernels do the same on crafted rows of >= 17 equal lengths), argsort_hypotheses_satisfiable; "
                "for every neighbour graph, distance table and argsort behaviour. degree_prune_internal is compared bit for bit with the model on rows "
                "longer / equal / shorter than the bound with ties; for diversify_prob in {1, 0.5 (the draws tau_rand(rng_state + u) < 0.5 of both passes "
                "replayed from index.rng_state - each pass restarts the same per-row stream, independent of the thread schedule), 0} the model "
                "predicts the edge set of index._search_graph from the real _neighbor_graph and "
                "the table of the index's own _distance_func, compared edge for edge after un-permuting through _vertex_order (dense and CSR, "
                "tree_init, m down to 1, n <= 200, tie-free and tied rows); the predicate search_graph(index) of DESIGN App. G is evaluated on real "
                "indexes across n_neighbors, pruning_degree_multiplier, diversify_prob in {1, 0.5, 0}, dense/CSR, tree_init, euclidean / cosine / "
                "correlation incl. duplicate, parallel and 2-D correlation data (zero and slightly negative lengths)",
        "note": TB + "the translator harness/translate_searchgraph.py (validated on every run by executing the translated degree_prune_internal in the native driver, gk_prune, on every generated CSR and comparing bit for bit with numba: translated-kernel:degree_prune_internal; np.sort itself is not translated: assumed to sort; max_degree = 0 - numba's index -1 wraps - is outside the translation); diversify / diversify_csr are NOT translated (tied by sampled bit-exact comparison only); the sampled correspondence between the pipeline model and _init_search_graph (scipy glue included: the hand-filled COO matrix "
                     "keeps rows in list order, transpose() is a view, maximum / setdiag / eliminate_zeros); the nearest-neighbour theorems assume "
                     "ascending rows (C11) and d(x,x) <= FLOAT32_EPS; clause (ii) - the list-nearest point itself is the edge - needs the tie "
                     "hypothesis htie or (forward probability 1 + symmetric table), shown necessary by searchGraph_nearest_needs_htie (the API "
                     "predicate tests it only for a unique list-nearest point); the _vertex_order permutation is undone and checked edge for edge by "
                     "the harness, not by a theorem; end-to-end prediction at probability 0.5 skips tied rows (numba's argsort order unknown); "
                     "round(pruning_degree_multiplier * n_neighbors) = 0 is outside the property (numba's sort(row)[-1] then cuts nothing)",
        "explanation": "theorems over every row / neighbour graph / distance table / argsort; degree_prune_internal bit-exact; exact end-to-end "
                       "edge-set prediction for diversify_prob in {1, 0.5 (replayed draws), 0}; API predicate for all probabilities",
        "assumptions": COMMON_ASSUMPTIONS + [
            "float32 lengths are totally ordered (no NaN)", "neighbour-graph rows are ascending and name no point twice (C11, C01)",
            "the metric kernel is symmetric bit for bit and d(x,x) <= FLOAT32_EPS (checked on every generated index; asymmetric tables are skipped and counted)",
            "scipy: coo.tocsr() of the hand-filled COO matrix neither sorts nor sums (its has_canonical_format flag is stale), csr.transpose() shares "
            "the three arrays, maximum treats implicit entries as 0 and drops zero results (all observed through the end-to-end comparison)",
            "m = round(pruning_degree_multiplier * n_neighbors) >= 1"],
    },
    "C07": {'harness': 'c07',
     'level': 'proof',
     'category': 'proof',
     'design_ref': 'DESIGN.md 5/C07, 4.7',
     'translators': ['metrics'],
     'technique': "TIE BY THEOREM: the source text of 35 kernels of distances.py is translated to Lean on every run (harness/translate_metrics.py -> "
                  "Gen/MetricKernels.lean, over the model's own generic carrier Arith) and each translation is proved memory safe and equal to the hand-written "
                  "model for every input (kernel_*_refines); the translator is validated by executing its output over float64 against numba and, bit for bit, against the model. "
                  "Lean 4 proof over the reals about one generic model of the dense kernels (written once over a class Arith, following each kernel's "
                  'loop and branch structure) + the same term executed over float64 by the driver against the real numba kernels under the float '
                  'tolerance rule + real kernels against an independent float64 reference (scipy / definition)',
     'text': 'TIE TO THE CODE by theorem: harness/translate_metrics.py re-reads the source text of distances.py on every run and regenerates '
             'Gen/MetricKernels.lean (Option monad, bounds-checked loads, fuel loops, same conventions as the model: 0.0 / 1.0 literals, k.0 -> ofNat k, '
             'e**2 -> e*e, np.sqrt/abs/log2/arccos/max/min/pi/FLOAT32_MAX -> Arith fields, == via BEq, < / <= decidable); Props/C07.lean proves '
             'kernel_<name>_refines for euclidean, squared_euclidean, manhattan, chebyshev, minkowski, standardised_euclidean, weighted_minkowski, cosine, '
             'alternative_cosine, dot, alternative_dot, true_angular, correlation, hamming, canberra, bray_curtis, jaccard, alternative_jaccard, matching, '
             'dice, kulsinski, rogers_tanimoto, russellrao, sokal_michener, sokal_sneath, yule, hellinger, alternative_hellinger, tsss, haversine, mahalanobis (np.empty temporary + nested loop over the n x n vinv, fuel >= 2n+2) and the four '
             'correction ufuncs: for ALL x y with x.size = y.size and fuel >= x.size + 1, GenMetric.<name> fuel x y = some (Metrics.<name> x.toList y.toList) '
             '(no out-of-bounds load, termination, same value) on EVERY carrier Arith (no arithmetic law used; counting kernels under CountLaws), and '
             'kernel_euclidean_spec / kernel_cosine_symm_range / kernel_jaccard_real restate theorems of this file on the translated source; a change '
             'to a kernel changes Gen/MetricKernels.lean and the proofs are re-checked (mutation self-test: dropping np.abs in manhattan, == -> <= in a '
             'zero-norm guard, swapping norm_x / norm_y, altering a FLOAT32_MAX branch each break the build; renaming a local does not). '
             'Lean theorems <metric>_spec / _symm / _self / _defined over R for euclidean, squared_euclidean, manhattan, chebyshev (IsGreatest), '
             'minkowski (real powers), cosine (zero-norm branches; range [0,2] by Cauchy-Schwarz), dot (unit norm), true_angular (similarity-like: '
             'identical non-zero -> 1; spec on <x,y> > 0, the FLOAT32_MAX sentinel region stated as the code is), correlation (= cosine of the centred '
             'vectors; the dot_product == 0 guard dominates the division), hellinger (clamp max(.,0) makes the sqrt defined whatever the quotient rounds '
             'to; clamp inactive over R by Cauchy-Schwarz), canberra and bray_curtis (guards), hamming, and the binary family jaccard / dice / matching '
             '/ kulsinski / rogers_tanimoto (= sokal_michener) / sokal_sneath / russellrao / yule as identities over the support counts for every '
             'dimension (formula, positive divisor under the guard, range, degenerate branch) with the count symmetries; the model Model/Metrics.lean is '
             'executed over float64 by the driver (`metric <kernel> | x | y [| p]`) and compared with the real kernels (22 named kernels) on random / '
             'small-integer / 0-1 / identical / scaled / zero / disjoint float32 pairs under refmetrics.close; the real kernels of every public name are '
             'compared with an independent float64 reference, argument swap, identical inputs and NaN-freedom checked on generated and adversarial pairs',
     'note': 'trusted: Lean kernel + {propext, Classical.choice, Quot.sound}; the translator harness/translate_metrics.py (numba subset -> Lean over Arith; '
             'unsupported syntax omits the kernel and breaks its theorem), validated on every run by executing the translated kernels in the native driver '
             '(gmetric / gcorr) on every generated case against numba under the tolerance rule (translated-kernel:<name>) and against the model bit for bit '
             '(translated-kernel-vs-model:<name>); the counting kernels (hamming, jaccard, alternative_jaccard, matching, dice, kulsinski, rogers_tanimoto, '
             'sokal_michener, sokal_sneath, russellrao, yule) are tied under CountLaws (ofNat 0 = 0, ofNat (n+1) = ofNat n + 1, a + 0 = a: true over R, '
             'countLaws_real) because the code adds 1.0 / 0.0 to a float where the model counts in N; NOT translated (sampled tie only): '
             'rankdata / spearmanr, jensen_shannon_divergence, symmetric_kl_divergence, wasserstein_1d, kantorovich, sinkhorn, circular_kantorovich, bit_hamming, '
             'bit_jaccard; float rounding is outside the theorems (exact real arithmetic): value, '
             'symmetry, identity and NaN under float32 rest on the sampled comparison with the float64 reference under the tolerance rule; theorems '
             'cover 22 kernels, the remaining public names (seuclidean, wminkowski, mahalanobis, haversine, tsss, spearmanr, JS, symmetric KL, '
             'wasserstein_1d, circular_kantorovich, kantorovich, sinkhorn, bit_*) are checked on the real kernels only; the RArith guardedness '
             "formulation is not done (hellinger's clamp is); vectors of equal length, dim < 65536 (uint16 counters, D13); true_angular's sentinel for "
             '<x,y> <= 0 is a recorded finding, excluded from its spec theorem by hypothesis',
     'explanation': 'theorems for all vectors of every dimension over R; the proved term itself runs against numba; real kernels vs float64 reference',
     'assumptions': ['harness/translate_metrics.py renders the numba semantics of the translated kernels faithfully up to float rounding (validated by execution '
                     'against numba and against the model on every run, not proved); the kernels it does not translate are tied to their model by sampling only',
                     'Lean 4.33.0 kernel; theorems may use only propext, Classical.choice, Quot.sound (audited with #print axioms on every run)',
                     'the float32/float64 kernels agree with the exact-arithmetic model up to the tolerance of harness/refmetrics.py (sampled: model '
                     'over float64 vs kernel, kernel vs independent reference)',
                     'x and y have the same length (numba does not bounds-check); dimension below 65536 for the typed kernels',
                     'documented domains: non-negative entries for hellinger, unit-norm input for dot, p != 0 (documented p >= 1) for minkowski, dim > 0 '
                     'for hamming / matching']},
    "C09": {'harness': 'c09',
     'level': 'proof',
     'category': 'proof',
     'design_ref': 'DESIGN.md 5/C09, 4.7',
     'translators': ['tables', 'metrics'],
     'technique': 'tie BY THEOREM of the surrogate kernels and dense correction ufuncs to the source text of distances.py (translated on every run, '
                  'harness/translate_metrics.py -> Gen/MetricKernels.lean; kernel_*_refines in Props/C07.lean; kernel_cosine_correction / '
                  'kernel_squared_euclidean_correction here) + Lean 4 proof over the reals (correction o surrogate = metric, surrogate strictly monotone, saturation and dead-band statements) about '
                  'the generic kernel model + decide over the regenerated alternative tables (registry of proved triples keyed by __name__) + the model '
                  'executed over float64 against the real surrogate kernels and correction ufuncs + real surrogates / corrections on generated pairs and '
                  'a sweep of the correction ufuncs over float32 bit patterns',
     'text': 'on the TRANSLATED source text (regenerated each run, proved equal to the model for every input): kernel_cosine_correction - on <x,y> > 0 the '
             'translated alternative_cosine followed by the translated correct_alternative_cosine returns exactly what the translated cosine returns, all in '
             'bounds, value < 1; kernel_squared_euclidean_correction - sqrt of the translated squared_euclidean is the translated euclidean and both order '
             'candidates alike. Lean theorems: with d = -log2 s, correct_alternative_cosine / _jaccard (d) = 1 - s, correct_alternative_hellinger (d) = sqrt(max(1-s,0)), '
             'true_angular_from_alt_cosine (d) = 1 - arccos(min(s,1))/pi for every s > 0; s |-> d strictly decreasing on s > 0, hence surrogate <= '
             "surrogate' <-> metric <= metric' (true_angular: >=); sqrt(squared_euclidean) = euclidean and the order equivalence; at the vector level "
             'alternative_cosine = -log2(cosSim) and cosine = 1 - cosSim on <x,y> > 0, correction(surrogate) = kernel exactly on the live range for '
             'cosine, dot, hellinger (non-negative vectors), true_angular (equal length) and jaccard (over the counts; disjoint non-empty supports: the '
             'FLOAT32_MAX branch, alternative_jaccard_disjoint_finite), with the order equivalences, and '
             'for ALL x y 0 <= min(cosine,1) - correction(surrogate) <= 2^-FLOAT32_MAX; saturation stated exactly (1 - 2^-FLOAT32_MAX, sqrt of it, 1/2 + '
             'arcsin(eps)/pi; eps < 2^-1075 so it evaluates to the far end in float32/float64); the sparse correction ufuncs equal the dense ones '
             'outside the dead band |d| <= 1e-7 (return 0 inside; deviation <= 1e-7 resp. sqrt(1e-7)), and no float32 log2 value other than 0 falls '
             'inside it; every entry of fast_distance_alternatives and sparse_fast_distance_alternatives (regenerated on every run) must pair a public '
             'name whose named kernel is k with a (surrogate, correction) such that (k, surrogate, correction) is in the registry of proved triples, '
             "decided by kernel evaluation; the model's four surrogate kernels and six correction ufuncs run over float64 against the real ones",
     'note': 'trusted: Lean kernel + {propext, Classical.choice, Quot.sound}; the tables translator; the metrics translator (validated by executing the '
             'translated kernels / ufuncs over float64 against numba and bit for bit against the model on every run; the sparse correction ufuncs and sparse '
             'surrogate kernels are not translated); float rounding of pow / log2 / arccos is outside '
             'the theorems (ufunc sweep + tolerance); the sparse surrogate KERNELS are not modelled here: they compute the same real function of the '
             'accumulators that C08 proves equal to the dense ones (the sparse CORRECTIONS are modelled and proved); dense alternative_jaccard on '
             'disjoint non-empty supports returns FLOAT32_MAX like its sparse twin (repository commit d428a58; before: -log2(0) = +inf, which no heap push accepts): modelled '
             'and proved (alternative_jaccard_disjoint_finite: finite surrogate, corrected value within 2^-FLOAT32_MAX of jaccard = 1, order against live candidates); order across the saturation boundary needs s > '
             '2^-FLOAT32_MAX (always true for float32 data, not a statement over R); the true_angular surrogate path reports ~1/2 where the named kernel '
             'returns FLOAT32_MAX (recorded finding)',
     'explanation': 'theorems for every similarity s > 0 and all vectors; decide over the regenerated tables; model and real ufuncs on float32 inputs',
     'assumptions': ['each numba kernel computes what its hand-written Lean model computes: sampled bit-exactly on generated inputs on every run, not '
                     'proved',
                     'Lean 4.33.0 kernel; theorems may use only propext, Classical.choice, Quot.sound (audited with #print axioms on every run)',
                     "sparse surrogate kernels compute the dense surrogate's real function of the same accumulators (C08 for the accumulators; sampled "
                     'on real sparse vs dense kernels by harness/c09.py)',
                     'float32 evaluation of pow, log2, arccos, sqrt stays within the tolerance rule and is monotone (swept over float32 bit patterns by '
                     'harness/c09.py)',
                     'unit-norm input for dot; non-negative entries for hellinger; equal lengths']},
    "C20": {'harness': 'c20',
     'level': 'proof',
     'category': 'proof',
     'design_ref': 'DESIGN.md 5/C20, 6/D11, 7',
     'translators': [],
     'technique': 'Lean 4 proof (pigeonhole divergence / fair-stream termination of rejection sampling, reachability in the returned graph, termination '
                  'of the alternating loop with its cycle guard for EVERY deterministic search, transparency and break-soundness of the guard) + exact '
                  'differential correspondence of the generator, of rejection_sample and of the alternating loop round by round + the property predicate '
                  'on the real connect_graph in watched child processes',
     'text': 'Lean theorems about a literal model of utils.rejection_sample over any generator (and over the exact Tausworthe generator of utils.py on '
             'Int64): rejection_sample_spec (whatever it returns is duplicate-free, in range, of the requested length), rejection_sample_diverges / '
             'unclamped_call_diverges (more samples than the pool holds: never returns, for every generator and every number of draws - the hang of the '
             'pinned tree), rejection_sample_terminates / clamped_call_terminates (with min(search_size, |component|) samples and a fair stream it '
             'finishes; fairness is shown necessary by rejection_sample_constant_stream_diverges); connect_spec / connect_spec_spanning / '
             'connect_graph_model (input symmetric, label classes connected, one non-zero edge per pair of labels inserted in both directions => result '
             'symmetric, contains the input unchanged, connected, added edges join different components and carry the returned weight); '
             'alternating_loop_terminates (the loop of find_component_connection_edge as repaired - `if state in seen_states: break` - exits for every '
             'deterministic restricted search returning point numbers: finite key space, pigeonhole on the duplicate-free seen list), '
             'cycle_guard_transparent (whenever the unguarded loop exits the guarded one exits in the same state after the same number of searches, not '
             'through the guard), cycle_guard_fires_only_on_divergence (a repeated key means the unguarded loop never exits), alternating_loop_exit_state, '
             'alternating_loop_stays_in_components, best_edge_round / best_edge_joins (best_dist / best_edge bookkeeping), exact_search_guard_silent; '
             'alternating_loop_terminates_partial (exact nearest-neighbour search without ties: the unguarded loop exits) and '
             'alternating_loop_tie_cycle (with ties it need not - D30). Every call of the real find_component_connection_edge made in the watched children '
             'is recorded round by round (loop key at the top of the iteration, sorted search result) and replayed through the Lean altLoopSeen with the '
             'recorded results as search table: same keys, same number of searches, same best edge; on integer-valued data (lattice / duplicate families, '
             'euclidean / manhattan) every row of every restricted search (custom_search_closure) is compared bit for bit - raw heap and sorted row - '
             "with the search model of C02 (Model/Search.lean: the closure is the query closure seeded with candidate_indices as its leaf and no random "
             'samples), so C02.search_sound / search_terminates apply to it. The model is tied to the code by bit-exact comparison of tau_rand_int / tau_rand '
             'streams and of rejection_sample (samples and generator state) at kernel level and for every rejection_sample call the real '
             'find_component_connection_edge makes; connect_graph itself is run on generated multi-component data sets (3 metrics, 2..8 clusters of '
             '1..40 points, Gaussian / integer-lattice / duplicate-heavy) in child processes under soft and hard deadlines with a loop-state recorder (a '
             'repeated state proves non-termination), and the property predicate (symmetric, contains input, one component, added edges cross components '
             'at the true metric distance) is evaluated on its real output',
     'note': 'trusted: Lean kernel + {propext, Classical.choice, Quot.sound}; the sampled exact correspondence between the Lean model and utils.py '
             '(generator, rejection_sample, alternating loop control + best-edge bookkeeping given the recorded search results); the restricted search itself '
             '(custom_search_closure) is an INPUT of the loop model (and compared with the C02 search model only on integer-valued data) - termination is proved for every deterministic search, determinism of the real search '
             '(no hidden state besides the arguments) is observed by the replay, and each single search is a finite graph walk (visited table, C02); that the '
             'restricted search only returns points of the other component '
             'rests on C16 (search graph is a subgraph of the symmetrised neighbour graph); weights are compared with a float64 reference at relative '
             "1e-5 (cosine: + 4 ulp of 1.0 absolute; a zero-length edge may carry FLOAT32_EPS, the module's convention)",
     'explanation': 'theorems over every generator / stream / pool size / graph; kernel-level exact correspondence; API-level predicate on real '
                    'connect_graph output in killed-at-deadline children with recorded rejection_sample calls and loop rounds (replayed through the model); every '
                    'fifth case is a history connect -> update(moved rows) -> connect on the same index, every fourth cosine case has norms ~1e-8',
     'assumptions': ['each numba kernel computes what its hand-written Lean model computes: sampled bit-exactly on generated inputs on every run, not '
                     'proved',
                     'Lean 4.33.0 kernel; theorems may use only propext, Classical.choice, Quot.sound (audited with #print axioms on every run)',
                     'the generator stream is fair for each component size (every residue mod |component| recurs): true of the Tausworthe generator from '
                     'non-degenerate states as NNDescent draws them, not proved (a degenerate state such as [1,2,3] yields the constant stream 0 and '
                     'rejection_sample(2, 5) then hangs - model and kernel agree)',
                     'pool_size >= 1 (a component is never empty; pool_size = 0 raises ZeroDivisionError in the kernel)',
                     '`graph` is the symmetrised k-neighbour graph of the same index (adjacency_matrix_representation(*index.neighbor_graph)); for other '
                     'graphs (e.g. a mutual-kNN subgraph) the restricted search may leave the component - outside the property',
                     "cosine data with positive similarity (the surrogate saturates at similarity <= 0: C09's documented range)",
                     'n_jobs=None (sequential joblib); concurrent searches would share index._visited and index.rng_state']},
    "C19": {
        "harness": "c19", "translators": ["threads"], "level": "proof", "category": "proof", "design_ref": "DESIGN.md 5/C19, 2.3",
        "technique": "Lean 4 proof (soundness of an exception-flow checker) + decide over a skeleton regenerated from the source + fault sequences on the real API",
        "text": "translate_threads.py regenerates, on every run, the exception-flow skeleton of every function in the package that calls "
                "numba.set_num_threads; Lean proves once that a skeleton accepted by `safe` restores the count on every exit (normal, return, "
                "exception at any may-raise point) and `decide`s `safe` on today's skeletons; the real constructor/prepare are run through every "
                "listed failure mode and n_jobs value and the thread count is compared before/after; a statement that calls another thread-limiting method "
                "of the same object (`self._init_search_graph()` ...) becomes a `callT` node: the callee restores the count it found but overwrites the "
                "shared attribute self._original_num_threads, so such a call inside the limited region is rejected; scenarios also cover compressed=True, "
                "sparse + compressed + prepare, one random configuration per n_jobs, the transformer, a changed ambient count between construction and "
                "prepare / query, and a lowered entry count",
        "note": TB + "the translator (ast walk, conservative: unknown constructs are never safe); numba.set_num_threads(original) itself does not raise; "
                     "the thread count is only changed through numba.set_num_threads",
        "explanation": "general theorem safe_sound + decide on Gen/ThreadFlow.lean; API fault sequences with recorded set_num_threads calls",
        "assumptions": ["the only way the package changes the thread count is numba.set_num_threads (grep'd by the translator over all modules)",
                        "restoring with the saved entry value does not raise",
                        "a callee reached through `callT` is itself in the generated list and therefore obliged to be safe (same theorem, same run)"],
    },
}

# ---- additions made after the first registration -------------------------------------------------------------------
PROPS["C07"]["text"] += (
    "; ADDITIONALLY (Props/C07b.lean, 58 theorems over Model/Metrics2.lean): spec / symm / self / defined over R for standardised_euclidean, "
    "weighted_minkowski, mahalanobis (symmetric for every matrix; sqrt defined for positive semi-definite vinv), haversine with its clamp (radicand in "
    "[0,1] for all reals and arcsin argument in [0,1] for every non-negative radicand), jensen_shannon and symmetric_kl with the FLOAT32_EPS smoothing, "
    "wasserstein_1d (l_p distance of the CDFs), bit_hamming / bit_jaccard over bytes (popcount table checked for all 256 bytes), spearmanr (over the result "
    "of rankdata), tsss; and GUARDEDNESS UNDER ROUNDING: over every carrier satisfying only the sign/order facts that R and IEEE arithmetic share (class "
    "RArith; RArithNU adds 'no underflow of a product of positives'), each kernel with a partial operation behind a guard or clamp (hellinger, "
    "correct_alternative_hellinger, tsss, true_angular, haversine, canberra, bray_curtis, bit_jaccard, cosine; correlation modulo Cauchy-Schwarz) never "
    "evaluates sqrt / log / arccos / arcsin / division outside its domain, and the pre-repair shapes (hellinger without max, haversine without min) do "
    "on a cooked carrier; the new kernels run over float64 against the real ones (harness/c07_model2.py)")
PROPS["C01"]["text"] += ("; reported_distance_true composes the invariant with the C09 inversion: with a monotone correction that inverts the surrogate, every "
                         "reported distance is the documented metric of the two rows it names and reported rows run closest-first")
