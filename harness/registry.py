"""Per-property registration: used by `check` (harness module, evidence level,
assumptions) and by tools/mkmanifest.py (MANIFEST.json is generated from this)."""

COMMON_ASSUMPTIONS = [
    "each numba kernel computes what its hand-written Lean model computes: sampled bit-exactly on generated inputs on every run, not proved",
    "Lean 4.33.0 kernel; theorems may use only propext, Classical.choice, Quot.sound (audited with #print axioms on every run)",
]
TB = "trusted: Lean kernel + {propext, Classical.choice, Quot.sound}; "

PROPS = {
    "C11": {
        "harness": "c11", "level": "proof", "category": "proof", "design_ref": "DESIGN.md 5/C11, 4.1",
        "technique": "Lean 4 proof (invariant by induction over offer sequences) + bit-exact differential correspondence",
        "text": "Lean theorems topk_checked, topk_simple, push_accept_perm, push_reject_id, deheapSort_spec about a literal model of the "
                "three push kernels and deheap_sort, for every heap size, linear order and offer sequence; the model is tied to the numba "
                "kernels by bit-exact comparison after every single operation on generated sequences, and the property predicate is "
                "evaluated on the real kernels' output",
        "note": TB + "the sampled bit-exact correspondence between the Lean model and utils.py; float32 priorities without NaN; rows < 65536 slots",
        "explanation": "theorems over every heap size / linear order / offer sequence; correspondence after every single push and after deheap_sort",
        "assumptions": COMMON_ASSUMPTIONS + ["float32 priorities are totally ordered (no NaN reaches a heap)",
                                             "uint16 loop counters in the kernels: rows shorter than 65536 slots"],
    },
    "C19": {
        "harness": "c19", "level": "proof", "category": "proof", "design_ref": "DESIGN.md 5/C19, 2.3",
        "technique": "Lean 4 proof (soundness of an exception-flow checker) + decide over a skeleton regenerated from the source + fault sequences on the real API",
        "text": "translate_threads.py regenerates, on every run, the exception-flow skeleton of every function in the package that calls "
                "numba.set_num_threads; Lean proves once that a skeleton accepted by `safe` restores the count on every exit (normal, return, "
                "exception at any may-raise point) and `decide`s `safe` on today's skeletons; the real constructor/prepare are run through every "
                "listed failure mode and n_jobs value and the thread count is compared before/after",
        "note": TB + "the translator (ast walk, conservative: unknown constructs are never safe); numba.set_num_threads(original) itself does not raise; "
                     "the thread count is only changed through numba.set_num_threads",
        "explanation": "general theorem safe_sound + decide on Gen/ThreadFlow.lean; API fault sequences with recorded set_num_threads calls",
        "assumptions": ["the only way the package changes the thread count is numba.set_num_threads (grep'd by the translator over all modules)",
                        "restoring with the saved entry value does not raise"],
    },
}
