"""Per-property registration: used by `check` (harness module, evidence level,
assumptions) and by tools/mkmanifest.py (MANIFEST.json is generated from this)."""

COMMON_ASSUMPTIONS = [
    "each numba kernel computes what its hand-written Lean model computes: sampled bit-exactly on generated inputs on every run, not proved",
    "Lean 4.33.0 kernel; theorems may use only propext, Classical.choice, Quot.sound (audited with #print axioms on every run)",
]
TB = "trusted: Lean kernel + {propext, Classical.choice, Quot.sound}; "

PROPS = {
    "C08": {
        "harness": "c08", "level": "proof", "category": "proof", "design_ref": "DESIGN.md 5/C08, 4.7", "translators": [],
        "technique": "Lean 4 proof (two-pointer merges decode to pointwise operations; sparse metric = dense metric on list-encoded vectors, over any ordered ring/field) + exact correspondence of the merge kernels + real sparse vs real dense kernels on all support patterns",
        "text": "Lean theorems over a literal model of sparse.py's merge kernels (sparse_sum/diff/mul with dropped zeros and tail loops, "
                "sparse_dot_product with its early returns, arr_union/intersect, fast_intersection_size): merge_decode / merge_wf / merge_enc "
                "(every support relation at once), dot_product_agrees, intersection_size_agrees, and sparse_X (enc x) (enc y) [n] = dense_X x y "
                "for the Minkowski family, hamming, the binary family with the n_features closed-form corrections, cosine parts, hellinger sums, "
                "braycurtis, canberra and correlation's implicit-zero accounting (where defect D17 lived), all before the final sqrt; enc provably "
                "satisfies the well-formedness precondition. The model is compared exactly with the real merge kernels on all support patterns "
                "for dim <= 5 with small-integer values (cancellations to 0) and the real sparse metrics are compared with the real dense "
                "metrics for every name in both tables (n_features / p / ground metric supplied; union of supports for JS / symmetric KL)",
        "note": TB + "float rounding is outside the theorems (ordered ring/field); sqrt/log final steps, kantorovich, wasserstein_1d, non-integer minkowski p "
                     "and the JS/KL bodies are compared on real kernels only; rows < 65536 entries (uint16 cursors); CSR rows sorted, no stored zeros",
        "explanation": "theorems for all support patterns and values; exact kernel correspondence; real sparse vs dense on exhaustive small patterns",
        "assumptions": COMMON_ASSUMPTIONS + ["sparse rows have strictly increasing indices and no stored zeros (enc_wf; scipy canonical CSR)",
                                             "empty operands of sparse_dot_product are not generated (out-of-bounds read in the kernel: memory safety is outside the model)"],
    },
    "C11": {
        "harness": "c11", "level": "proof", "category": "proof", "design_ref": "DESIGN.md 5/C11, 4.1",
        "technique": "Lean 4 proof (invariant by induction over offer sequences) + bit-exact differential correspondence",
        "text": "Lean theorems topk_checked, topk_simple, push_accept_perm, push_reject_id, deheapSort_spec about a literal model of the "
                "three push kernels and deheap_sort, for every heap size, linear order and offer sequence; the model is tied to the numba "
                "kernels by bit-exact comparison after every single operation on generated sequences, and the property predicate is "
                "evaluated on the real kernels' output",
        "note": TB + "the sampled bit-exact correspondence between the Lean model and utils.py; float32 priorities without NaN; rows < 65536 slots",
        "explanation": "theorems over every heap size / linear order / offer sequence; correspondence after every single push and after deheap_sort",
        "assumptions": COMMON_ASSUMPTIONS + ["float32 priorities are totally ordered (no NaN reaches a heap)",
                                             "uint16 loop counters in the kernels: rows shorter than 65536 slots"],
    },
    "C01": {
        "harness": "c01", "level": "proof", "category": "proof", "design_ref": "DESIGN.md 5/C01, 4.2", "translators": [],
        "technique": "Lean 4 proof (well-formedness invariant by induction over every kernel of a literal NN-descent model) + bit-exact differential correspondence of the whole nn_descent + API oracle with float64 metric reference",
        "text": "Lean theorem descent_wellformed: for every n, k, symmetric distance table, leaf array, generator state, n_iters, stop test, "
                "max_candidates, thread count, memory mode and well-formed initial heap, the output of the modelled nn_descent has n rows of k "
                "slots, each sorted closest-first, real entries distinct, in range and first, sentinels (-1, inf) last, and every real entry "
                "carries the true distance. The model is the code as written (heap layout, exact Tausworthe generator incl. float32 draws, "
                "thread partition, i<j / k>=j enumerations, <, <= tests, stop test) and is compared bit-for-bit with the real numba nn_descent "
                "on integer data in both memory modes; the public neighbor_graph of dense / CSR / bit-packed indexes over metric families and "
                "build configurations (init_graph with holes, init_dist, n<=k, zero rows, duplicates) is checked with the same predicate and an "
                "independent float64 reference of each metric",
        "note": TB + "the sampled bit-exact correspondence of the model with pynndescent_.py/utils.py (dense kernels; the sparse twin is covered at API "
                     "level only); metric values are compared under the float32 tolerance rule of DESIGN C07; the correction step is property C09",
        "explanation": "invariant theorem over all configurations; whole-pipeline bit-exact correspondence; API predicate with float64 reference",
        "assumptions": COMMON_ASSUMPTIONS + ["the distance function is symmetric and NaN-free on the data", "init_dist, when supplied and used, is truthful (docstring contract)"],
    },
    "C03": {
        "harness": "c03", "level": "other", "category": "other", "design_ref": "DESIGN.md 5/C03, 7", "translators": [],
        "technique": "Lean 4 proof of the provable clauses (single-leaf exactness, delivery of every discovered pair to both endpoints) + bit-exact correspondence; recall floors only measured (sampling)",
        "text": "PARTIAL. Proved in Lean for the literal NN-descent model: single_leaf_exact (when one leaf holds all points the graph after leaf "
                "initialisation is the exact k-NN graph up to ties, for every n, k, metric), local_join_delivers_both (+_high): every discovered "
                "pair is offered to both endpoints in both memory modes, rows are exactly the feed of those offers; C13 gives monotone improvement. "
                "Tied to the code by the bit-exact nn_descent correspondence and an API check that a dataset fitting one leaf yields the exact graph. "
                "The 90 % / 80 % recall floors are statistical statements about a randomised heuristic: they are MEASURED on seeded well-conditioned "
                "families (uniform, gaussian, clustered, manifold, sparse topic mixture, binary prototypes x metric families x memory mode x tree_init "
                "x n_jobs, averaged over repetitions) and reported as sampling, not proof",
        "note": TB + "the recall floors have no theorem (no executable-model statement expresses them); a measured mean below the floor is reported with the seeded family as replay",
        "explanation": "partial: two of the three sentences of the property are decided by theorems + correspondence; the recall floors are sampled. "
                       "Measured recalls of this run are listed under coverage.notes",
        "assumptions": COMMON_ASSUMPTIONS + ["recall floors: sampling on seeded families, averaged over repetitions; query floor asserted for the default tree-seeded search only"],
    },
    "C04": {
        "harness": "c04", "level": "proof", "category": "proof", "design_ref": "DESIGN.md 5/C04", "translators": [],
        "technique": "Lean 4 proof (invariant by induction over every operation history of a life-cycle state machine, for all forest / NN-descent oracles) + comparison of the model with the real object after every operation of seeded histories + C01/C02 predicates against the model's logical dataset",
        "text": "Model/Index.lean follows update / _init_search_graph / compress_index / __getstate__ as written (restore caller order by "
                "argsort(_vertex_order) iff the attribute exists, write replacements, append, reset rows and references of replaced points, "
                "re-seed, rebuild search structures iff any existed, refuse a compressed index or an invalid row number before touching "
                "anything); rows carry (identity, version) tags. Lean proves perm_roundtrip, history_inv (for every finite history and every "
                "vertex-order / found-neighbour oracle: _raw_data is the logical dataset in vertex order, one graph row per logical point owned by "
                "its current version, no tag of a replaced row survives, the compiled closure was built over the current rows), "
                "logical_dataset_spec (the logical dataset is the original rows with replacements applied followed by appended rows in order), "
                "update_refused_leaves_state / update_bad_index_leaves_state. Seeded histories over {prepare, query, update fresh / replace / both / "
                "invalid index, pickle, compress_index} on dense float and bit-packed indexes are run on the real code; after every operation the "
                "model (fed with the real vertex orders) must agree on row count, existence of _vertex_order / graph, compressed flag, error kind and "
                "_raw_data == logical[stored order], and the C01 / C02 predicates are evaluated against the logical dataset",
        "note": TB + "NN-descent and the forest are oracle inputs of the life-cycle model (their own properties are C01/C14); the correspondence with the real "
                     "object is sampled on seeded histories; pickling itself is C06",
        "explanation": "invariant theorem over all histories and oracles; model vs real object after every op; truthfulness predicates vs logical dataset",
        "assumptions": COMMON_ASSUMPTIONS + ["sparse indexes cannot be updated (NotImplementedError) and are outside C04's quantifier"],
    },
    "C05": {
        "harness": "c05", "level": "proof", "category": "proof", "design_ref": "DESIGN.md 5/C05, 4.6, 2.3", "translators": ["prange"],
        "technique": "Lean 4 proof (schedule independence of non-interfering loops) + decide over per-iteration memory footprints regenerated from the source + bit-for-bit repetition",
        "text": "Lean proves once that a prange loop whose iterations touch only rows they own yields the sequential result under every "
                "interleaving (schedule_independent, schedules_agree: all merges, any number of iterations); translate_prange.py regenerates "
                "on every run the read/write/mutator/reduction footprint of one iteration of every prange loop in the package and Lean "
                "`decide`s that every loop on the build/prepare/query/update paths is non-interfering; seeded histories are repeated under "
                "fixed thread counts and compared bit-for-bit (graph, generator states, search graph, answers) after every step",
        "note": TB + "the footprint translator (ast walk with alias resolution, guard domination, CSR row segments, inter-procedural mutator "
                     "summaries; conservative: unclassifiable effects are `shared`) and its contract that owned classes denote rows no other "
                     "iteration touches; numba's prange executes some merge of the iterations; real interleavings are only sampled",
        "explanation": "general theorem + decide on Gen/Prange.lean; repetition of seeded histories under thread counts 2..16",
        "assumptions": ["numba prange runs the iterations' operations in some interleaving that preserves each iteration's own order",
                        "indptr arrays are monotone (CSR row segments are disjoint)", "metric kernels do not mutate their arguments",
                        "integer += reductions in prange are exact and commutative"],
    },
    "C06": {
        "harness": "c06", "level": "proof", "category": "proof", "design_ref": "DESIGN.md 5/C06, 2.3", "translators": ["tables"],
        "technique": "Lean 4 decide over selection tables regenerated by executing the real selection statements on every metric name + real pickle/joblib round-trips",
        "text": "translate_tables.py regenerates on every run the extensional decision table of the metric selection at construction "
                "(the statements of __init__, located by AST and executed on a stub for every public name x {dense, CSR}) and after load "
                "(the real __setstate__ on a stub); Lean decides that load re-selects exactly the kernel, correction and n_features "
                "convention construction chose, that CSR indexes only run sparse kernels, and that surrogate/correction pairs follow the "
                "tables; real indexes (dense / CSR / bit-packed, surrogate metrics, metric_kwds, compressed) are dumped and loaded with "
                "pickle protocols and joblib at three life points and answers compared bit-for-bit",
        "note": TB + "the tables translator; pickle carries every other attribute unchanged (exercised on real round-trips, not proved); "
                     "callable (user-supplied) metrics are outside the tables",
        "explanation": "decide over Gen/Tables.lean (every built-in name x data kind); real round-trips compared bit-for-bit",
        "assumptions": ["pickle/joblib reproduce every attribute other than the re-selected distance function (sampled on real round-trips)"],
    },
    "C12": {
        "harness": "c12", "level": "proof", "category": "proof", "design_ref": "DESIGN.md 5/C12", "translators": [],
        "technique": "Lean 4 proof (refinement: high-memory applier = low-memory applier under the in_graph invariant, lifted through the whole descent loop) + bit-exact correspondence of both appliers + API equality of both modes",
        "text": "Lean theorems applyHigh_eq_applyLow (graph AND change count, any thread count, any truthful update list, under the invariant that a "
                "recorded candidate is one the heap would reject) and descent_low_eq_high (the whole modelled nn_descent returns identical rows and "
                "generator state in both modes, for every configuration), plus low_memory_thread_count_irrelevant; both real appliers are compared "
                "bit-for-bit with the model on the same update lists (self pairs, repeats, 1..16 threads) and with each other; real indexes built "
                "with low_memory=True and False must have identical neighbor_graph arrays, search graphs and answers (dense, CSR, bit-packed)",
        "note": TB + "the sampled bit-exact correspondence of model and kernels; symmetric NaN-free distance",
        "explanation": "refinement theorem for all configurations + kernel correspondence + API equality",
        "assumptions": COMMON_ASSUMPTIONS + ["symmetric distance function"],
    },
    "C13": {
        "harness": "c13", "level": "proof", "category": "proof", "design_ref": "DESIGN.md 5/C13", "translators": [],
        "technique": "Lean 4 proof (order statistics of every row are non-increasing under every kernel, by induction over the op sequence) + bit-exact correspondence + rank-wise API comparisons",
        "text": "Lean theorems push_rank_le / descent_rank_le / iteration_rank_le: for every threshold t the number of entries of every row within t "
                "never decreases under any push, any update application, any initialisation kernel, any iteration and the final sort, for arbitrary "
                "graphs and update lists (no invariant needed), i.e. the j-th smallest distance of every row is non-increasing; reinsert_eq: re-pushing "
                "a well-formed row reproduces it (update() starts from the old lists). The real nn_descent is run from supplied heaps and compared "
                "rank-wise (exact) and with the model; at API level init_graph (with -1 holes, +-init_dist) vs result, n_iters=t vs t+1, and "
                "neighbor_graph before vs after update(xs_fresh) are compared rank-wise",
        "note": TB + "the sampled bit-exact correspondence; reported (corrected) distances are compared at API level, monotonicity of corrections is C09",
        "explanation": "monotonicity theorem for all op sequences + kernel correspondence + rank-wise API comparisons",
        "assumptions": COMMON_ASSUMPTIONS,
    },
    "C14": {
        "harness": "c14", "level": "proof", "category": "proof", "design_ref": "DESIGN.md 5/C14, 4.4, Appendix E", "translators": [],
        "technique": "Lean 4 proof (structural induction over the tree of recursive calls, for every side oracle; array-threading "
                     "proof of the flattening with frame lemmas; fuel-free routing argument) + array-for-array differential "
                     "correspondence with the real numba/Python kernels",
        "text": "Lean theorems leaves_partition, tree_partition, leaf_size_bound, build_terminates, convert_spec, route_terminates_valid, "
                "linked_form_spec, leafArray_spec about a literal model of make_*_tree (one control structure for the five split kernels; "
                "margins, hyperplanes and coins abstracted by an arbitrary side oracle incl. the re-draw fall-back that may again leave a "
                "side empty), of the post-order linked lists, get_leaves_from_tree, recursive_convert / convert_tree_format (arrays "
                "pre-filled with -1 and written cell by cell, returned (node_num, leaf_start) threaded as in the code) and the "
                "search_flat_tree loop `while children[node,0] > 0`: for every oracle, leaf size, depth fuel and index list the leaves "
                "are a permutation of the input, a leaf larger than leaf_size sits at exhausted depth, depth <= max_depth (termination "
                "does not depend on the data), the flat indices are the concatenated leaves, leaf rows tile [0,n) (the leaf at offset 0 "
                "is (0,-end) and is classified as a leaf), inner rows are (node+1, larger in-range row), and routing under every side "
                "function ends, with fuel = number of nodes, in a leaf row whose slice is a leaf of the linked tree. The model is tied "
                "to rp_trees.py by comparing, on generated data sets (random / duplicates / all-identical / all-zero / collinear / "
                "n <= leaf_size / n in {0,1,2}) x {dense euclidean, dense angular, bit-packed, sparse euclidean, sparse angular} x "
                "leaf_size 1.. x max_depth 0..200: buildTree fed with the side decisions read off the real tree, linearize, leafArray, "
                "recursiveConvert and route (side decisions recomputed with the real select_side* on a copy of the generator state and, "
                "away from the EPS band, from numpy margins) array for array; the property predicates are evaluated on the real linked "
                "trees, leaf arrays, flat trees, make_forest output, NNDescent._rp_forest / _search_forest / _vertex_order and on the "
                "results of the real search kernels and tree_search_closure",
        "note": TB + "the sampled array-for-array correspondence between the Lean model and rp_trees.py; int32 overflow is not modelled "
                     "(unbounded Int); memory safety is out of scope (numba has no bounds checks: sparse routing through an empty hyperplane "
                     "or with an empty query reads out of bounds and is not exercised); leaf_size >= 0 (a negative leaf_size divides by zero "
                     "in the split); observed but not forbidden by the property: empty leaves (the fall-back can leave a side empty), and "
                     "resort_tree_indices composes the permutations in the wrong order for search trees other than the first "
                     "(tree.indices[tree_order] instead of tree_order[tree.indices]; those trees are never descended by query())",
        "explanation": "theorems over every side oracle / leaf size / depth fuel / index list / side function; correspondence of the five "
                       "model functions with the real kernels on every generated tree and routed query; predicates on real outputs at "
                       "kernel, forest and index level",
        "assumptions": COMMON_ASSUMPTIONS + [  # noqa: F821  (defined in registry.py)
            "every *_random_projection_split returns a stable partition of its `indices` by a 0/1 side array (read off the source: the five "
            "kernels share the count / re-draw / populate code; the partition and its stability are checked on every generated tree)",
            "node numbers, offsets and point ids fit int32 (unbounded Int in the model)",
            "leaf_size >= 0 and the data has at least one column; the linked tree handed to convert_tree_format was built by make_*_tree",
        ],
    },
    "C17": {
        "harness": "c17", "level": "proof", "category": "proof", "design_ref": "DESIGN.md 5/C17", "translators": [],
        "technique": "Lean 4 proof over an alias model (who owns the current data buffer) for every input class, metric class and history + byte-for-byte before/after comparison of every array handed to the real API + np.shares_memory vs the model's alias bit",
        "text": "Model/Alias.lean lists, as written in the code, the alias / copy / in-place-write operations of __init__ (check_array, "
                "sorted_indices, normalize with copy_on_normalize), _init_search_graph, update, query; Lean proves caller_buffers_unchanged: "
                "for all 7 dtypes x 3 layouts x dense/sparse x CSR x sorted-indices classes, the three metric classes (plain, normalising dot, "
                "bit-packed) and every history of prepare / update / compress / pickle no in-place write targets a buffer reachable from the "
                "caller, plus alias_iff (exactly when the index keeps sharing memory) and query_never_writes. On the real API every array "
                "ever passed (data, queries, xs_fresh, xs_updated, updated_indices, init_graph, init_dist; indptr / indices / data of sparse "
                "input) is snapshotted and compared byte-for-byte after every operation of shuffled histories over f32/f64, C/F/strided, "
                "CSR sorted/unsorted/f64, CSC, uint8 inputs, and the model's alias bit is compared with np.shares_memory",
        "note": TB + "the alias model is hand-written from the source (sklearn check_array / normalize, numpy indexing semantics are trusted as "
                     "documented); numba kernels are assumed not to write their read-only inputs (data is passed to kernels that only read it; "
                     "the byte comparison samples this)",
        "explanation": "theorem over all input classes and histories; byte-for-byte comparison on real histories; alias bit vs shares_memory",
        "assumptions": ["numpy fancy/boolean indexing, astype, vstack, ascontiguousarray of a permuted array and scipy sorted_indices return new buffers",
                        "numba kernels do not write the data / query arrays they are given (sampled by the byte comparison)"],
    },
    "C18": {
        "harness": "c18", "level": "proof", "category": "proof", "design_ref": "DESIGN.md 5/C18", "translators": [],
        "technique": "Lean 4 proof (coo -> tocsr assembly stores exactly the found slots when row indices are distinct) + entry-for-entry, bit-for-bit comparison of transform / fit_transform with the index's own output",
        "text": "Model/Transformer.lean models transform's assembly: one COO triple per slot with index >= 0 (the found mask), scipy tocsr = canonical "
                "order with equal coordinates summed. Lean proves transform_entries: when every row's non-negative indices are distinct (C02) the "
                "stored entries are exactly {(i, idx[i][j], dist[i][j]) : idx[i][j] >= 0}, their number is the number of found slots, rows < #queries, "
                "columns < n_fit, coordinates strictly increasing; fit_transform_row_count (n_neighbors+1 entries per full row); and, as examples, that "
                "a duplicate coordinate (the pre-repair -1 translation) is summed. On the real code transform(X) is compared with "
                "index_.query(X, n_neighbors, search_epsilon) and fit_transform(X) with the neighbor graph of an identically seeded index, triple for "
                "triple with float32 bit patterns, across metrics, data kinds and transformer parameters; the assembly is also compared with the Lean "
                "model through the driver; values are checked against the float64 metric reference",
        "note": TB + "scipy's coo_matrix.tocsr() sums duplicates and keeps explicit zeros (modelled, compared on every case); fit_transform is compared with a "
                     "second, identically seeded fit (reproducibility is C05)",
        "explanation": "assembly theorem for all answer arrays; exact comparison of real transform / fit_transform with index output and with the model",
        "assumptions": COMMON_ASSUMPTIONS,
    },
    "C19": {
        "harness": "c19", "translators": ["threads"], "level": "proof", "category": "proof", "design_ref": "DESIGN.md 5/C19, 2.3",
        "technique": "Lean 4 proof (soundness of an exception-flow checker) + decide over a skeleton regenerated from the source + fault sequences on the real API",
        "text": "translate_threads.py regenerates, on every run, the exception-flow skeleton of every function in the package that calls "
                "numba.set_num_threads; Lean proves once that a skeleton accepted by `safe` restores the count on every exit (normal, return, "
                "exception at any may-raise point) and `decide`s `safe` on today's skeletons; the real constructor/prepare are run through every "
                "listed failure mode and n_jobs value and the thread count is compared before/after",
        "note": TB + "the translator (ast walk, conservative: unknown constructs are never safe); numba.set_num_threads(original) itself does not raise; "
                     "the thread count is only changed through numba.set_num_threads",
        "explanation": "general theorem safe_sound + decide on Gen/ThreadFlow.lean; API fault sequences with recorded set_num_threads calls",
        "assumptions": ["the only way the package changes the thread count is numba.set_num_threads (grep'd by the translator over all modules)",
                        "restoring with the saved entry value does not raise"],
    },
}
