"""Per-property registration used by `check` (harness module, evidence level, assumptions)."""

COMMON_ASSUMPTIONS = [
    "each numba kernel computes what its hand-written Lean model computes: sampled bit-exactly on generated inputs on every run, not proved",
    "Lean 4.33.0 kernel; theorems may use only propext, Classical.choice, Quot.sound (audited with #print axioms on every run)",
    "float32 priorities are totally ordered (no NaN reaches a heap)",
]

PROPS = {
    "C11": {
        "harness": "c11", "level": "proof",
        "explanation": "theorems topk_checked/topk_simple/deheapSort_spec over every heap size, linear order, offer sequence; "
                       "model tied to utils.*_heap_push/deheap_sort by bit-exact comparison after every single operation",
        "assumptions": COMMON_ASSUMPTIONS + ["uint16 loop counters in the kernels: rows shorter than 65536 slots"],
    },
}
