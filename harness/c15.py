"""C15 — diversification removes exactly the long edges of triangles.

Kernel-level correspondence of the four real kernels (dense `diversify`, dense `diversify_csr`,
`sparse.diversify`, `sparse.diversify_csr`) with the Lean model (`div-list`, `div-csr`), and the
property predicate evaluated directly on the real output.

Inputs: tiny datasets with integer-valued coordinates (distances exact, many ties and zero-distance
duplicates) under a real metric; neighbour rows with `-1` padding, ties, unsorted CSR storage.
`prune_probability` 1.0 and 0.0 exactly; 0.5 exactly as well, with the generator left out: the
outcomes of `tau_rand(rng_state + i) < 0.5` are recorded from the real generator and handed to the
model as its draw stream (this also ties "the generator is consulted only when the occlusion test
succeeded" and the per-row state).

`np.argsort` inside `diversify_csr` is unstable: a row without ties is compared exactly; a row with
ties is accepted when the real output equals the model's for SOME ordering of the tied entries
(first the order numba's own argsort returns outside the kernel, then brute force over the tie
groups, at most 720 orders).  The distance table handed to the model is the metric kernel's own
return value (float64 bit patterns; numba compares a float64 `d` with the widened float32 length).
"""
import sys, os, random, itertools, math
sys.path.insert(0, os.path.dirname(os.path.dirname(os.path.abspath(__file__))))
from harness.common import *
setup_numba_cache()
import numpy as np, numba, scipy.sparse as sp
from pynndescent import pynndescent_ as pn, sparse as psp, distances as pd
from pynndescent.utils import tau_rand

EPS32 = np.float32(pn.FLOAT32_EPS)
EPS = float(EPS32)
INF = float("inf")
METRICS = [("euclidean", pd.euclidean, psp.sparse_euclidean),
           ("manhattan", pd.manhattan, psp.sparse_manhattan),
           ("sqeuclidean", pd.squared_euclidean, psp.sparse_squared_euclidean)]
KERNELS = ["dense_list", "sparse_list", "dense_csr", "sparse_csr"]
MAX_ORDERS = 720


@numba.njit
def _table_dense(X, f):
    n = X.shape[0]
    T = np.zeros((n, n), dtype=np.float64)
    for a in range(n):
        for b in range(n):
            T[a, b] = f(X[a], X[b])
    return T


@numba.njit
def _table_sparse(indptr, indices, data, f):
    n = indptr.shape[0] - 1
    T = np.zeros((n, n), dtype=np.float64)
    for a in range(n):
        for b in range(n):
            T[a, b] = f(indices[indptr[a]:indptr[a + 1]], data[indptr[a]:indptr[a + 1]],
                        indices[indptr[b]:indptr[b + 1]], data[indptr[b]:indptr[b + 1]])
    return T


@numba.njit
def _nb_argsort(a):
    return np.argsort(a)


def f64bits_row(a):
    return " ".join(str(int(v)) for v in np.ascontiguousarray(a, dtype=np.float64).view(np.uint64).ravel())


# ----------------------------------------------------------------------------------------------
# generators
# ----------------------------------------------------------------------------------------------
def gen_dataset(rng):
    npts = rng.choice([3, 4, 5, 6, 8, 10, 12])
    dim = rng.choice([1, 2, 2, 3])
    lo, hi = rng.choice([(-1, 1), (-2, 3), (0, 2), (0, 5)])
    X = np.array([[rng.randint(lo, hi) for _ in range(dim)] for _ in range(npts)], dtype=np.float32)
    for _ in range(rng.choice([0, 1, 1, 2])):               # planted exact duplicates
        a, b = rng.randrange(npts), rng.randrange(npts)
        X[a] = X[b]
    return X


ARB = [0.0, float(EPS32) / 2, float(EPS32), float(np.nextafter(EPS32, np.float32(1))), 0.5, 1.0, 1.0, 1.5, 2.0, 2.0, 3.0]


def gen_row(rng, i, npts, K, T):
    """one stored row of point i: (idx list, len list as float32), width K"""
    kind = rng.choice(["true", "true", "true", "arb", "arb", "unsorted", "hole", "empty", "rep", "noself"])
    if kind == "empty":
        return kind, [-1] * K, [np.float32(INF)] * K
    L = rng.choice([K, K, K, max(1, K - 1), max(1, K - 2), 1])
    L = min(L, npts)
    pool = list(range(npts))
    rng.shuffle(pool)
    if kind in ("true", "hole", "rep") and i in pool:
        pool.remove(i); pool.insert(0, i)                   # the point itself is normally in its own list
    if kind == "noself" and i in pool and npts > 1:
        pool.remove(i)
        L = min(L, npts - 1)
    nb = pool[:L]
    if kind == "rep" and L >= 2:
        nb[rng.randrange(1, L)] = nb[rng.randrange(0, L)]   # a neighbour named twice
    if kind in ("arb", "unsorted"):
        ln = [np.float32(rng.choice(ARB)) for _ in nb]
    else:
        ln = [np.float32(T[i, v]) for v in nb]
    ent = list(zip(nb, ln))
    if kind != "unsorted":
        rng.shuffle(ent)                                     # random order among ties
        ent.sort(key=lambda e: float(e[1]))
    idx = [e[0] for e in ent] + [-1] * (K - L)
    lens = [e[1] for e in ent] + [np.float32(INF)] * (K - L)
    if kind == "hole" and K >= 3:
        h = rng.randrange(1, K - 1)                          # a -1 in the middle: the list kernels stop there
        idx[h] = -1; lens[h] = np.float32(INF)
    return kind, idx, lens


def gen_case(rng, mi):
    X = gen_dataset(rng)
    npts = X.shape[0]
    K = rng.choice([1, 2, 3, 4, 5, 6, 7])
    name, fd, fs = METRICS[mi]
    S = sp.csr_matrix(X)
    S.sort_indices()
    Td = _table_dense(X, fd)
    Ts = _table_sparse(S.indptr, S.indices, S.data, fs)
    R = rng.choice([4, 8, 12])
    rows = []
    for r in range(R):
        i = rng.randrange(npts)
        rows.append((i,) + gen_row(rng, i, npts, K, Td))
    return {"metric": name, "mi": mi, "X": X, "S": S, "Td": Td, "Ts": Ts, "K": K, "rows": rows,
            "rng_state": np.array([rng.randint(-2**31, 2**31 - 1) for _ in range(3)], dtype=np.int64)}


# ----------------------------------------------------------------------------------------------
# the property, evaluated in Python on a keep-flag vector
# ----------------------------------------------------------------------------------------------
def occl(T, ent, l, j):
    """entry l occludes entry j  (ent = list of (idx, float len))"""
    return ent[l][1] > EPS and T[ent[j][0], ent[l][0]] < ent[j][1]


def rule_ok(T, ent, order, keep):
    """j in R  <->  not exists l in R visited before j with len l > EPS and dist(j,l) < len j"""
    for t, j in enumerate(order):
        ex = any(keep[l] and occl(T, ent, l, j) for l in order[:t])
        if keep[j] == ex:
            return False
    return True


def justified(T, ent, order, keep):
    """every removed entry has a retained, earlier visited occluder (any probability)"""
    for t, j in enumerate(order):
        if not keep[j] and not any(keep[l] and occl(T, ent, l, j) for l in order[:t]):
            return False
    return True


def tie_orders(lens, first):
    """all visiting orders that sort `lens` ascending (ties permuted), `first` first; capped"""
    n = len(lens)
    groups = {}
    for j in range(n):
        groups.setdefault(lens[j], []).append(j)
    keys = sorted(groups)
    total = 1
    for k in keys:
        total *= math.factorial(len(groups[k]))
    yield list(first)
    if total == 1:
        return
    if total > MAX_ORDERS:
        return
    for combo in itertools.product(*[itertools.permutations(groups[k]) for k in keys]):
        o = [j for g in combo for j in g]
        if o != list(first):
            yield o


# ----------------------------------------------------------------------------------------------
# running the real kernels
# ----------------------------------------------------------------------------------------------
def csr_of_rows(rng_perm, rows):
    """CSR arrays whose row r holds the real entries of list row r in a random storage order"""
    indptr = [0]; indices = []; data = []; stor = []
    for (i, kind, idx, lens) in rows:
        ent = [(v, l) for v, l in zip(idx, lens) if v >= 0]
        perm = list(range(len(ent)))
        rng_perm.shuffle(perm)
        ent = [ent[p] for p in perm]
        stor.append(ent)
        indices += [e[0] for e in ent]; data += [e[1] for e in ent]
        indptr.append(len(indices))
    return (np.array(indptr, dtype=np.int32), np.array(indices, dtype=np.int32),
            np.array(data, dtype=np.float32), stor)


def run_kernels(case, p, csr):
    X, S = case["X"], case["S"]
    name, fd, fs = METRICS[case["mi"]]
    K = case["K"]
    I0 = np.array([r[2] for r in case["rows"]], dtype=np.int32).reshape(-1, K)
    D0 = np.array([r[3] for r in case["rows"]], dtype=np.float32).reshape(-1, K)
    st = case["rng_state"]
    out = {}
    I, D = I0.copy(), D0.copy()
    pn.diversify(I, D, X, fd, st.copy(), p)
    out["dense_list"] = (I, D)
    I, D = I0.copy(), D0.copy()
    psp.diversify(I, D, S.indices, S.indptr, S.data, fs, st.copy(), p)
    out["sparse_list"] = (I, D)
    indptr, indices, data, _ = csr
    d = data.copy()
    pn.diversify_csr(indptr, indices, d, X, fd, st.copy(), p)
    out["dense_csr"] = d
    d = data.copy()
    psp.diversify_csr(indptr, indices, d, S.indptr, S.indices, S.data, fs, st.copy(), p)
    out["sparse_csr"] = d
    return out


def draws_for(case, r, p, count):
    s = case["rng_state"] + r
    return [1 if tau_rand(s) < p else 0 for _ in range(count)]


def list_flags(idx_in, len_in, idx_out, len_out):
    """keep flags of the stored positions, by matching the output as a subsequence of the input
    (bit patterns); None if it is not one or the padding is not (-1, inf)"""
    K = len(idx_in)
    bi = np.asarray(len_in, dtype=np.float32).view(np.uint32)
    bo = np.asarray(len_out, dtype=np.float32).view(np.uint32)
    n_out = K
    for t in range(K):
        if idx_out[t] == -1 and bo[t] == 0x7f800000 and all(idx_out[u] == -1 and bo[u] == 0x7f800000 for u in range(t, K)):
            n_out = t
            break
    keep = [False] * K
    pos = 0
    for t in range(n_out):
        while pos < K and not (idx_in[pos] == idx_out[t] and bi[pos] == bo[t]):
            pos += 1
        if pos == K:
            return None
        keep[pos] = True
        pos += 1
    return keep


def live_prefix(idx):
    """stored positions the list kernels look at: position 0, then up to the first negative index"""
    n = 1 if len(idx) else 0
    while n < len(idx) and idx[n] >= 0:
        n += 1
    return n


# ----------------------------------------------------------------------------------------------
def mode_tok(p):
    return {1.0: "p1", 0.0: "p0"}.get(p, "d")


def list_line(case, r, p, T):
    i, kind, idx, lens = case["rows"][r]
    npts = case["X"].shape[0]
    K = case["K"]
    l = "div-list %d %s | %s | %s | %d %s" % (f32bits(EPS32), mode_tok(p), ints_row(idx), bits_row(lens), npts, f64bits_row(T))
    if mode_tok(p) == "d":
        l += " | " + ints_row(draws_for(case, r, p, K * K))
    return l


def csr_line(case, r, p, T, ent, order):
    npts = case["X"].shape[0]
    n = len(ent)
    l = "div-csr %d %s | %s | %s | %s | %d %s" % (f32bits(EPS32), mode_tok(p), ints_row([e[0] for e in ent]),
                                               bits_row([e[1] for e in ent]), ints_row(order), npts, f64bits_row(T))
    if mode_tok(p) == "d":
        l += " | " + ints_row(draws_for(case, r, p, max(1, n * n)))
    return l


def check_case(res, case, rng):
    name = case["metric"]
    K = case["K"]; rows = case["rows"]
    Td, Ts = case["Td"], case["Ts"]
    same_tab = np.array_equal(Td.view(np.uint64), Ts.view(np.uint64))
    res.count("tables_dense_eq_sparse" if same_tab else "tables_dense_ne_sparse")
    csr = csr_of_rows(rng, rows)
    indptr, indices, data, stor = csr
    nb_orders = [[int(x) for x in _nb_argsort(data[indptr[r]:indptr[r + 1]])] for r in range(len(rows))]
    ok_all = True
    keeps = {}
    for p in (1.0, 0.0, 0.5):
        out = run_kernels(case, p, csr)
        # ---------------- list kernels ----------------
        for kern, T in (("dense_list", Td), ("sparse_list", Ts)):
            lines = [list_line(case, r, p, T) for r in range(len(rows))]
            # dense kernel: every row ALSO through the TRANSLATED `pynndescent_.diversify` (Gen/SearchGraphKernels.lean, regenerated
            # from the source text by harness/translate_searchgraph.py; `gk-div-list`, same input incl. the recorded draws)
            glines = ["gk-" + l for l in lines] if kern == "dense_list" else []
            model = run_driver(lines + glines)
            trans, model = model[len(lines):], model[:len(lines)]
            I, D = out[kern]
            for r in range(len(trans)):
                res.count("translated:compared")
                want = "%s ; %s" % (ints_row(I[r]), bits_row(D[r]))
                if trans[r].strip() != want:
                    res.corr_fail("translated-kernel:diversify", {"metric": name, "p": p, "row": r, "line": lines[r][:400]}, trans[r][:300], want[:300])
                    ok_all = False
            for r, (i, kind, idx, lens) in enumerate(rows):
                impl = "%s ; %s" % (ints_row(I[r]), bits_row(D[r]))
                mparts = model[r].split(" ; ")
                mstr = " ; ".join(mparts[:2])
                rcase = {"kernel": kern, "metric": name, "p": p, "row": r, "point": i, "kind": kind, "idx": [int(v) for v in idx],
                         "len_bits": bits_row(lens), "X": case["X"].tolist(), "rng_state": case["rng_state"].tolist()}
                if mstr != impl:
                    res.corr_fail("%s_bit_exact" % kern, rcase, mstr, impl); ok_all = False
                keep = list_flags(idx, lens, I[r], D[r])
                if keep is None:
                    res.violation("diversify:%s:not-sublist" % kern, "output row is not the input row with entries removed and (-1, inf) padding", rcase)
                    continue
                keeps[(kern, p, r)] = keep
                if idx[0] < 0:                              # a row without any neighbour: nothing to decide
                    res.count("list_rows_empty")
                    if [int(v) for v in I[r]] != [int(v) for v in idx]:
                        res.violation("diversify:%s:not-sublist" % kern, "a row starting with -1 was changed", rcase)
                    res.case((kern, name, "empty", idx), False)
                    continue
                n = live_prefix(idx)
                ent = [(int(v), float(l)) for v, l in zip(idx, lens)]
                order = list(range(n))
                if any(keep[n:]):
                    res.violation("diversify:%s:kept-after-sentinel" % kern, "an entry after the first -1 was kept", rcase)
                kp = keep[:n]
                if n and not kp[0]:
                    res.violation("diversify:%s:nearest" % kern, "the first (nearest) entry was removed", rcase)
                if p == 1.0:
                    if all(v >= 0 for v in idx[:n]) and not rule_ok(T, ent, order, kp):
                        res.violation("diversify:%s:rule" % kern, "retained set does not satisfy the occlusion rule", {**rcase, "keep": kp})
                    occluded = n - sum(kp)
                    res.count("list_rows_p1"); res.count("list_occluded", occluded); res.count("list_retained", sum(kp))
                    res.case((kern, name, case["X"].tolist(), idx, bits_row(lens)), occluded >= 1 and sum(kp) >= 2,
                             sample={"kernel": kern, "metric": name, "idx": [int(v) for v in idx], "len": [float(l) for l in lens], "keep": kp})
                elif p == 0.0:
                    if not all(kp):
                        res.violation("diversify:%s:prob0" % kern, "probability 0 removed an entry", rcase)
                    res.case((kern, name, "p0", idx, bits_row(lens)), False)
                else:
                    if all(v >= 0 for v in idx[:n]) and not justified(T, ent, order, kp):
                        res.violation("diversify:%s:removal-without-occluder" % kern, "p=0.5 removed an entry no retained earlier entry occludes", rcase)
                    res.count("list_p05_removed", n - sum(kp))
                    res.case((kern, name, "p.5", idx, bits_row(lens)), False)
        # ---------------- csr kernels ----------------
        for kern, T in (("dense_csr", Td), ("sparse_csr", Ts)):
            d = out[kern]
            first = [csr_line(case, r, p, T, stor[r], nb_orders[r]) for r in range(len(rows))]
            model = run_driver(first)
            for r in range(len(rows)):
                ent = stor[r]
                n = len(ent)
                ind = data[indptr[r]:indptr[r + 1]]
                outd = d[indptr[r]:indptr[r + 1]]
                lens = [float(e[1]) for e in ent]
                entf = [(int(e[0]), float(e[1])) for e in ent]
                tied = len(set(lens)) < n
                rcase = {"kernel": kern, "metric": name, "p": p, "row": r, "idx": [int(e[0]) for e in ent], "len_bits": bits_row(ind),
                         "X": case["X"].tolist(), "rng_state": case["rng_state"].tolist()}
                implstr = bits_row(outd) if n else ""
                # keep flags of the real output: an entry is removed iff its datum was overwritten by +0.0
                # (an input that already is +0.0 cannot be told apart; it counts as kept, and no rule can remove it: d >= 0)
                keep = [not (outd[j].view(np.uint32) == 0 and ind[j].view(np.uint32) != 0) for j in range(n)]
                keeps[(kern, p, r)] = keep
                mdata = model[r].split(" ; ")[1] if " ; " in model[r] else model[r]
                matched = (mdata.strip() == implstr)
                used = "numba-order"
                orders_tried = 1
                if not matched and tied:
                    cand = list(tie_orders(lens, nb_orders[r]))[1:]
                    if cand:
                        ml = run_driver([csr_line(case, r, p, T, ent, o) for o in cand])
                        orders_tried += len(cand)
                        for o, m in zip(cand, ml):
                            if m.split(" ; ")[1].strip() == implstr:
                                matched = True; used = "brute-force"
                                break
                res.count("csr_%s_%s" % ("tied" if tied else "tiefree", used if matched else "UNMATCHED"))
                if not matched:
                    res.corr_fail("%s_%s" % (kern, "some_tie_order" if tied else "bit_exact"), {**rcase, "orders_tried": orders_tried}, model[r], implstr)
                    ok_all = False
                if n == 0:
                    continue
                if any(outd[j].view(np.uint32) != ind[j].view(np.uint32) and outd[j].view(np.uint32) != 0 for j in range(n)):
                    res.violation("diversify:%s:data-changed" % kern, "a retained entry's length was changed", rcase)
                mn = min(lens)
                if not any(keep[j] for j in range(n) if lens[j] == mn):
                    res.violation("diversify:%s:nearest" % kern, "no entry of minimal length was retained", rcase)
                orders = list(tie_orders(lens, nb_orders[r]))
                if p == 1.0:
                    if not any(rule_ok(T, entf, o, keep) for o in orders):
                        res.violation("diversify:%s:rule" % kern, "retained set satisfies the occlusion rule for no ascending visiting order (%d tried)" % len(orders),
                                      {**rcase, "keep": keep})
                    occluded = n - sum(keep)
                    res.count("csr_rows_p1"); res.count("csr_occluded", occluded)
                    res.case((kern, name, case["X"].tolist(), rcase["idx"], rcase["len_bits"]), occluded >= 1 and sum(keep) >= 2,
                             sample=None)
                elif p == 0.0:
                    if not all(keep):
                        res.violation("diversify:%s:prob0" % kern, "probability 0 removed an entry", rcase)
                    res.case((kern, name, "p0", rcase["idx"], rcase["len_bits"]), False)
                else:
                    if not any(justified(T, entf, o, keep) for o in orders):
                        res.violation("diversify:%s:removal-without-occluder" % kern, "p=0.5 removed an entry no retained earlier entry occludes", rcase)
                    res.count("csr_p05_removed", n - sum(keep))
                    res.case((kern, name, "p.5", rcase["idx"], rcase["len_bits"]), False)
        # ---------------- the four kernels agree on corresponding inputs ----------------
        if same_tab:
            for r, (i, kind, idx, lens) in enumerate(rows):
                rc = {"metric": name, "p": p, "row": r, "idx": [int(v) for v in idx], "len_bits": bits_row(lens), "X": case["X"].tolist(),
                      "rng_state": case["rng_state"].tolist()}
                a, b = keeps.get(("dense_list", p, r)), keeps.get(("sparse_list", p, r))
                if a is not None and b is not None and a != b:
                    res.violation("diversify:dense_list~sparse_list:agree", "dense and sparse list kernels decide differently", rc)
                a, b = keeps.get(("dense_csr", p, r)), keeps.get(("sparse_csr", p, r))
                if a is not None and b is not None and a != b:
                    res.violation("diversify:dense_csr~sparse_csr:agree", "dense and sparse CSR kernels decide differently", rc)
                # list vs CSR: same visiting order required -> row without a -1 hole, ascending, and either tie-free
                # or numba's argsort returning exactly the stored order of the list row
                n = live_prefix(idx)
                live = [(int(v), float(l)) for v, l in zip(idx[:n], lens[:n])]
                if n == 0 or any(v < 0 for v in idx[:n]) or any(v >= 0 for v in idx[n:]):
                    res.count("agree_skipped_sentinel"); continue
                if any(live[t][1] > live[t + 1][1] for t in range(n - 1)):
                    res.count("agree_skipped_unsorted"); continue
                ent = stor[r]
                vis = [(int(ent[j][0]), float(ent[j][1])) for j in nb_orders[r]]
                if vis != live:
                    res.count("agree_skipped_tie_order"); continue
                res.count("agree_list_vs_csr_compared")
                kl = keeps.get(("dense_list", p, r)); kc = keeps.get(("dense_csr", p, r))
                if kl is None or kc is None:
                    continue
                # compared as sequences of retained ENTRIES: when a row names a neighbour twice at the same length the two
                # copies are indistinguishable in the list kernel's output (which copy survived a p=0.5 draw is not observable)
                if [live[t] for t in range(n) if kl[t]] != [vis[t] for t, j in enumerate(nb_orders[r]) if kc[j]]:
                    res.violation("diversify:dense_list~dense_csr:agree", "list and CSR kernels decide differently on the same visiting order", rc)
    res.traces += 1
    return ok_all


def api_stage(res, seed):
    """every call site of the four kernels in NNDescent._init_search_graph hands the index's diversify_prob on: with probability 0
    nothing may be removed, so before the degree bound bites the search-graph row of u is its list united with the reverse edges;
    with probability 1 the retained set satisfies the occlusion rule (harness/c16.py predicts it exactly). dense / CSR x compressed."""
    import scipy.sparse as sp
    from pynndescent import NNDescent
    nrng = np.random.default_rng([seed, 1515])
    n, k, dim = 120, 5, 6
    for sparse in (False, True):
        for compressed in (False, True):
            X = nrng.standard_normal((n, dim)).astype(np.float32)
            X[n - 12:] = X[:12]                          # exact duplicates: edges of length 0 (nothing can occlude them)
            if sparse:
                X = sp.csr_matrix(X * (nrng.random((n, dim)) < 0.8))
            cfg = {"sparse": sparse, "compressed": compressed, "n": n, "k": k, "diversify_prob": 0.0, "pruning_degree_multiplier": 4.0}
            idx = NNDescent(X, metric="euclidean", n_neighbors=k, random_state=int(nrng.integers(10 ** 6)), diversify_prob=0.0,
                            pruning_degree_multiplier=4.0, compressed=compressed)
            I = idx._neighbor_graph[0].copy()
            idx._init_search_graph()
            G = idx._search_graph.tocsr(); vo = np.asarray(idx._vertex_order)
            lists = [set(int(v) for v in I[u] if v >= 0) - {u} for u in range(n)]
            m = int(round(4.0 * k))
            missing = 0; worst = None
            for a in range(n):
                u = int(vo[a])
                S = {int(vo[b]) for b, v in zip(G.indices[G.indptr[a]:G.indptr[a + 1]], G.data[G.indptr[a]:G.indptr[a + 1]]) if v != 0}
                U = lists[u] | {w for w in range(n) if u in lists[w]}
                if len(U) <= m and U - S:
                    missing += len(U - S); worst = worst or (u, sorted(U - S)[:5])
            res.case(("api-p0", sparse, compressed, seed), True, sample=cfg); res.count("api_prob0_indexes"); res.traces += 1
            if missing:
                res.violation("diversify:api:prob0:%s:%s" % ("csr" if sparse else "dense", "compressed" if compressed else "plain"),
                              "diversify_prob=0.0 must remove nothing, but %d k-neighbour edges are missing from the search graph (e.g. point %d lost %r)"
                              % (missing, worst[0], worst[1]), cfg)


def run(res, tier, seed, search):
    api_stage(res, seed)
    rng = random.Random(seed * 7919 + 15)
    n = 60 if tier == "quick" else 600
    if search:
        n *= 3
    res.rule = ("rows of tiny integer-coordinate datasets (3..12 points, planted duplicates) under euclidean / manhattan / sqeuclidean, "
                "width 1..7, kinds true-distance / arbitrary tie-heavy lengths incl. 0, EPS/2, EPS, EPS+ulp / unsorted / -1 hole / empty / "
                "repeated neighbour / without self; -1 padding; CSR twin in random storage order; each row through 4 kernels x p in {1, 0, 0.5}; "
                "non-trivial = p=1 row with >=1 occluded entry and >=1 retained entry after the first; distinct = hash of (kernel, metric, data, row)")
    for c in range(n):
        case = gen_case(rng, c % len(METRICS))
        res.count("metric_" + case["metric"])
        for r in case["rows"]:
            res.count("kind_" + r[1])
        check_case(res, case, rng)


if __name__ == "__main__":
    std_main("C15", run)
