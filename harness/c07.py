"""C07 — every dense metric computes its documented definition, is symmetric, never
NaN, and gives identical inputs the closest value.  Checked on the REAL numba
kernels of `pynndescent.distances.named_distances` against the independent float64
reference of harness/refmetrics.py under its tolerance rule.

Violation keys: metric:<name>:<kind>, kind in {nan, asym, identity, value, exception}
(plus the qualified corner metric:true_angular:value:sentinel, see refmetrics notes).
"""
import sys, os, json, zlib, math, itertools
sys.path.insert(0, os.path.dirname(os.path.dirname(os.path.abspath(__file__))))
from harness.common import *
setup_numba_cache()
import warnings
import numpy as np
from pynndescent import distances as D
from harness import refmetrics as R
import numba
# two worker threads: the only parallel kernel reached from here (sinkhorn's K_from_cost, a few dozen
# entries) costs ~85 ms per call in barrier waits with 16 threads on a loaded machine, 0.02 ms with 2
numba.set_num_threads(min(2, numba.get_num_threads()))

F32MAX = R.F32MAX
DIMS_REAL = [1, 2, 3, 5, 8, 16, 33, 64]
DIMS_ADV = [2, 3, 5, 8, 16, 64]
DIMS_OT = [2, 3, 4, 6, 8]                      # kantorovich / sinkhorn (reference is an LP / a fixed point)
DIMS_BIN = [5, 8, 16, 33, 64, 200]
DIMS_BITS = [1, 2, 3, 8, 16, 32]
EXTREME_SCALES = [1e-18, 1e-12, 1e-6, 1e6, 1e12, 1e18]
EXTREME_MULT = [0.0, 1.0, -1.0, 1.5, -1.5, 2.0, -2.0, 2.5, -2.5]   # differences are 0 or >= 0.5: squares stay normal
EXTREME_DIMS = [2, 3, 5]
MAX_PER_KEY = 2                                # listed violations per key (all are counted)


def f32(a):
    return np.ascontiguousarray(np.asarray(a, dtype=np.float64).astype(np.float32))


def u8(a):
    return np.ascontiguousarray(np.asarray(a, dtype=np.uint8))


# --------------------------------------------------------------------------
# generators: each returns a list of (kind, x, y); sizes are fixed per tier
# --------------------------------------------------------------------------
def binary_exhaustive(maxdim):
    out = []
    for d in range(1, maxdim + 1):
        vs = [f32(v) for v in itertools.product([0.0, 1.0], repeat=d)]
        for a in vs:
            for b in vs:
                out.append(("binary-exhaustive", a.copy(), b.copy()))
    return out


def gen_real(rng, spec, n, maxdim_exh):
    out = []
    dims = DIMS_REAL
    for d in dims:
        for _ in range(n):
            out.append(("normal", f32(rng.normal(size=d)), f32(rng.normal(size=d))))
        for _ in range(n):
            out.append(("smallint", f32(rng.integers(-2, 4, d)), f32(rng.integers(-2, 4, d))))
        for _ in range(max(n // 3, 2)):
            out.append(("01-random", f32(rng.integers(0, 2, d)), f32(rng.integers(0, 2, d))))
    out += binary_exhaustive(maxdim_exh)
    reps = max(n // 6, 1)
    for d in DIMS_ADV:
        for _ in range(reps):
            x = f32(rng.normal(size=d))
            out.append(("identical", x, x.copy()))
            for c in (0.5, 2.0, 3.0, -1.0, 1e-3, 1e3, 1.0 + 2.0 ** -10, -0.25):
                out.append(("scaled", x, f32(c * x.astype(np.float64))))
            for eps in (1e-3, 1e-5, 1e-7):
                out.append(("nearly-parallel", x, f32(x + eps * rng.normal(size=d))))
            h = d // 2
            a = np.zeros(d); b = np.zeros(d)
            a[:h] = rng.normal(size=h); b[h:] = rng.normal(size=d - h)
            out.append(("disjoint", f32(a), f32(b)))
            o = np.zeros(d); o[0], o[1] = -x[1], x[0]
            xx = np.zeros(d); xx[0], xx[1] = x[0], x[1]
            out.append(("orthogonal", f32(xx), f32(o)))
            c1 = float(np.float32(rng.integers(1, 5)))
            out.append(("constant", f32(np.full(d, c1)), f32(rng.normal(size=d))))
            out.append(("constant", f32(np.full(d, c1)), f32(np.full(d, float(rng.integers(-3, 4))))))
            out.append(("constant", f32(np.full(d, 0.1)), f32(np.full(d, 0.7))))
            z = np.zeros(d)
            out.append(("zero", f32(z), x)); out.append(("zero", x, f32(z))); out.append(("zero", f32(z), f32(z)))
    if spec["extreme"]:
        for s in EXTREME_SCALES:
            for d in EXTREME_DIMS:
                for _ in range(max(n // 4, 2)):
                    mx = rng.choice(EXTREME_MULT, d); my = rng.choice(EXTREME_MULT, d)
                    out.append(("extreme", f32(s * mx), f32(s * my)))
        for _ in range(n):
            d = int(rng.choice(EXTREME_DIMS))
            s1, s2 = rng.choice(EXTREME_SCALES, 2)
            out.append(("extreme-mixed", f32(s1 * rng.choice(EXTREME_MULT, d)), f32(s2 * rng.choice(EXTREME_MULT, d))))
    return out


def _mass(rng, d, style):
    while True:
        if style == "uniform":
            v = rng.uniform(0.0, 1.0, d); v[rng.uniform(size=d) < 0.3] = 0.0
        else:
            v = rng.integers(0, 4, d).astype(np.float64)
        if v.sum() > 0:
            return v


def gen_mass(rng, spec, n, maxdim_exh, dims):
    out = []
    for d in dims:
        for _ in range(n):
            out.append(("uniform-zeros", f32(_mass(rng, d, "uniform")), f32(_mass(rng, d, "uniform"))))
        for _ in range(n):
            out.append(("counts", f32(_mass(rng, d, "counts")), f32(_mass(rng, d, "counts"))))
    out += [p for p in binary_exhaustive(min(maxdim_exh, max(dims)))]
    reps = max(n // 6, 1)
    for d in [k for k in dims if k >= 2]:
        for _ in range(reps):
            x = f32(_mass(rng, d, "uniform"))
            out.append(("identical", x, x.copy()))
            for c in (0.5, 2.0, 3.0, 1e3, 1e-3):
                out.append(("scaled", x, f32(c * x.astype(np.float64))))
            for eps in (1e-3, 1e-5):
                out.append(("nearly-identical", x, f32(x + eps * rng.uniform(size=d) * (x > 0))))
            h = d // 2
            a = np.zeros(d); b = np.zeros(d)
            a[:h] = rng.uniform(0.1, 1, h); b[h:] = rng.uniform(0.1, 1, d - h)
            out.append(("disjoint", f32(a), f32(b)))
            i, j = rng.integers(0, d, 2)
            e1 = np.zeros(d); e1[i] = 1.0; e2 = np.zeros(d); e2[j] = 2.0
            out.append(("point-mass", f32(e1), f32(e2)))
            out.append(("point-mass", f32(e1), f32(np.ones(d))))
            z = np.zeros(d)
            out.append(("zero", f32(z), x)); out.append(("zero", x, f32(z))); out.append(("zero", f32(z), f32(z)))
    if spec["extreme"]:
        mult = [0.0, 1.0, 1.5, 2.0, 2.5]
        for s in EXTREME_SCALES:
            for d in EXTREME_DIMS:
                for _ in range(max(n // 4, 2)):
                    mx = rng.choice(mult, d); my = rng.choice(mult, d)
                    mx[0] = 1.0; my[-1] = 2.0
                    out.append(("extreme", f32(s * mx), f32(s * my)))
    return out


def gen_binary(rng, spec, n, maxdim_exh):
    out = binary_exhaustive(maxdim_exh)
    for d in DIMS_BIN:
        for dens in (0.1, 0.5, 0.9):
            for _ in range(n):
                out.append(("01-random", f32(rng.uniform(size=d) < dens), f32(rng.uniform(size=d) < dens)))
        for _ in range(max(n // 3, 1)):
            x = (rng.uniform(size=d) < 0.5).astype(np.float64)
            y = (rng.uniform(size=d) < 0.5).astype(np.float64)
            out.append(("identical", f32(x), f32(x)))
            out.append(("complement", f32(x), f32(1 - x)))
            out.append(("subset", f32(x), f32(x * y)))
            out.append(("disjoint", f32(x * y), f32(x * (1 - y))))
            out.append(("all-ones", f32(np.ones(d)), f32(x)))
            out.append(("all-ones", f32(np.ones(d)), f32(np.ones(d))))
            out.append(("zero", f32(np.zeros(d)), f32(x)))
            out.append(("zero", f32(np.zeros(d)), f32(np.zeros(d))))
            # non-zero-ness, not value: entries other than 1
            out.append(("nonunit-values", f32(x * rng.normal(size=d) * 3), f32(y * rng.choice([-2.0, 0.5, 7.0], d))))
    return out


BYTES_SEL = [0, 255, 1, 2, 4, 8, 16, 32, 64, 128, 3, 0x0F, 0xF0, 0xAA, 0x55, 0x7F, 0xFE, 0x81, 0x18, 0x3C, 0xC3, 0x66, 0x99, 0x10]


def gen_bits(rng, spec, n, maxdim_exh):
    out = []
    for a in BYTES_SEL:
        for b in BYTES_SEL:
            out.append(("byte-pairs", u8([a]), u8([b])))
    for d in DIMS_BITS:
        for _ in range(2 * n):
            out.append(("random-bytes", u8(rng.integers(0, 256, d)), u8(rng.integers(0, 256, d))))
        for _ in range(max(n // 2, 1)):
            x = u8(rng.integers(0, 256, d)); y = u8(rng.integers(0, 256, d))
            out.append(("identical", x, x.copy()))
            out.append(("complement", x, u8(~x)))
            out.append(("subset", x, u8(x & y)))
            out.append(("disjoint", u8(x & y), u8(x & ~y)))
            out.append(("sparse-bits", u8(x & y & u8(rng.integers(0, 256, d))), u8(y & u8(rng.integers(0, 256, d)))))
            out.append(("zero", u8(np.zeros(d)), x)); out.append(("zero", u8(np.zeros(d)), u8(np.zeros(d))))
            out.append(("all-ones", u8(np.full(d, 255)), x))
    return out


def gen_latlon(rng, spec, n, maxdim_exh):
    out = []
    hp, pi = math.pi / 2, math.pi

    def pt():
        return [rng.uniform(-hp, hp), rng.uniform(-pi, pi)]
    for _ in range(12 * n):
        out.append(("random", f32(pt()), f32(pt())))
    for _ in range(3 * n):
        p = pt()
        out.append(("identical", f32(p), f32(p)))
        for eps in (1e-2, 1e-4, 1e-6):
            out.append(("near-identical", f32(p), f32([p[0] + eps * rng.normal(), p[1] + eps * rng.normal()])))
        lon2 = p[1] + pi if p[1] <= 0 else p[1] - pi
        out.append(("antipodal", f32(p), f32([-p[0], lon2])))
        out.append(("near-antipodal", f32(p), f32([-p[0] + 1e-3 * rng.normal(), lon2 + 1e-3 * rng.normal()])))
        out.append(("same-meridian", f32(p), f32([rng.uniform(-hp, hp), p[1]])))
        out.append(("equator", f32([0.0, p[1]]), f32([0.0, rng.uniform(-pi, pi)])))
        out.append(("pole", f32([hp, p[1]]), f32(pt())))
        out.append(("pole", f32([hp, p[1]]), f32([-hp, rng.uniform(-pi, pi)])))
        out.append(("pole", f32([hp, p[1]]), f32([hp, rng.uniform(-pi, pi)])))
        out.append(("lon-wrap", f32([p[0], pi]), f32([p[0], -pi])))
    return out


def normalise(v):
    n = math.sqrt(float(np.dot(v.astype(np.float64), v.astype(np.float64))))
    if n == 0.0 or not math.isfinite(n):
        return None
    return f32(v.astype(np.float64) / n)


def pairs_for(name, rng, tier, search):
    """(kind, x, y, kwds) for one public name; fixed sizes per tier."""
    s = R.SPEC[name]
    n = 12 if tier == "quick" else 384
    if search:
        n *= 3
    exh = 4 if tier == "quick" else 5
    dom = s["domain"]
    if dom == "real":
        raw = gen_real(rng, s, n, exh)
    elif dom == "nonneg_mass":
        heavy = name in ("kantorovich", "wasserstein", "sinkhorn")
        raw = gen_mass(rng, s, max(n // 2, 4) if heavy else n, exh, DIMS_OT if heavy else DIMS_REAL)
    elif dom == "binary":
        raw = gen_binary(rng, s, n, exh)
    elif dom == "bits":
        raw = gen_bits(rng, s, n, exh)
    else:
        raw = gen_latlon(rng, s, n, exh)
    out = []
    for kind, x, y in raw:
        zx, zy = not np.any(x), not np.any(y)
        if (zx or zy) and s["zero"] == "never":
            continue
        if s["unit_norm"]:
            x, y = normalise(x), normalise(y)
            if x is None or y is None:
                continue
        kw = s["kwds_gen"](rng, len(x))
        if kind.startswith("extreme") and isinstance(kw.get("p"), int) and kw["p"] > 2:
            kw["p"] = [1, 2, 0.5, 1.5, 3.0][int(rng.integers(5))]      # N5: |d|**p stays float32 for integer p
        out.append((kind, x, y, kw))
    # every discrete option of every metric argument, on a few generic pairs each
    base = [(k, x, y) for (k, x, y, _) in out if k in ("normal", "uniform-zeros", "counts", "smallint")]
    for i in range(6 if tier == "quick" else 48):
        if not base:
            break
        k, x, y = base[(i * 37) % len(base)]
        for kw in R.kwds_sweep(name, rng, len(x)):
            out.append(("kwds-sweep", x, y, kw))
    return out


# --------------------------------------------------------------------------
# the check on one pair
# --------------------------------------------------------------------------
class Reporter:
    def __init__(self, res):
        self.res = res
        self.listed = {}

    def violation(self, key, what, case):
        k = self.listed.get(key, 0)
        self.listed[key] = k + 1
        if k < MAX_PER_KEY:
            self.res.violation(key, what, case)
        else:
            self.res.count("violation:" + key)


def call(f, x, y, args):
    try:
        return "ok", float(f(x, y, *args))
    except Exception as e:                       # kernels raise ZeroDivisionError / ValueError
        return "exc", "%s: %s" % (type(e).__name__, e)


def canonical(name):
    """Violations are keyed by the first public name bound to the same kernel (aliases share findings)."""
    f = D.named_distances[name]
    for n, g in D.named_distances.items():
        if g is f:
            return n
    return name


def check_pair(rep, name, kind, x, y, kw):
    res = rep.res
    s = R.SPEC[name]
    f = D.named_distances[name]
    cname = canonical(name)
    args = [kw[k] for k in s["argorder"]]
    case = {"metric": name, "gen": kind, "dtype": str(x.dtype), "x": x.tolist(), "y": y.tolist(),
            "kwds": R.kwds_to_json(kw)}
    zx, zy = not np.any(x), not np.any(y)
    same = bool(np.array_equal(x, y))
    nontrivial = (not same) and not zx and not zy
    res.case((name, x.tobytes().hex(), y.tobytes().hex(), repr(R.kwds_to_json(kw))), nontrivial,
             sample={"metric": name, "x": x.tolist()[:6], "y": y.tolist()[:6]})
    res.count("metric:" + name); res.count("gen:" + kind)
    x0, y0 = x.copy(), y.copy()
    vals = {}
    for tag, (a, b) in (("xy", (x, y)), ("yx", (y, x)), ("xx", (x, x.copy())), ("yy", (y, y.copy()))):
        vals[tag] = call(f, a, b, args)
    if not (np.array_equal(x, x0) and np.array_equal(y, y0)):
        rep.violation("metric:%s:exception" % cname, "kernel modified its input arrays", case)
    excs = [(t, v[1]) for t, v in vals.items() if v[0] == "exc"]
    if excs:
        rep.violation("metric:%s:exception" % cname, "raises %s on f(%s)" % (excs[0][1], excs[0][0]), case)
        return False
    fxy, fyx, fxx, fyy = (vals[t][1] for t in ("xy", "yx", "xx", "yy"))
    ok = True
    if any(math.isnan(v) for v in (fxy, fyx, fxx, fyy)):
        rep.violation("metric:%s:nan" % cname, "NaN: f(x,y)=%r f(y,x)=%r f(x,x)=%r f(y,y)=%r" % (fxy, fyx, fxx, fyy), case)
        return False
    scale = R.abs_scale(name, x, y, kw)
    res.count("checked:nan"); res.count("checked:asym")
    if not R.close(fxy, fyx, name, scale):
        rep.violation("metric:%s:asym" % cname, "f(x,y)=%r but f(y,x)=%r" % (fxy, fyx), case); ok = False
    undefined = (zx or zy) and s["zero"] == "undefined"
    if s["identity"]:
        for tag, v, z, vec in (("x", fxx, zx, x), ("y", fyy, zy, y)):
            if z and s["zero"] == "undefined":
                continue
            res.count("checked:identity")
            if not R.close(v, s["self_value"], name, R.abs_scale(name, vec, vec, kw)):
                rep.violation("metric:%s:identity" % cname,
                              "f(%s,%s)=%r, expected %r" % (tag, tag, v, s["self_value"]), case); ok = False
                break
    if not undefined:
        try:
            with warnings.catch_warnings():
                warnings.simplefilter("ignore")
                r = s["ref"](x, y, **kw)
        except Exception as e:                   # the reference itself failed (e.g. LP solver status): not a verdict
            res.count("reference-error")
            if len(res.notes) < 8:
                res.notes.append("reference failed for %s: %s: %s" % (name, type(e).__name__, e))
            r = None
        if r is not None:
            res.count("checked:value")
            band = s["band"](x, y, kw, scale) if s["band"] is not None else None
            if not R.close(fxy, r, name, scale, band):
                key = "metric:%s:value" % cname
                if s["orientation"] == "similarity" and fxy == F32MAX:
                    key += ":sentinel"
                rep.violation(key, "f(x,y)=%r, reference %r (tolerance scale %.3g)" % (fxy, r, scale), case)
                ok = False
    return ok


def run(res, tier, seed, search):
    from harness import c07_model, c07_model2
    c07_model2.run_model2(res, np.random.default_rng([seed, 7092]), 40 if tier == "quick" else 600)
    c07_model.run_model(res, np.random.default_rng([seed, 709]), 40 if tier == "quick" else 600)   # Lean model (Float) vs real kernels / ufuncs
    res.rule = ("per public name of named_distances: generated pairs in the metric's domain (random reals / small "
                "integers / 0-1; non-negative mass with zeros; ALL 0/1 pairs for dim <= %d; bit-packed uint8; "
                "lat-lon), adversarial (identical, scaled, nearly parallel, orthogonal, disjoint supports, zero, "
                "constant, antipodal, extreme magnitudes 1e-18..1e18 where N5 allows), every metric argument; on "
                "each pair the real kernel is evaluated as f(x,y), f(y,x), f(x,x), f(y,y): no NaN, no exception, "
                "symmetric, self value closest, f(x,y) close to the float64 reference (refmetrics.close); "
                "non-trivial = x != y and neither all-zero; distinct = hash of (name, x, y, kwds); dim < 65536 only "
                "(D13)" % (4 if tier == "quick" else 5))
    missing = sorted(set(D.named_distances) - set(R.SPEC))
    extra = sorted(set(R.SPEC) - set(D.named_distances))
    rep = Reporter(res)
    for m in missing:
        rep.violation("metric:%s:exception" % m, "public name without a reference specification", {"metric": m})
    if extra:
        res.notes.append("specified but not public: %s" % extra)
    corpus = os.path.join(VERIF, "corpus", "C07.jsonl")
    if os.path.exists(corpus):
        for l in open(corpus):
            if l.strip():
                replay_case(rep, json.loads(l)); res.count("corpus")
    # one wide optimal-transport pair: more than 65536 arcs (node / arc counters beyond 16 bits)
    wrng = np.random.default_rng([seed, 260])
    wn = 260
    wx = wrng.integers(1, 5, wn).astype(np.float32); wy = wrng.integers(1, 5, wn).astype(np.float32)
    wC = np.abs(np.subtract.outer(np.arange(wn), np.arange(wn))).astype(np.float64)
    check_pair(rep, "kantorovich", "wide-support", wx, wy, {"cost": wC})
    for name in D.named_distances:
        if name not in R.SPEC:
            continue
        rng = np.random.default_rng([seed, zlib.crc32(name.encode())])
        for kind, x, y, kw in pairs_for(name, rng, tier, search):
            check_pair(rep, name, kind, x, y, kw)
    res.notes.append("spec notes: " + json.dumps({n: R.SPEC[n]["notes"] for n in R.canonical_names()}))


def replay_case(rep, case):
    name = case["metric"]
    dt = np.uint8 if case.get("dtype", "float32") == "uint8" else np.float32
    x = np.ascontiguousarray(np.asarray(case["x"], dtype=dt))
    y = np.ascontiguousarray(np.asarray(case["y"], dtype=dt))
    return check_pair(rep, name, case.get("gen", "replay"), x, y, R.kwds_from_json(case.get("kwds", {})))


def replay(res, doc):
    rep = Reporter(res)
    for c in doc.get("cases", []):
        case = c.get("case", c)
        if "metric" in case and "x" in case:
            replay_case(rep, case)


if __name__ == "__main__":
    std_main("C07", run, replay)
