"""C07 — correspondence of the Lean metric model, part 2 (lean/PynnVerif/Model/Metrics2.lean, executed over
float64 by the driver: `metric2 <kernel> | x… | y… [| args…]`, `rankdata | x…`, `bits <kernel> | x… | y…`, see
lean/PynnVerif/Driver/Metrics2.lean) with the REAL numba kernels of `pynndescent.distances`:

    standardised_euclidean, weighted_minkowski, mahalanobis, haversine, tsss, jensen_shannon_divergence,
    symmetric_kl_divergence, wasserstein_1d, spearmanr, rankdata, bit_hamming, bit_jaccard

`run_model2(res, rng, n_cases)` has the conventions of `c07_model.run_model` (same tolerance rule, same two kinds
of findings) and can be called from harness/c07.py next to it; it also runs on its own:

    /venv/bin/python -m harness.c07_model2 --tier quick --seed 0 --out /tmp/x.json

The kernels run on float32 vectors (metric arguments `sigma`, `w`, `vinv` as float64 arrays of float32-representable
values, as the repository's tests pass them), the model in float64 on the same numbers; values are compared under
`refmetrics.close` (on the value or the pre-image the metric's entry prescribes; for the banded metrics tsss and
wasserstein_1d: close on the value, or model AND kernel inside the reference band), never bit-for-bit —
except `rankdata` (half-integers) and `bit_hamming` (an integer), which must be EQUAL, and infinities (`bit_jaccard`
of disjoint non-empty strings is `+inf` on both sides).

Outside the kernels' domains nothing is generated: zero vectors for `tsss` (the code divides by zero, recorded
finding D7g) and zero mass for `wasserstein_1d` (N7).  `haversine` is also called with `dim != 2`: the kernel's
`ValueError` is the model's `none` (driver output `ValueError`).

A disagreement is reported as `res.corr_fail("metric_model2:<kernel>", …)`; on every disagreement the property
predicate is ALSO evaluated on the real output (value close to the float64 reference of refmetrics) and reported
with `res.violation("metric:<name>:value", …)` when it fails.
"""
import sys, os, math
sys.path.insert(0, os.path.dirname(os.path.dirname(os.path.abspath(__file__))))
from harness.common import *
setup_numba_cache()
import numpy as np
from pynndescent import distances as D
from harness import refmetrics as R
from harness.c07_model import f32, f64bits, bits_row64, from_bits64, gen_pair, KINDS, DIMS

# kernel __name__ -> (public name: tolerance rule / reference / argument generator, domain)
KERNELS2 = {
    "standardised_euclidean": ("seuclidean", "real"),
    "weighted_minkowski": ("wminkowski", "real"),
    "mahalanobis": ("mahalanobis", "real"),
    "haversine": ("haversine", "latlon"),
    "tsss": ("tsss", "real"),
    "spearmanr": ("spearmanr", "real"),
    "jensen_shannon_divergence": ("jensen_shannon", "mass"),
    "symmetric_kl_divergence": ("symmetric_kl", "mass"),
    "wasserstein_1d": ("wasserstein_1d", "mass"),
}
BIT_KERNELS = {"bit_hamming": "bit_hamming", "bit_jaccard": "bit_jaccard"}
NO_ZERO = {"tsss", "wasserstein_1d"}            # zero vectors are outside these kernels' domains
LATLON_KINDS = ["random", "random", "identical", "near-identical", "antipodal", "near-antipodal", "same-meridian",
                "equator", "pole", "pole-pole", "lon-wrap", "dim-3"]
BIT_KINDS = ["random", "random", "identical", "complement", "subset", "disjoint", "zero", "zero-both", "all-ones", "sparse"]
BIT_DIMS = [1, 2, 3, 8, 17]
# tsss: identical / parallel pairs are where the quotient rounds above 1 and the clamp of the cosine is active
TSSS_KINDS = ["normal", "identical", "scaled", "smallint", "identical", "scaled", "nonneg", "identical", "disjoint", "scaled"]
SPEARMAN_KINDS = ["ties", "ties", "perm", "constant", "constant-both", "reversed"]


def u8(a):
    return np.ascontiguousarray(np.asarray(a, dtype=np.uint8))


def gen_latlon(rng, kind):
    hp, pi = math.pi / 2, math.pi
    p = [rng.uniform(-hp, hp), rng.uniform(-pi, pi)]
    q = [rng.uniform(-hp, hp), rng.uniform(-pi, pi)]
    lon2 = p[1] + pi if p[1] <= 0 else p[1] - pi
    if kind == "identical":
        q = list(p)
    elif kind == "near-identical":
        e = [1e-2, 1e-4, 1e-6][int(rng.integers(3))]
        q = [p[0] + e * rng.normal(), p[1] + e * rng.normal()]
    elif kind == "antipodal":
        q = [-p[0], lon2]
    elif kind == "near-antipodal":
        q = [-p[0] + 1e-3 * rng.normal(), lon2 + 1e-3 * rng.normal()]
    elif kind == "same-meridian":
        q = [q[0], p[1]]
    elif kind == "equator":
        p = [0.0, p[1]]; q = [0.0, q[1]]
    elif kind == "pole":
        p = [hp, p[1]]
    elif kind == "pole-pole":
        p = [hp, p[1]]; q = [[-hp, hp][int(rng.integers(2))], q[1]]
    elif kind == "lon-wrap":
        p = [p[0], pi]; q = [p[0], -pi]
    elif kind == "dim-3":                           # ValueError on both sides
        p = p + [0.5]; q = q + [0.25]
    return f32(p), f32(q)


def gen_bits(rng, d, kind):
    x = u8(rng.integers(0, 256, d)); y = u8(rng.integers(0, 256, d))
    if kind == "identical":
        y = x.copy()
    elif kind == "complement":
        y = u8(~x)
    elif kind == "subset":
        y = u8(x & y)
    elif kind == "disjoint":
        x, y = u8(x & y), u8(x & ~y)
    elif kind == "zero":
        x = u8(np.zeros(d))
    elif kind == "zero-both":
        x = u8(np.zeros(d)); y = u8(np.zeros(d))
    elif kind == "all-ones":
        x = u8(np.full(d, 255))
    elif kind == "sparse":
        x = u8(x & y & u8(rng.integers(0, 256, d))); y = u8(y & u8(rng.integers(0, 256, d)))
    return x, y


def gen_spearman(rng, d, kind):
    x = rng.integers(0, 4, d).astype(np.float64); y = rng.integers(0, 4, d).astype(np.float64)
    if kind == "perm":
        x = rng.permutation(d).astype(np.float64); y = rng.permutation(d).astype(np.float64)
    elif kind == "constant":
        x = np.full(d, float(rng.integers(-2, 3)))
    elif kind == "constant-both":
        x = np.full(d, 1.5); y = np.full(d, -2.0)
    elif kind == "reversed":
        x = rng.normal(size=d); y = -x
    return f32(x), f32(y)


def in_band(v, band, scale):
    lo, hi = band
    return (not math.isnan(v)) and lo - R.tol(v, lo, scale) <= v <= hi + R.tol(v, hi, scale)


def gen_args(rng, kname, pub, d):
    """(kwds for the reference / tolerance rule, positional args for the kernel, driver suffix)."""
    kw = R.SPEC[pub]["kwds_gen"](rng, d)
    if kname == "standardised_euclidean":
        return kw, [kw["sigma"]], " | " + bits_row64(kw["sigma"])
    if kname == "weighted_minkowski":
        return kw, [kw["w"], kw["p"]], " | %s | %s" % (bits_row64(kw["w"]), f64bits(float(kw["p"])))
    if kname == "mahalanobis":
        return kw, [kw["vinv"]], " | " + bits_row64(kw["vinv"])
    if kname == "wasserstein_1d":
        return kw, [kw["p"]], " | " + f64bits(float(kw["p"]))
    return kw, [], ""


# kernels of this module that harness/translate_metrics.py translates (Gen/MetricKernels.lean): each case is also run
# through the translated kernel (driver `gmetric`) and compared with numba (`translated-kernel:<kernel>`, same rule as
# the model) and with the model bit for bit (`translated-kernel-vs-model:<kernel>`)
TRANSLATED2 = ("standardised_euclidean", "weighted_minkowski", "haversine", "tsss", "mahalanobis")


def run_model2(res, rng, n_cases):
    """n_cases pairs per kernel of KERNELS2 / BIT_KERNELS, n_cases vectors for `rankdata`."""
    cmds, meta, gcmds = [], [], {}
    for kname, (pub, domain) in KERNELS2.items():
        f = getattr(D, kname)
        for c in range(n_cases):
            d = DIMS[int(rng.integers(len(DIMS)))]
            if domain == "latlon":
                kind = LATLON_KINDS[c % len(LATLON_KINDS)]
                x, y = gen_latlon(rng, kind)
            elif kname == "spearmanr" and c % 2 == 1:
                kind = SPEARMAN_KINDS[(c // 2) % len(SPEARMAN_KINDS)]
                x, y = gen_spearman(rng, max(d, 2), kind)
            else:
                kinds = TSSS_KINDS if kname == "tsss" else KINDS
                kind = kinds[c % len(kinds)]
                pair = gen_pair(rng, domain, d, kind)
                if pair is None:
                    continue
                x, y = pair
            if kname in NO_ZERO and (not np.any(x) or not np.any(y)):
                res.count("model2-skip:zero-outside-domain:" + kname)
                continue
            kw, args, suffix = gen_args(rng, kname, pub, len(x))
            cmds.append("metric2 %s | %s | %s%s" % (kname, bits_row64(x), bits_row64(y), suffix))
            meta.append((kname, pub, kind, x, y, kw, args, f))
            if kname in TRANSLATED2:
                gcmds[len(cmds) - 1] = "gmetric %s | %s | %s%s" % (kname, bits_row64(x), bits_row64(y), suffix)
    for kname, pub in BIT_KERNELS.items():
        f = getattr(D, kname)
        for c in range(n_cases):
            d = BIT_DIMS[int(rng.integers(len(BIT_DIMS)))]
            kind = BIT_KINDS[c % len(BIT_KINDS)]
            x, y = gen_bits(rng, d, kind)
            cmds.append("bits %s | %s | %s" % (kname, ints_row(x), ints_row(y)))
            meta.append((kname, pub, kind, x, y, {}, [], f))
    ranks = []
    for c in range(n_cases):
        d = DIMS[int(rng.integers(len(DIMS)))]
        kind = SPEARMAN_KINDS[c % len(SPEARMAN_KINDS)]
        x, _ = gen_spearman(rng, d, kind)
        cmds.append("rankdata | " + bits_row64(x))
        ranks.append((kind, x))
    gidx = sorted(gcmds)
    outs = run_driver(cmds + [gcmds[i] for i in gidx]) if cmds else []
    gouts = dict(zip(gidx, outs[len(cmds):]))
    outs = outs[:len(cmds)]

    for k, ((kname, pub, kind, x, y, kw, args, f), out) in enumerate(zip(meta, outs)):
        case = {"kernel": kname, "gen": kind, "dtype": str(x.dtype), "x": x.tolist(), "y": y.tolist(),
                "kwds": R.kwds_to_json(kw)}
        zx, zy = not np.any(x), not np.any(y)
        res.case(("model2", kname, x.tobytes().hex(), y.tobytes().hex(), repr(R.kwds_to_json(kw))),
                 (not np.array_equal(x, y)) and not zx and not zy,
                 sample={"kernel": kname, "x": x.tolist()[:6], "y": y.tolist()[:6]})
        res.count("metric_model2:" + kname); res.count("model2-gen:" + kind)
        key = "metric_model2:" + kname
        if out == "bad-op":
            res.corr_fail(key, case, "bad-op", None)
            continue
        try:
            a = float(f(x, y, *args))
        except Exception as e:
            a = type(e).__name__
        if k in gouts:
            g = gouts[k]
            res.count("translated:compared")
            same = (g == out) or (g == "oob" and out == "ValueError") or \
                (g not in ("oob", "bad-op") and out not in ("ValueError", "bad-op") and math.isnan(from_bits64(g)) and math.isnan(from_bits64(out)))
            if not same:
                res.corr_fail("translated-kernel-vs-model:" + kname, case, out, g)
        if out == "ValueError" or isinstance(a, str):
            # the model's `none` is exactly the kernel's ValueError (haversine, dim != 2); nothing else may raise
            if not (out == "ValueError" and a == "ValueError"):
                res.corr_fail(key, case, out if out == "ValueError" else from_bits64(out), a)
                if isinstance(a, str) and kind != "dim-3":
                    res.violation("metric:%s:exception" % pub, "raises %s on f(x,y)" % a, case)
            continue
        m = from_bits64(out)
        scale = R.abs_scale(pub, x, y, kw)
        s = R.SPEC[pub]
        if math.isnan(a) and math.isnan(m):
            ok = True                               # same (undefined) value; the NaN clause is c07.py's business
        elif kname == "bit_hamming":
            ok = (a == m)
        elif s["band"] is not None:
            # banded metrics (tsss, wasserstein_1d): the band is computed from the REFERENCE pre-image, so
            # `close(a, m, band=...)` would accept any model value once the kernel's is inside; model and kernel
            # agree when they are close on the value, or BOTH lie in the band
            band = s["band"](x, y, kw, scale)
            ok = R.close_plain(a, m, scale) or (band is not None and in_band(a, band, scale) and in_band(m, band, scale))
        else:
            ok = R.close(a, m, pub, scale)
        if not ok:
            res.corr_fail(key, case, m, a)
            if k in gouts and gouts[k] == out:      # the translated kernel returned the model's value bit for bit
                res.corr_fail("translated-kernel:" + kname, case, m, a)
            undefined = (zx or zy) and s["zero"] != "ok"
            if not undefined:
                r = s["ref"](x, y, **kw)
                band = s["band"](x, y, kw, scale) if s["band"] is not None else None
                if r is not None and not R.close(a, r, pub, scale, band):
                    res.violation("metric:%s:value" % pub,
                                  "f(x,y)=%r, reference %r (found through the Lean model: %r)" % (a, r, m), case)
    for (kind, x), out in zip(ranks, outs[len(meta):]):
        case = {"kernel": "rankdata", "gen": kind, "x": x.tolist()}
        res.case(("model2", "rankdata", x.tobytes().hex()), len(set(x.tolist())) > 1,
                 sample={"kernel": "rankdata", "x": x.tolist()[:6]})
        res.count("metric_model2:rankdata"); res.count("model2-gen:" + kind)
        if out == "bad-op":
            res.corr_fail("metric_model2:rankdata", case, "bad-op", None)
            continue
        m = [from_bits64(t) for t in out.split()]
        a = [float(v) for v in D.rankdata(x)]
        if a != m:
            res.corr_fail("metric_model2:rankdata", case, m, a)
            r = [0.5 * (sum(1 for u in x if u <= v) + sum(1 for u in x if u < v) + 1) for v in x]
            if a != r:
                res.violation("metric:spearmanr:rankdata", "rankdata(x)=%r, average ranks %r" % (a, r), case)
    return res


def run(res, tier, seed, search):
    res.rule = ("Lean metric model part 2 (float64, driver) vs the real numba kernels on the same float32-representable "
                "pairs / uint8 strings under refmetrics.close (rankdata, bit_hamming: equality); non-trivial = x != y and "
                "neither all-zero (rankdata: not constant); haversine also with dim != 2 (ValueError = none)")
    rng = np.random.default_rng([seed, 7092])
    n = 40 if tier == "quick" else 600
    if search:
        n *= 3
    run_model2(res, rng, n)


if __name__ == "__main__":
    std_main("C07", run)
