import PynnVerif.Model.Heap
import PynnVerif.Proofs.Heap
