import PynnVerif.Model.Heap
import PynnVerif.Driver.Util
import PynnVerif.Driver.Descent
import PynnVerif.Driver.Sparse
import PynnVerif.Driver.Index
import PynnVerif.Driver.Alias
import PynnVerif.Driver.Transformer
import PynnVerif.Driver.RPTree
import PynnVerif.Driver.Search
import PynnVerif.Driver.Transport
import PynnVerif.Driver.Diversify
import PynnVerif.Driver.Connect
import PynnVerif.Driver.Metrics
import PynnVerif.Driver.Metrics2
import PynnVerif.Driver.GenM
import PynnVerif.Driver.GenK
import PynnVerif.Driver.GenMetrics
/-!
# Line-protocol driver over the executable model

One command per input line, one output line per command.  Integers are decimal;
float32 priorities travel as their bit patterns (`UInt32`, decimal), so `inf`,
`-0.0` and ties behave exactly as in the numba kernels.  Imports `Model/` and
`Driver/` only (no Mathlib), so it links as a native executable.  Area-specific
commands are stateless handlers registered in `handlers`.
-/
open Pynn Pynn.Drv

def showRow (r : Row F) : String :=
  " ".intercalate (r.toList.map (fun e => showF e.prio)) ++ " ; " ++
  " ".intercalate (r.toList.map (fun e => toString e.idx)) ++ " ; " ++
  " ".intercalate (r.toList.map (fun e => if e.flag then "1" else "0"))

structure St where
  row : Row F := #[]

/-- stateless area handlers (first one that answers wins) -/
def handlers : List Handler := [handleDescent, handleSparse, handleIndex, handleAlias, handleTransformer, handleRPTree, handleSearch, handleXlate, handleTransport, handleDiversify, handleConnect, handleMetrics, handleMetrics2, handleGenM, handleGenK, handleGenMetrics]

def step (st : St) (line : String) : St × String :=
  let toks := (line.trimAscii.toString.splitOn " ").filter (· ≠ "")
  match toks with
  | "hnew" :: [k] => ({ st with row := mkRow finf (pNat k) }, "ok")
  | "hset" :: k :: rest =>
    let k := pNat k
    if rest.length ≠ 3 * k || !allInts rest then (st, "bad-op") else
    let ps := rest.take k; let is := (rest.drop k).take k; let fs := rest.drop (2*k)
    let row : Row F := ((ps.zip is).zip fs).toArray.map
      (fun ((p, i), f) => ⟨pF p, pInt i, pInt f != 0⟩)
    ({ st with row := row }, "ok")
  | ["hpush", v, p, n, f] =>
    if !allInts [p, n, f] then (st, "bad-op") else
    let (r, acc) := match v with
      | "s" => pushSimple st.row (pF p) (pInt n)
      | "c" => pushChecked st.row (pF p) (pInt n)
      | _   => pushFlagged st.row (pF p) (pInt n) (pInt f != 0)
    ({ st with row := r }, (if acc then "1 | " else "0 | ") ++ showRow r)
  | ["hsort"] =>
    let r := deheapSort st.row
    ({ st with row := r }, showRow r)
  | ["hget"] => (st, showRow st.row)
  | _ =>
    match handlers.findSome? (fun h => h toks) with
    | some out => (st, out)
    | none => (st, "bad-op")

partial def loop (h : IO.FS.Stream) (out : IO.FS.Stream) (st : St) : IO Unit := do
  let line ← h.getLine
  if line.isEmpty then return ()
  let (st', o) := step st line
  out.putStrLn o
  loop h out st'

def main : IO Unit := do
  loop (← IO.getStdin) (← IO.getStdout) {}
