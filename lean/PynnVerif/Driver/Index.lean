import PynnVerif.Model.Index
import PynnVerif.Driver.Util
/-! Driver command for the life-cycle model: `idxrun n ; op ; op …` with ops
`prepare v…` | `query` | `pickle v…` | `compress v…` | `update nFresh | replaced… | v…`. -/
namespace Pynn.Drv
open Pynn.Idx

/-- row numbers, counts and vertex orders are naturals; `pNat` would silently read `-1` as `0` -/

def parseOp (toks : List String) : Option Op :=
  match toks with
  | "prepare" :: v => if allNats v then some (.prepare (v.map pNat)) else none
  | ["query"] => some .query
  | "pickle" :: v => if allNats v then some (.pickle (v.map pNat)) else none
  | "compress" :: v => if allNats v then some (.compress (v.map pNat)) else none
  | "update" :: rest =>
    match splitAt "|" rest with
    | [[nf], repl, v] =>
      if allNats [nf] && allNats repl && allNats v then some (.update (pNat nf) (repl.map pNat) [] (v.map pNat)) else none
    | _ => none
  | _ => none

def showSt (s : St) (o : Out) : String :=
  (match o with | .ok => "ok" | .err k => "err:" ++ k) ++
  " n=" ++ toString s.raw.length ++
  " vo=" ++ (if s.vo.isSome then "1" else "0") ++
  " graph=" ++ (if s.graph.isSome then "1" else "0") ++
  " comp=" ++ (if s.compressed then "1" else "0") ++
  " inv=" ++ (if Inv s then "1" else "0") ++
  " raw=" ++ ",".intercalate (s.raw.map (fun p => toString p.id ++ "." ++ toString p.ver))

def handleIndex : Handler := fun toks =>
  match splitAt ";" toks with
  | ["idxrun", n] :: ops =>
    if !allNats [n] then some "bad-op" else
    match ops.mapM parseOp with
    | none => some "bad-op"
    | some ops =>
      let s0 := build (pNat n) []
      let (_, outs) := ops.foldl (fun (acc : St × List String) op =>
        let r := step acc.1 op
        (r.1, acc.2 ++ [showSt r.1 r.2])) (s0, [])
      some (" ; ".intercalate outs)
  | _ => none

end Pynn.Drv
