import PynnVerif.Model.Search
import PynnVerif.Driver.Util
/-!
Driver commands for the search model (C02), `P = Float32`.

`search n k nNeighbors | indptr… | indices… | dq bits (n float32 bit patterns)… | leaf… | draws… | scaleBits`

* `scaleBits`: bit pattern of the float32 `distance_scale` (`1.0 + epsilon` stored in a
  float32 local); the bound is the float32 product `distance_scale * heap_priorities[0]`;
* `draws` may be longer than what the code draws: the model consumes
  `min(k, nNeighbors) − |leaf|` of them;
* fuel is `n + 1` (`C02.search_terminates`: `n` suffices);
* output: `flag | heap priorities bits ; heap indices | sorted priorities bits ; sorted indices | visited vertices (ascending)`
  with `flag = 1` iff the loop left by its own condition;
* malformed input (non-numeric token, `|dq| ≠ n`, `|indptr| ≠ n + 1`, wrong number of groups): `bad-op`.

`xlate | vo… | idx…` prints `translate vo` of every index (`bad-op` if an index is
`≥ len(vo)`, where numpy raises).
-/
namespace Pynn.Drv


def showHeap (r : Row F) : String :=
  showFs (r.toList.map (·.prio)) ++ " ; " ++ showInts (r.toList.map (·.idx))

def handleSearch : Handler
  | "search" :: rest =>
    match splitAt "|" rest with
    | [[n, k, nn], indptr, indices, dqb, leaf, draws, [sb]] =>
      if !(allNats [n, k, nn, sb] && allNats indptr && allNats indices && allNats dqb
            && allNats leaf && allNats draws) then some "bad-op" else
      let n := pNat n; let k := pNat k; let nn := pNat nn
      if dqb.length ≠ n || indptr.length ≠ n + 1 then some "bad-op" else
      let tbl : Array F := (dqb.map pF).toArray
      let dq : Nat → F := fun v => tbl[v]?.getD finf
      let sc := pF sb
      let scale : F → F := fun x => sc * x
      let ip := (indptr.map pNat).toArray
      let ix := (indices.map pNat).toArray
      let (s, ok) := search finf scale n k nn ip ix dq (leaf.map pNat) (draws.map pNat) (n + 1)
      let vis := (List.range n).filter (fun v => visited s.vis v)
      some ((if ok then "1" else "0") ++ " | " ++ showHeap s.heap ++ " | " ++
            showHeap (deheapSort s.heap) ++ " | " ++ showNats vis)
    | _ => some "bad-op"
  | _ => none

def handleXlate : Handler
  | "xlate" :: rest =>
    match splitAt "|" rest with
    | [[], vo, idx] =>
      if !(allNats vo && allInts idx) then some "bad-op" else
      let vo := (vo.map pNat).toArray
      let idx := idx.map pInt
      if idx.any (fun i => i ≥ (vo.size : Int)) then some "bad-op" else
      some (showInts (idx.map (translate vo)))
    | _ => some "bad-op"
  | _ => none

end Pynn.Drv
