import PynnVerif.Model.Sparse
import PynnVerif.Driver.Util
/-!
Driver commands for the sparse merge kernels (`Model/Sparse.lean`), values in `Int`
(the harness feeds integer-valued float32 data, on which the float kernels are exact):

```
sp-sum  | ind1… | val1… | ind2… | val2…      ->  ind… | val…
sp-diff | …                                   ->  ind… | val…
sp-mul  | …                                   ->  ind… | val…
sp-dot  | …                                   ->  value            (oob: an operand is empty, the code reads ind[0])
dense-union | …                               ->  data1… | data2…
arr-union | a… | b…                           ->  a…
arr-intersect | a… | b…                       ->  a…
isect-size | a… | b…                          ->  n
sp-metric <name> <n_features> | ind1… | val1… | ind2… | val2…   ->  num/den  (exact rational; see `metric`)
```
Index lists are taken as given (sorted or not: the model, like the code, does not check).
-/
namespace Pynn.Drv
open Pynn.Sparse

def parseNats (ts : List String) : Option (List Nat) :=
  if ts.all (fun t => t.toNat?.isSome) then some (ts.map pNat) else none

def parseVec (is vs : List String) : Option (SVec Int) :=
  match parseNats is with
  | none => none
  | some ns =>
    if ns.length ≠ vs.length || !allInts vs then none else some (ns.zip (vs.map pInt))

def showVec (r : SVec Int) : String := showNats (inds r) ++ " | " ++ showInts (vals r)

def showRat (q : Rat) : String := toString q.num ++ "/" ++ toString q.den

/-- exact metrics on the rational carrier; `sqrt`-free parts only.  `correlation-parts`
prints `dot ; norm1sq ; norm2sq`, `cosine-parts` prints `dot ; normsq1 ; normsq2`. -/
def metric (name : String) (n : Nat) (a b : SVec Rat) : Option String :=
  match name with
  | "sqeuclidean" => some (showRat (sqEuclidean a b))
  | "manhattan" => some (showRat (manhattan a b))
  | "chebyshev" => some (showRat (chebyshev a b))
  | "minkowski3" => some (showRat (minkowskiSum 3 a b))
  | "hamming" => some (showRat (hamming a b n))
  | "braycurtis" => some (showRat (brayCurtis a b))
  | "canberra" => some (showRat (canberra a b))
  | "jaccard" => some (showRat (jaccard a b))
  | "matching" => some (showRat (matching a b n))
  | "dice" => some (showRat (dice a b))
  | "kulsinski" => some (showRat (kulsinski a b n))
  | "rogerstanimoto" => some (showRat (rogersTanimoto a b n))
  | "russellrao" => some (showRat (russellrao a b n))
  | "sokalmichener" => some (showRat (sokalMichener a b n))
  | "sokalsneath" => some (showRat (sokalSneath a b))
  | "cosine-parts" =>
    some (showRat (mulSum a b) ++ " ; " ++ showRat (normSq a) ++ " ; " ++ showRat (normSq b))
  | "correlation-parts" =>
    if a.isEmpty && b.isEmpty then some "early 0"
    else if a.isEmpty || b.isEmpty then some "early 1"
    else
      let (d, n1, n2) := correlationParts a b n
      some (showRat d ++ " ; " ++ showRat n1 ++ " ; " ++ showRat n2)
  | _ => none

def toRatVec (a : SVec Int) : SVec Rat := a.map (fun p => (p.1, (p.2 : Rat)))

def handleSparse : Handler := fun toks =>
  match splitAt "|" toks with
  | [[cmd], i1, v1, i2, v2] =>
    if cmd ∉ ["sp-sum", "sp-diff", "sp-mul", "sp-dot", "dense-union"] then none else
    match parseVec i1 v1, parseVec i2 v2 with
    | some a, some b =>
      match cmd with
      | "sp-sum" => some (showVec (sparseSum a b))
      | "sp-diff" => some (showVec (sparseDiff a b))
      | "sp-mul" => some (showVec (sparseMul a b))
      | "sp-dot" => some (match sparseDotProduct a b with | some v => toString v | none => "oob")
      | _ =>
        let r := denseUnion a b
        some (showInts (r.map (·.1)) ++ " | " ++ showInts (r.map (·.2)))
    | _, _ => some "bad-op"
  | [["sp-metric", name, n], i1, v1, i2, v2] =>
    match n.toNat?, parseVec i1 v1, parseVec i2 v2 with
    | some n, some a, some b => some ((metric name n (toRatVec a) (toRatVec b)).getD "bad-op")
    | _, _, _ => some "bad-op"
  | [[cmd], a, b] =>
    if cmd ∉ ["arr-union", "arr-intersect", "isect-size"] then none else
    match parseNats a, parseNats b with
    | some a, some b =>
      match cmd with
      | "arr-union" => some (showNats (arrUnion a b))
      | "arr-intersect" => some (showNats (arrIntersect a b))
      | _ => some (toString (intersectionSize a b))
    | _, _ => some "bad-op"
  | _ => none

end Pynn.Drv
