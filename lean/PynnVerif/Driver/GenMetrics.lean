import PynnVerif.Gen.MetricKernels
import PynnVerif.Driver.Metrics
/-!
Driver commands that EXECUTE THE TRANSLATED dense metric kernels of `Gen/MetricKernels.lean`
(regenerated from the source text of `pynndescent/distances.py` by `harness/translate_metrics.py`)
over `Float`, the carrier on which `Driver/Metrics.lean` executes the hand-written model — so that
the translator is validated on every run against the real numba kernels (`harness/c07_model.py`,
`harness/c07_model2.py`: `translated-kernel:<name>`), and against the model bit for bit (the
refinement theorems of `Props/C07.lean` hold on every `Arith` carrier, `Float` included).
Protocol of `Driver/Metrics.lean` (float64 bit patterns as decimal `UInt64`):

```
gmetric <name> | x… | y… [| extra…]   ->  value | oob     (extra: `p`; `sigma…`; `w… | p`; mahalanobis: `vinv…` row-major)
gcorr <name> | v…                      ->  value…
```
`oob` = the translated kernel answered `none` (out-of-bounds load; `haversine`: the `ValueError`
branch); fuel is `x.size + 1`, the bound of the theorems.  Vectors are passed as they are (the
translated kernel, like the numba one, does not compare lengths).
-/
namespace Pynn.Drv
open Pynn.Metrics Pynn.GenMetric

/-- translated kernels of two vectors -/
def gmetric2 (name : String) : Option (Nat → Array Float → Array Float → Option Float) :=
  match name with
  | "euclidean" => some euclidean
  | "squared_euclidean" => some squared_euclidean
  | "manhattan" => some manhattan
  | "chebyshev" => some chebyshev
  | "cosine" => some cosine
  | "alternative_cosine" => some alternative_cosine
  | "dot" => some dot
  | "alternative_dot" => some alternative_dot
  | "true_angular" => some true_angular
  | "correlation" => some correlation
  | "hellinger" => some hellinger
  | "alternative_hellinger" => some alternative_hellinger
  | "canberra" => some canberra
  | "bray_curtis" => some bray_curtis
  | "hamming" => some hamming
  | "jaccard" => some jaccard
  | "alternative_jaccard" => some alternative_jaccard
  | "matching" => some matching
  | "dice" => some dice
  | "kulsinski" => some kulsinski
  | "rogers_tanimoto" => some rogers_tanimoto
  | "sokal_michener" => some sokal_michener
  | "sokal_sneath" => some sokal_sneath
  | "russellrao" => some russellrao
  | "yule" => some yule
  | "haversine" => some haversine
  | "tsss" => some tsss
  | _ => none

def gcorrection (name : String) : Option (Nat → Float → Option Float) :=
  match name with
  | "correct_alternative_cosine" => some correct_alternative_cosine
  | "true_angular_from_alt_cosine" => some true_angular_from_alt_cosine
  | "correct_alternative_hellinger" => some correct_alternative_hellinger
  | "correct_alternative_jaccard" => some correct_alternative_jaccard
  | _ => none

def showOpt (r : Option Float) : String := match r with | some v => showF64 v | none => "oob"

def handleGenMetrics : Handler := fun toks =>
  match toks with
  | "gmetric" :: name :: "|" :: rest =>
    match (splitAt "|" rest).mapM parseF64s with
    | none => some "bad-op"
    | some parts =>
      match name, parts with
      | "minkowski", [x, y, [p]] => some (showOpt (minkowski (x.length + 1) x.toArray y.toArray p))
      | "mahalanobis", [x, y, v] =>
        let n := x.length
        if v.length ≠ n * n then some "bad-op" else
        let rows : Array (Array Float) := ((List.range n).map (fun i => ((v.drop (i * n)).take n).toArray)).toArray
        some (showOpt (mahalanobis (2 * n + 2) x.toArray y.toArray rows))
      | "standardised_euclidean", [x, y, s] =>
        some (showOpt (standardised_euclidean (x.length + 1) x.toArray y.toArray s.toArray))
      | "weighted_minkowski", [x, y, w, [p]] =>
        some (showOpt (weighted_minkowski (x.length + 1) x.toArray y.toArray w.toArray p))
      | _, [x, y] =>
        match gmetric2 name with
        | some f => some (showOpt (f (x.length + 1) x.toArray y.toArray))
        | none => some "bad-op"
      | _, _ => some "bad-op"
  | "gmetric" :: _ => some "bad-op"
  | "gcorr" :: name :: "|" :: rest =>
    match gcorrection name, parseF64s rest with
    | some f, some vs => some (" ".intercalate (vs.map (fun v => showOpt (f 1 v))))
    | _, _ => some "bad-op"
  | "gcorr" :: _ => some "bad-op"
  | _ => none

end Pynn.Drv
