import PynnVerif.Model.Descent
import PynnVerif.Driver.Util
/-! Driver commands for the NN-descent model (`P = C = Float32`, exact RNG). -/
namespace Pynn.Drv
open Pynn

def parseGraph (n k : Nat) (ps is fs : List String) : Option (Graph F) :=
  if ps.length ≠ n * k || is.length ≠ n * k || fs.length ≠ n * k then none
  else if !(allInts ps && allInts is && allInts fs) then none else
  let pa := ps.toArray; let ia := is.toArray; let fa := fs.toArray
  some ((Array.range n).map (fun r => (Array.range k).map (fun c =>
    (⟨pF (pa[r*k+c]!), pInt (ia[r*k+c]!), pInt (fa[r*k+c]!) != 0⟩ : Entry F))))

def showGraph (g : Graph F) : String :=
  showFs (g.toList.flatMap (fun r => r.toList.map (·.prio))) ++ " | " ++
  showInts (g.toList.flatMap (fun r => r.toList.map (·.idx))) ++ " | " ++
  showInts (g.toList.flatMap (fun r => r.toList.map (fun e => if e.flag then 1 else 0)))

def parseUps : List String → Option (List (Upd F))
  | [] => some []
  | p :: q :: d :: rest =>
    if !allInts [p, q, d] then none else (parseUps rest).map (fun l => ⟨pNat p, pNat q, pF d⟩ :: l)
  | _ => none

def parseRows (width : Nat) (toks : List String) : Option (List (List Int)) :=
  if width = 0 then (if toks.isEmpty then some [] else none)
  else if toks.length % width ≠ 0 || !allInts toks then none
  else some ((List.range (toks.length / width)).map (fun r => ((toks.drop (r*width)).take width).map pInt))

def distTable (n : Nat) (tab : Array F) : Nat → Nat → F := fun p q => tab[p*n+q]?.getD finf

def handleDescent : Handler := fun toks =>
  match splitAt "|" toks with
  -- apply low|high T n k | prio | idx | flag | ups
  | ["apply", mode, t, n, k] :: ps :: is :: fs :: [ups] =>
    match parseGraph (pNat n) (pNat k) ps is fs, parseUps ups with
    | some g, some u =>
      if mode == "low" then
        let r := applyLow (pNat t) g u
        some (toString r.2 ++ " | " ++ showGraph r.1)
      else if mode == "high" then
        let r := applyHigh g u (initInGraph g)
        some (toString r.1.2 ++ " | " ++ showGraph r.1.1)
      else some "bad-op"
    | _, _ => some "bad-op"
  -- cands n k maxCand T s0 s1 s2 | prio | idx | flag
  | ["cands", n, k, mc, t, s0, s1, s2] :: ps :: is :: [fs] =>
    match parseGraph (pNat n) (pNat k) ps is fs with
    | some g =>
      let r := newBuildCandidates (C := F) finf tauRand g (pNat mc) (RngState.ofInts (pInt s0) (pInt s1) (pInt s2)) (pNat t)
      some (showInts r.1.1.flatten ++ " | " ++ showInts r.1.2.flatten ++ " | " ++
            showInts (r.2.toList.flatMap (fun r => r.toList.map (fun e => if e.flag then 1 else 0))))
    | none => some "bad-op"
  -- nnd n k maxCand nIters T lowMem deltaBits64 s0 s1 s2 rpInit leafWidth hasInit | dist | leaf | [prio | idx | flag]
  | ["nnd", n, k, mc, it, t, low, dbits, s0, s1, s2, rp, lw, hasInit] :: dist :: leaf :: rest =>
    let n' := pNat n; let k' := pNat k
    if dist.length ≠ n' * n' || !allInts dist then some "bad-op" else
    match parseRows (pNat lw) leaf with
    | none => some "bad-op"
    | some leafArray =>
      let init : Option (Option (Graph F)) :=
        if hasInit == "1" then
          match rest with
          | ps :: is :: [fs] => (parseGraph n' k' ps is fs).map some
          | _ => none
        else some none
      match init with
      | none => some "bad-op"
      | some init =>
        let tab := (dist.map pF).toArray
        let delta := Float.ofBits (UInt64.ofNat (pNat dbits))
        let bound := delta * Float.ofNat k' * Float.ofNat n'
        let cfg : Cfg := { k := k', maxCand := pNat mc, nIters := pNat it, nThreads := pNat t, lowMemory := low == "1" }
        let r := nnDescent (C := F) finf finf tauRand (distTable n' tab) n' cfg (fun c => Float.ofNat c ≤ bound)
                  (RngState.ofInts (pInt s0) (pInt s1) (pInt s2)) init (rp == "1") leafArray
        some (showInts (r.1.toList.flatMap (fun r => r.toList.map (·.idx))) ++ " | " ++
              showFs (r.1.toList.flatMap (fun r => r.toList.map (·.prio))) ++ " | " ++
              toString r.2.s0.toInt ++ " " ++ toString r.2.s1.toInt ++ " " ++ toString r.2.s2.toInt)
  -- blocks n k T blockSize w | dist | new candidates (n rows, width w) | old candidates | prio | idx | flag
  --   `process_candidates` (low-memory local join over vertex blocks of the given size) → `c | graph`
  | [["blocks", n, k, t, bs, w], dist, nc, oc, ps, is, fs] =>
    let n' := pNat n
    if !allNats [n, k, t, bs, w] || pNat bs = 0 || dist.length ≠ n' * n' || !allInts dist then some "bad-op" else
    match parseGraph n' (pNat k) ps is fs, parseRows (pNat w) nc, parseRows (pNat w) oc with
    | some g, some newC, some oldC =>
      if newC.length ≠ n' || oldC.length ≠ n' then some "bad-op" else
      let tab := (dist.map pF).toArray
      let cfg : Cfg := { k := pNat k, maxCand := pNat w, nIters := 0, nThreads := pNat t, lowMemory := true, blockSize := pNat bs }
      let r := processBlocks finf (distTable n' tab) cfg g newC oldC #[]
      some (toString r.1.2 ++ " | " ++ showGraph r.1.1)
    | _, _, _ => some "bad-op"
  -- initidx n k w | dist | index rows (width w)            initalize_heap_from_graph_indices
  | [["initidx", n, k, w], dist, rows] =>
    let n' := pNat n
    if dist.length ≠ n' * n' || !allInts dist then some "bad-op" else
    match parseRows (pNat w) rows with
    | none => some "bad-op"
    | some idx =>
      let tab := (dist.map pF).toArray
      some (showGraph (initFromIndices (mkGraph finf n' (pNat k)) idx (distTable n' tab)))
  -- initnbr n k w | index rows | distance rows (bits)        init_from_neighbor_graph (flag 0, no skipping)
  | [["initnbr", n, k, w], rows, drows] =>
    match parseRows (pNat w) rows, parseRows (pNat w) drows with
    | some idx, some ds =>
      some (showGraph (initFromNeighborGraph (mkGraph finf (pNat n) (pNat k)) idx
        (ds.map (fun r => r.map (fun b => Float32.ofBits (UInt32.ofNat b.toNat))))))
    | _, _ => some "bad-op"
  | _ => none

end Pynn.Drv
