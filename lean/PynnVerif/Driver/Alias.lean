import PynnVerif.Model.Alias
import PynnVerif.Driver.Util
/-! Driver command for the alias model: `alias <dtype> <layout> <sparse> <csr> <sorted> <metric>` →
`alias=<0/1> written=<0/1>` after construction. -/
namespace Pynn.Drv
open Pynn.Alias

def parseDType : String → Option DType
  | "f32" => some .f32 | "f64" => some .f64 | "f16" => some .f16 | "i32" => some .i32
  | "i64" => some .i64 | "u8" => some .u8 | "bool" => some .bool | _ => none
def parseLayout : String → Option Layout
  | "c" => some .c | "f" => some .f | "strided" => some .strided | _ => none
def parseMetric : String → Option MetricClass
  | "plain" => some .plain | "dot" => some .dot | "bit" => some .bit | _ => none
def parseB : String → Option Bool
  | "1" => some true | "0" => some false | _ => none

def handleAlias : Handler := fun toks =>
  match toks with
  | ["alias", d, l, sp, cs, so, m] =>
    match parseDType d, parseLayout l, parseB sp, parseB cs, parseB so, parseMetric m with
    | some d, some l, some sp, some cs, some so, some m =>
      let r := run (initOps ⟨d, l, sp, cs, so⟩ m)
      some ("alias=" ++ (if r.1 then "1" else "0") ++ " written=" ++ (if r.2 then "1" else "0"))
    | _, _, _, _, _, _ => some "bad-op"
  | _ => none

end Pynn.Drv
