import PynnVerif.Model.Metrics2
import PynnVerif.Driver.Metrics
/-!
Driver commands for the dense metric model of `Model/Metrics2.lean`, executed over `Float` (float64).
Same protocol as `Driver/Metrics.lean`: values travel as the decimal `UInt64` of their float64 bit
pattern, lists are separated by `|`.

```
metric2 standardised_euclidean | x… | y… | sigma…     ->  value
metric2 weighted_minkowski     | x… | y… | w… | p      ->  value
metric2 mahalanobis            | x… | y… | vinv…       ->  value      (vinv row-major, dim² entries)
metric2 wasserstein_1d         | x… | y… | p           ->  value
metric2 haversine              | x… | y…               ->  value | ValueError   (x.shape[0] != 2)
metric2 <name>                 | x… | y…               ->  value
        <name> ∈ tsss, jensen_shannon_divergence, symmetric_kl_divergence, spearmanr
rankdata | x…                                          ->  value…     (method "average")
bits <name> | x… | y…                                  ->  value      (bytes as decimals < 256)
        <name> ∈ bit_hamming, bit_jaccard
```
Unknown names, non-numeric tokens, bytes `≥ 256`, vectors of different lengths (also `sigma`, `w`),
a `vinv` that is not `dim × dim`, and missing / superfluous arguments are rejected with `bad-op`.
-/
namespace Pynn.Drv
open Pynn.Metrics

/-- kernels of two vectors without further arguments -/
def metric2plain (name : String) : Option (List Float → List Float → Float) :=
  match name with
  | "tsss" => some tsss
  | "jensen_shannon_divergence" => some jensenShannon
  | "symmetric_kl_divergence" => some symmetricKL
  | "spearmanr" => some spearmanr
  | _ => none

/-- `dim` rows of `dim` entries -/
def chunkRows (dim : Nat) (v : List Float) : List (List Float) :=
  (List.range dim).map (fun i => (v.drop (i * dim)).take dim)

def parseByte (s : String) : Option Nat :=
  match s.toNat? with
  | some n => if n < 256 then some n else none
  | none => none

def handleMetrics2 : Handler := fun toks =>
  match toks with
  | "metric2" :: name :: "|" :: rest =>
    match (splitAt "|" rest).mapM parseF64s with
    | none => some "bad-op"
    | some parts =>
      match name, parts with
      | "standardised_euclidean", [x, y, s] =>
        if x.length ≠ y.length || x.length ≠ s.length then some "bad-op"
        else some (showF64 (standardisedEuclidean x y s))
      | "weighted_minkowski", [x, y, w, [p]] =>
        if x.length ≠ y.length || x.length ≠ w.length then some "bad-op"
        else some (showF64 (weightedMinkowski x y w p))
      | "mahalanobis", [x, y, v] =>
        if x.length ≠ y.length || v.length ≠ x.length * x.length then some "bad-op"
        else some (showF64 (mahalanobis x y (chunkRows x.length v)))
      | "wasserstein_1d", [x, y, [p]] =>
        if x.length ≠ y.length then some "bad-op" else some (showF64 (wasserstein1d x y p))
      | "haversine", [x, y] =>
        if x.length ≠ y.length then some "bad-op" else
        match haversine x y with
        | some v => some (showF64 v)
        | none => some "ValueError"
      | _, [x, y] =>
        if x.length ≠ y.length then some "bad-op" else
        match metric2plain name with
        | some f => some (showF64 (f x y))
        | none => some "bad-op"
      | _, _ => some "bad-op"
  | "metric2" :: _ => some "bad-op"
  | "rankdata" :: "|" :: rest =>
    match parseF64s rest with
    | some x => some (" ".intercalate ((rankAverage x).map showF64))
    | none => some "bad-op"
  | "rankdata" :: _ => some "bad-op"
  | "bits" :: name :: "|" :: rest =>
    match (splitAt "|" rest).mapM (fun ts => ts.mapM parseByte) with
    | some [x, y] =>
      if x.length ≠ y.length then some "bad-op" else
      match name with
      | "bit_hamming" => some (showF64 (bitHamming x y))
      | "bit_jaccard" => some (showF64 (bitJaccard x y))
      | _ => some "bad-op"
    | _ => some "bad-op"
  | "bits" :: _ => some "bad-op"
  | _ => none

end Pynn.Drv
