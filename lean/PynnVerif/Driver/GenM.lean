import PynnVerif.Gen.Kernels
import PynnVerif.Driver.Util
/-!
Driver commands that EXECUTE THE TRANSLATED two-pointer kernels of `Gen/Kernels.lean` (regenerated
from the source text of `pynndescent/sparse.py` by `harness/translate_kernels.py`), so that the
translator is validated on every run by comparing its output with the real numba kernels
(`harness/c08_kernels.py`, `translated-kernel:<name>`).  Carrier `Int`, as for the `sp-*` commands
of `Driver/Sparse.lean` (the harness feeds integer-valued float32 data, on which the float kernels
are exact).  Arrays are passed as they are (any integers, any lengths: the translated kernel, like
the numba one, does not check); `oob` = the translated kernel answered `none`, i.e. a load / store
outside an array (fuel is `n1 + n2 + 1`, the bound of the refinement theorems in `Props/C08.lean`,
so fuel exhaustion cannot be the reason on inputs the theorems cover).

```
gk_sum   | ind1… | val1… | ind2… | val2…   ->  ind… | val…      or oob
gk_mul   | ind1… | val1… | ind2… | val2…   ->  ind… | val…      or oob
gk_dot   | ind1… | val1… | ind2… | val2…   ->  value            or oob
gk_isect | a… | b…                         ->  n                or oob
```
-/
namespace Pynn.Drv
open Pynn.GenK

def parseIntArr (ts : List String) : Option (Array Int) :=
  if allInts ts then some (ts.map pInt).toArray else none

def showArrs (r : Array Int × Array Int) : String :=
  showInts r.1.toList ++ " | " ++ showInts r.2.toList

def handleGenM : Handler := fun toks =>
  match splitAt "|" toks with
  | [[cmd], i1, v1, i2, v2] =>
    if cmd ∉ ["gk_sum", "gk_mul", "gk_dot"] then none else
    match parseIntArr i1, parseIntArr v1, parseIntArr i2, parseIntArr v2 with
    | some i1, some v1, some i2, some v2 =>
      let fuel := i1.size + i2.size + 1
      match cmd with
      | "gk_sum" => some (match sparse_sum fuel i1 v1 i2 v2 with | some r => showArrs r | none => "oob")
      | "gk_mul" => some (match sparse_mul fuel i1 v1 i2 v2 with | some r => showArrs r | none => "oob")
      | _ => some (match sparse_dot_product fuel i1 v1 i2 v2 with | some v => toString v | none => "oob")
    | _, _, _, _ => some "bad-op"
  | [[cmd], a, b] =>
    if cmd ≠ "gk_isect" then none else
    match parseIntArr a, parseIntArr b with
    | some a, some b =>
      some (match fast_intersection_size (a.size + b.size + 1) a b with | some n => toString n | none => "oob")
    | _, _ => some "bad-op"
  | _ => none

end Pynn.Drv
