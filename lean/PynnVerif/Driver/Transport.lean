import PynnVerif.Model.Transport
import PynnVerif.Driver.Util
/-!
Driver command of the C10 certificate checker (stateless).

`certify n m | a… | b… | C… | f… | u… | v… | eps`

`a`, `u`: `n` tokens; `b`, `v`: `m` tokens; `C`, `f`: `n*m` tokens, row-major; `eps`: one token, a
rational or the word `auto` (= `max 0 (-(smallest reduced cost))`, the least tolerance under which
`(u, v)` is dual feasible; it is echoed, and it is only an *input* of the proved checker).
Every rational is a token `num/den` (decimal integers of arbitrary size, `den > 0`) or a plain
integer; Python produces them with `float.as_integer_ratio()` / `fractions.Fraction`, so the
checker sees *exactly* the doubles the solver produced.

Answer: `ok eps=<q> gap=<q> rowres=<q> colres=<q> gapab=<q> val=<q>` when `Transport.certify` accepts
(`val = ⟨C,f⟩` exactly, `rowres`/`colres` the exact maximal marginal residuals against `a`/`b`,
`gapab` the gap against plans with marginals exactly `(a, b)`), else
`reject <reason> eps=… gap=… rowres=… colres=… gapab=… val=… minred=<q>`; the accept/reject decision is
that of `Transport.certify` (the function `Props/C10.certify_sound` is about), the reason
string is diagnostic only.  Malformed input: `bad-op`.
-/
namespace Pynn.Drv
open Pynn.Transport

def pQ? (s : String) : Option Rat :=
  match s.splitOn "/" with
  | [p] => p.toInt?.map (fun z => (z : Rat))
  | [p, q] =>
    match p.toInt?, q.toNat? with
    | some z, some d => if d == 0 then none else some (mkRat z d)
    | _, _ => none
  | _ => none

def pQs? (toks : List String) : Option (Array Rat) :=
  toks.foldl (fun acc t => match acc, pQ? t with
    | some a, some q => some (a.push q)
    | _, _ => none) (some #[])

def showQ (q : Rat) : String := toString q.num ++ "/" ++ toString q.den

/-- cut a flat row-major array into `n` rows of length `m` -/
def toRows (n m : Nat) (flat : Array Rat) : Array (Array Rat) :=
  (Array.range n).map (fun i => flat.extract (i * m) (i * m + m))

/-- smallest reduced cost (diagnostic) -/
def minRed (n m : Nat) (C : Array (Array Rat)) (u v : Array Rat) : Rat :=
  (List.range n).foldl (fun acc i => (List.range m).foldl (fun acc j =>
    let r := red C u v i j
    match acc with
    | none => some r
    | some x => some (if r < x then r else x)) acc) (none : Option Rat) |>.getD 0

def rejectReason (a b : Array Rat) (C f : Array (Array Rat)) (u v : Array Rat) (eps : Rat) : String :=
  let n := a.size; let m := b.size
  if !(shapeOk n m C && shapeOk n m f && u.size == n && v.size == m) then "shape"
  else if !(allTo n (fun i => allTo m (fun j => decide (0 ≤ at2 f i j)))) then "negative-flow"
  else if !(allTo n (fun i => allTo m (fun j => decide (-eps ≤ red C u v i j)))) then "dual-infeasible"
  else "other"

def handleTransport : Handler
  | "certify" :: n :: m :: rest =>
    match n.toNat?, m.toNat? with
    | some n, some m =>
      match splitAt "|" rest with
      | [[], ta, tb, tC, tf, tu, tv, [te]] =>
        match pQs? ta, pQs? tb, pQs? tC, pQs? tf, pQs? tu, pQs? tv,
              (if te == "auto" then some 0 else pQ? te) with
        | some a, some b, some Cf, some ff, some u, some v, some eps0 =>
          if a.size ≠ n || b.size ≠ m || Cf.size ≠ n * m || ff.size ≠ n * m then some "bad-op" else
          let C := toRows n m Cf; let f := toRows n m ff
          -- `auto`: the smallest tolerance that makes (u, v) dual feasible (an *input* of the proved checker)
          let eps := if te == "auto" then (let r := minRed n m C u v; if r < 0 then -r else 0) else eps0
          let (ok, gap) := certify a b C f u v eps
          let tail := "eps=" ++ showQ eps ++ " gap=" ++ showQ gap ++ " rowres=" ++ showQ (rowRes a b f)
            ++ " colres=" ++ showQ (colRes a b f) ++ " gapab=" ++ showQ (gapAB a b C f u v eps)
            ++ " val=" ++ showQ (costOf n m C f)
          if ok then some ("ok " ++ tail)
          else some ("reject " ++ rejectReason a b C f u v eps ++ " " ++ tail
                      ++ " minred=" ++ showQ (minRed n m C u v))
        | _, _, _, _, _, _, _ => some "bad-op"
      | _ => some "bad-op"
    | _, _ => some "bad-op"
  | "certify" :: _ => some "bad-op"
  | _ => none

end Pynn.Drv
