import PynnVerif.Model.Connect
import PynnVerif.Driver.Util
/-!
Driver commands of the C20 area (stateless):

* `rng-int s0 s1 s2 count`    → `i_1 … i_count | s0' s1' s2'`  (`tau_rand_int` stream and the state afterwards)
* `rng-float s0 s1 s2 count`  → `b_1 … b_count | s0' s1' s2'`  (`tau_rand`, float32 bit patterns)
* `rejsample n_samples pool_size s0 s1 s2` → `j_1 … j_n | s0' s1' s2'`, or `diverged` when 10^6 draws did not suffice

* `altloop <fuel> | idx0… | idx1… | round | round | …` — the loop of `find_component_connection_edge` (with its cycle
  guard) replayed over a recorded search table; a round is
  `side ; queries… ; candidates… ; ncols ; inds (row-major, one row per query) ; dists (float32 bits, row-major)`
  (the search result after `deheap_sort`).  The model's search is the table lookup on (side, queries, candidates).
  → `rounds fired | side idx0… ; idx1… ; ch0 ch1 | … (one key per search performed) | a b dist` or `missing <round>`
  when the model asks for a search the table does not contain, `running` when `fuel` searches did not suffice.

State words are `int64` values (any decimal integer is reduced like `astype(int64)`).
-/
namespace Pynn.Drv
open Pynn Pynn.Connect

def showState (s : RngState) : String :=
  showInts [s.s0.toInt, s.s1.toInt, s.s2.toInt]

/-- `count` successive outputs of `f`, oldest first, and the final state -/
def iterRng {α : Type} (f : RngState → α × RngState) : Nat → RngState → List α → List α × RngState
  | 0, s, acc => (acc.reverse, s)
  | n + 1, s, acc => let r := f s; iterRng f n r.2 (r.1 :: acc)

def rejFuel : Nat := 1000000

structure Round where
  side : Bool
  q : List Nat
  c : List Nat
  rows : List (List (Int × F))      -- one sorted result row per query point

def chunks {α : Type} (n : Nat) : Nat → List α → List (List α)
  | 0, _ => []
  | fuel + 1, l => if l.isEmpty || n = 0 then [] else l.take n :: chunks n fuel (l.drop n)

def pRound (sec : List String) : Option Round :=
  match splitAt ";" sec with
  | [[sd], q, c, [nc], inds, dists] =>
    if !(sd == "0" || sd == "1") || !allNats q || !allNats c || !allNats [nc] || !allInts inds || !allNats dists then none else
    let nc := pNat nc
    if inds.length ≠ q.length * nc || dists.length ≠ inds.length || nc = 0 then none else
    let cells := (inds.map pInt).zip (dists.map pF)
    some ⟨sd == "1", q.map pNat, c.map pNat, chunks nc q.length cells⟩
  | _ => none

def firstCol (r : Round) : List Nat := r.rows.map (fun row => match row with | (v, _) :: _ => v.toNat | [] => 0)

def lookupRound (tab : List Round) (side : Bool) (q c : List Nat) : Option Round :=
  tab.find? (fun r => r.side == side && r.q == q && r.c == c)

def tableSearch (tab : List Round) : Bool → List Nat → List Nat → List Nat := fun side q c =>
  match lookupRound tab side q c with
  | some r => firstCol r
  | none => []

def keyQC (k : AltKey) : Bool × List Nat × List Nat :=
  if k.1.side = false then (false, k.1.idx0, k.1.idx1) else (true, k.1.idx1, k.1.idx0)

/-- the keys at the top of the `r` iterations performed -/
def keyPath (srch : Bool → List Nat → List Nat → List Nat) : Nat → AltKey → List AltKey
  | 0, _ => []
  | r + 1, k => k :: keyPath srch r (altKeyStep srch k)

def showKey (k : AltKey) : String :=
  (if k.1.side then "1 " else "0 ") ++ showNats k.1.idx0 ++ " ; " ++ showNats k.1.idx1 ++ " ; " ++
    (if k.1.ch0 then "1" else "0") ++ " " ++ (if k.1.ch1 then "1" else "0")

def handleConnect : Handler
  | ["rng-int", a, b, c, n] =>
    if !allInts [a, b, c] || n.toNat?.isNone then some "bad-op" else
    let (xs, s) := iterRng tauRandInt (pNat n) (RngState.ofInts (pInt a) (pInt b) (pInt c)) []
    some (showInts xs ++ " | " ++ showState s)
  | ["rng-float", a, b, c, n] =>
    if !allInts [a, b, c] || n.toNat?.isNone then some "bad-op" else
    let (xs, s) := iterRng tauRand (pNat n) (RngState.ofInts (pInt a) (pInt b) (pInt c)) []
    some (showFs xs ++ " | " ++ showState s)
  | ["rejsample", ns, pool, a, b, c] =>
    if !allInts [a, b, c] || ns.toNat?.isNone || pool.toNat?.isNone || pNat pool = 0 then some "bad-op" else
    match rejectionSampleRng (pNat ns) (pNat pool) rejFuel (RngState.ofInts (pInt a) (pInt b) (pInt c)) with
    | none => some "diverged"
    | some (out, s) => some (showNats out ++ " | " ++ showState s)
  | "altloop" :: rest =>
    match splitAt "|" rest with
    | [fuel] :: i0 :: i1 :: rounds =>
      if !allNats [fuel] || !allNats i0 || !allNats i1 || i0.isEmpty || i1.isEmpty then some "bad-op" else
      match rounds.mapM pRound with
      | none => some "bad-op"
      | some tab =>
        let srch := tableSearch tab
        let idx0 := i0.map pNat
        let idx1 := i1.map pNat
        match altLoopSeen srch (pNat fuel) idx0 idx1 with
        | none => some "running"
        | some (_, fired, r) =>
          let path := keyPath srch r (⟨idx0, idx1, false, true, true⟩, true, true)
          let looked := path.map (fun k => let t := keyQC k; lookupRound tab t.1 t.2.1 t.2.2)
          match looked.findIdx? (·.isNone) with
          | some i => some ("missing " ++ toString i)
          | none =>
            let b0 : Best F := ⟨finf, (idx0.headD 0 : Nat), (idx1.headD 0 : Nat)⟩
            let best := (path.zip looked).foldl (fun b kr =>
              match kr.2 with
              | some rd => bestRound ((keyQC kr.1).2.1.map (fun (x : Nat) => (x : Int)) |>.zip rd.rows) b
              | none => b) b0
            some (toString r ++ " " ++ (if fired then "1" else "0") ++ " | " ++ " | ".intercalate (path.map showKey) ++
                  " | " ++ toString best.a ++ " " ++ toString best.b ++ " " ++ showF best.dist)
    | _ => some "bad-op"
  | "rng-int" :: _ => some "bad-op"
  | "rng-float" :: _ => some "bad-op"
  | "rejsample" :: _ => some "bad-op"
  | _ => none

end Pynn.Drv
