import PynnVerif.Model.Connect
import PynnVerif.Driver.Util
/-!
Driver commands of the C20 area (stateless):

* `rng-int s0 s1 s2 count`    → `i_1 … i_count | s0' s1' s2'`  (`tau_rand_int` stream and the state afterwards)
* `rng-float s0 s1 s2 count`  → `b_1 … b_count | s0' s1' s2'`  (`tau_rand`, float32 bit patterns)
* `rejsample n_samples pool_size s0 s1 s2` → `j_1 … j_n | s0' s1' s2'`, or `diverged` when 10^6 draws did not suffice

State words are `int64` values (any decimal integer is reduced like `astype(int64)`).
-/
namespace Pynn.Drv
open Pynn Pynn.Connect

def showState (s : RngState) : String :=
  showInts [s.s0.toInt, s.s1.toInt, s.s2.toInt]

/-- `count` successive outputs of `f`, oldest first, and the final state -/
def iterRng {α : Type} (f : RngState → α × RngState) : Nat → RngState → List α → List α × RngState
  | 0, s, acc => (acc.reverse, s)
  | n + 1, s, acc => let r := f s; iterRng f n r.2 (r.1 :: acc)

def rejFuel : Nat := 1000000

def handleConnect : Handler
  | ["rng-int", a, b, c, n] =>
    if !allInts [a, b, c] || n.toNat?.isNone then some "bad-op" else
    let (xs, s) := iterRng tauRandInt (pNat n) (RngState.ofInts (pInt a) (pInt b) (pInt c)) []
    some (showInts xs ++ " | " ++ showState s)
  | ["rng-float", a, b, c, n] =>
    if !allInts [a, b, c] || n.toNat?.isNone then some "bad-op" else
    let (xs, s) := iterRng tauRand (pNat n) (RngState.ofInts (pInt a) (pInt b) (pInt c)) []
    some (showFs xs ++ " | " ++ showState s)
  | ["rejsample", ns, pool, a, b, c] =>
    if !allInts [a, b, c] || ns.toNat?.isNone || pool.toNat?.isNone || pNat pool = 0 then some "bad-op" else
    match rejectionSampleRng (pNat ns) (pNat pool) rejFuel (RngState.ofInts (pInt a) (pInt b) (pInt c)) with
    | none => some "diverged"
    | some (out, s) => some (showNats out ++ " | " ++ showState s)
  | "rng-int" :: _ => some "bad-op"
  | "rng-float" :: _ => some "bad-op"
  | "rejsample" :: _ => some "bad-op"
  | _ => none

end Pynn.Drv
