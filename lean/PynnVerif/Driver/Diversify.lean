import PynnVerif.Model.Diversify
import PynnVerif.Driver.Util
/-!
Driver commands of the search-graph model (C15, C16).  Sections are separated by `|`.
Edge lengths and `eps` are float32 bit patterns (decimal `UInt32`).  A distance table is `npts`
followed by `npts*npts` **float64** bit patterns (decimal `UInt64`), `table[a*npts+b] =
dist(data[a], data[b])` exactly as the metric kernel returns it: several metrics return float64
(`euclidean`, `correlation`, …) and numba compares that `d` with the float32 length after widening,
so the model runs over `Float` (binary64), into which every float32 embeds exactly; lengths are
printed as float32 bit patterns again.  A negative point number wraps as numba's `data[-1]` does.

* `div-list <eps> <p1|p0|d> | idx… | len… | npts table… [| draw bits…]`
    → `new idx (padded -1) ; new len (padded inf) ; keep flag per stored position`
* `div-csr  <eps> <p1|p0|d> | idx… | len… | order… | npts table… [| draw bits…]`
    → `keep flag per storage position ; data after the write-back (0 where not retained)`
* `prune <m> | len…`                     → the row after `degree_prune_internal` (zeros written)
* `searchgraph <fwd|snd|uni|w|edges> <m> <n> <k> <eps> [p1|p0|d] | idx (n*k) | len (n*k) | n table…
     [| draw bits of the forward pass (n*B) | draw bits of the second pass (n*B)]`
    → rows separated by `|`; entries `col:len` (stage `edges`: `col`), columns ascending
  (second pass visits in *stable* argsort order: meant for tie-free rows).
  No mode token = `p1` (`diversify_prob = 1`); `p0` = no test ever prunes; with `d` the two trailing
  sections carry, row after row, the `B` recorded outcomes of row `u`'s private generator
  (`rng_state + u`; bits `u*B … u*B+B-1`), `B ≥ k*k` and the same for every row (`B` = section
  length / `n`); both sections are required (in the code both passes restart the same stream, so
  the harness sends the same section twice).

With `d` the recorded outcomes of `tau_rand(..) < prune_probability` are consumed in order; at least
`K*K` of them must be supplied (a row of `K` entries performs fewer than `K*K/2` tests).
-/
/-! helpers live in their own namespace so that they cannot collide with other handlers' -/
namespace Pynn.Drv.Dv
open Pynn.Div Pynn.Drv

abbrev D := Float
def fzero : D := 0.0
def dinf : D := finf.toFloat
/-- float32 bit pattern → binary64 (exact) -/
def pL (s : String) : D := (pF s).toFloat
/-- float64 bit pattern -/
def pD (s : String) : D := Float.ofBits (UInt64.ofNat (pNat s))
/-- print a length as float32 bit pattern (exact for every value the model moves around) -/
def showL (x : D) : String := showF x.toFloat32
def showLs (l : List D) : String := " ".intercalate (l.map showL)

/-- parse a table section into a total `dist` (or fail) -/
def pTable (sec : List String) : Option (Nat × (Int → Int → D)) :=
  match sec with
  | [] => none
  | n :: rest =>
    if !allInts (n :: rest) then none else
    let n := pNat n
    if n = 0 || rest.length ≠ n * n then none else
    let t : Array D := (rest.map pD).toArray
    let wrap (a : Int) : Nat := (if a < 0 then a + n else a).toNat
    some (n, fun a b => t.getD (wrap a * n + wrap b) dinf)

def pDraw (mode : String) (K : Nat) (extra : List (List String)) : Option (Nat → Bool) :=
  match mode, extra with
  | "p1", [] => some (fun _ => true)
  | "p0", [] => some (fun _ => false)
  | "d", [bits] =>
    if !allInts bits || bits.length < K * K || !bits.all (fun b => b == "0" || b == "1") then none else
    let a : Array Bool := (bits.map (· == "1")).toArray
    some (fun c => a.getD c false)
  | _, _ => none

/-- per-row draw streams of one pass of `searchgraph`: `n` rows of `B ≥ k*k` recorded bits each -/
def pDraws (n k : Nat) (bits : List String) : Option (Nat → Nat → Bool) :=
  if n = 0 then none else
  let B := bits.length / n
  if bits.length ≠ n * B || B < k * k || !bits.all (fun b => b == "0" || b == "1") then none else
  let a : Array Bool := (bits.map (· == "1")).toArray
  some (fun u c => if c < B then a.getD (u * B + c) false else false)

/-- the draw functions of both passes of `searchgraph` from the optional mode token and the trailing sections -/
def pDraws2 (n k : Nat) (mode : List String) (extra : List (List String)) :
    Option ((Nat → Nat → Bool) × (Nat → Nat → Bool)) :=
  match mode, extra with
  | [], [] => some (fun _ _ => true, fun _ _ => true)
  | ["p1"], [] => some (fun _ _ => true, fun _ _ => true)
  | ["p0"], [] => some (fun _ _ => false, fun _ _ => false)
  | ["d"], [b1, b2] =>
    match pDraws n k b1, pDraws n k b2 with
    | some d1, some d2 => some (d1, d2)
    | _, _ => none
  | _, _ => none

def inRange (n : Nat) (is : List Int) : Bool := is.all (fun i => decide (-(n : Int) ≤ i ∧ i < n))

def showFlags (l : List Bool) : String := " ".intercalate (l.map (fun b => if b then "1" else "0"))

def showRowW (r : List (Ent D)) : String :=
  " ".intercalate (r.map (fun e => toString e.1 ++ ":" ++ showL e.2))

end Pynn.Drv.Dv

namespace Pynn.Drv
open Pynn.Div Pynn.Drv.Dv

def handleDiversify : Handler := fun toks =>
  match splitAt "|" toks with
  | ["div-list", eps, mode] :: is :: ls :: tab :: extra =>
    if !allInts (eps :: is ++ ls) || is.length ≠ ls.length then some "bad-op" else
    match pTable tab, pDraw mode is.length extra with
    | some (n, dist), some draw =>
      let is' := is.map pInt
      if !inRange n is' then some "bad-op" else
      let row : List (Ent D) := is'.zip (ls.map pL)
      let out := diversifyRow dinf (pL eps) dist draw row
      let fl := (diversifyList (pL eps) dist draw row).2
      some (showInts (out.map (·.1)) ++ " ; " ++ showLs (out.map (·.2)) ++ " ; " ++ showFlags fl)
    | _, _ => some "bad-op"
  | ["div-csr", eps, mode] :: is :: ls :: ord :: tab :: extra =>
    if !allInts (eps :: is ++ ls ++ ord) || is.length ≠ ls.length then some "bad-op" else
    match pTable tab, pDraw mode is.length extra with
    | some (n, dist), some draw =>
      let is' := is.map pInt
      let order := ord.map pNat
      if !inRange n is' || !order.all (· < is.length) || !ord.all (fun t => t.toNat?.isSome) then some "bad-op" else
      let row : List (Ent D) := is'.zip (ls.map pL)
      let fl := csrFlags (pL eps) dist draw row order
      let data := (row.zip fl).map (fun ef => if ef.2 then ef.1.2 else fzero)
      some (showFlags fl ++ " ; " ++ showLs data)
    | _, _ => some "bad-op"
  | ["prune", m] :: [ls] =>
    if !allInts ls || m.toNat?.isNone then some "bad-op" else
    let row : List (Ent D) := ls.map (fun l => ((0 : Int), pL l))
    some (showLs ((degreePrune fzero (pNat m) row).map (·.2)))
  | ("searchgraph" :: stage :: m :: n :: k :: eps :: mode) :: is :: ls :: tab :: extra =>
    if !allInts (eps :: is ++ ls) || [m, n, k].any (fun t => t.toNat?.isNone) then some "bad-op" else
    let n := pNat n; let k := pNat k; let m := pNat m
    if is.length ≠ n * k || ls.length ≠ n * k || k = 0 then some "bad-op" else
    match pTable tab, pDraws2 n k mode extra with
    | some (n', dist), some (d1, d2) =>
      let is' := is.map pInt
      if n' ≠ n || !is'.all (fun i => decide (-1 ≤ i ∧ i < n)) then some "bad-op" else
      let ents : Array (Ent D) := (is'.zip (ls.map pL)).toArray
      let N : List (List (Ent D)) := (List.range n).map (fun u => (ents.extract (u * k) (u * k + k)).toList)
      let e := pL eps
      let rows (g : Graph D) := some (" | ".intercalate ((List.range n).map (fun u => showRowW (g.row u))))
      match stage with
      | "fwd" => rows (fwdRowsD fzero e dinf dist N d1)
      | "snd" => rows (sndRowsD fzero e dinf dist stableArgsort N d1 d2)
      | "uni" => rows (uniRowsD fzero e dinf dist stableArgsort N d1 d2)
      | "w" => rows (finalRowsD fzero e dinf dist stableArgsort m N d1 d2)
      | "edges" =>
        let g := finalRowsD fzero e dinf dist stableArgsort m N d1 d2
        some (" | ".intercalate ((List.range n).map (fun u => showInts ((g.row u).map (·.1)))))
      | _ => some "bad-op"
    | _, _ => some "bad-op"
  | (cmd :: _) :: _ =>
    if cmd == "div-list" || cmd == "div-csr" || cmd == "prune" || cmd == "searchgraph" then some "bad-op" else none
  | _ => none

end Pynn.Drv
