import PynnVerif.Model.Metrics
import PynnVerif.Driver.Util
/-!
Driver commands for the dense metric model (`Model/Metrics.lean`) executed over `Float` (float64).
Values travel as the decimal `UInt64` of their float64 bit pattern (`Float.ofBits` / `toBits`).

```
metric <name> | x… | y… [| extra…]   ->  value          (extra: `p` for minkowski)
corr <name> | v…                      ->  value…         (the correction applied to every v)
```
`<name>` is the kernel's `__name__` in `pynndescent/distances.py` (`squared_euclidean`,
`bray_curtis`, `alternative_cosine`, …) resp. the correction's (`correct_alternative_cosine`,
`true_angular_from_alt_cosine`, `correct_alternative_hellinger`, `correct_alternative_jaccard`,
`sparse_correct_alternative_cosine`, `sparse_correct_alternative_hellinger`).  Unknown names,
non-numeric tokens, vectors of different lengths and missing / superfluous extra arguments are
rejected with `bad-op`.
-/
namespace Pynn.Drv
open Pynn.Metrics

def parseF64 (s : String) : Option Float :=
  match s.toNat? with
  | some n => if n < 2 ^ 64 then some (Float.ofBits (UInt64.ofNat n)) else none
  | none => none

def parseF64s (ts : List String) : Option (List Float) := ts.mapM parseF64

def showF64 (x : Float) : String := toString x.toBits.toNat

/-- kernels of two vectors -/
def metric2 (name : String) : Option (List Float → List Float → Float) :=
  match name with
  | "euclidean" => some euclidean
  | "squared_euclidean" => some squaredEuclidean
  | "manhattan" => some manhattan
  | "chebyshev" => some chebyshev
  | "cosine" => some cosine
  | "alternative_cosine" => some alternativeCosine
  | "dot" => some dot
  | "alternative_dot" => some alternativeDot
  | "true_angular" => some trueAngular
  | "correlation" => some correlation
  | "hellinger" => some hellinger
  | "alternative_hellinger" => some alternativeHellinger
  | "canberra" => some canberra
  | "bray_curtis" => some brayCurtis
  | "hamming" => some hamming
  | "jaccard" => some jaccard
  | "alternative_jaccard" => some alternativeJaccard
  | "matching" => some matching
  | "dice" => some dice
  | "kulsinski" => some kulsinski
  | "rogers_tanimoto" => some rogersTanimoto
  | "sokal_michener" => some rogersTanimoto
  | "sokal_sneath" => some sokalSneath
  | "russellrao" => some russellrao
  | "yule" => some yule
  | _ => none

def correction (name : String) : Option (Float → Float) :=
  match name with
  | "correct_alternative_cosine" => some correctAlternativeCosine
  | "true_angular_from_alt_cosine" => some trueAngularFromAltCosine
  | "correct_alternative_hellinger" => some correctAlternativeHellinger
  | "correct_alternative_jaccard" => some correctAlternativeJaccard
  | "sparse_correct_alternative_cosine" => some sparseCorrectAlternativeCosine
  | "sparse_correct_alternative_hellinger" => some sparseCorrectAlternativeHellinger
  | "sqrt" => some Float.sqrt
  | _ => none

def handleMetrics : Handler := fun toks =>
  match toks with
  | "metric" :: name :: "|" :: rest =>
    match (splitAt "|" rest).mapM parseF64s with
    | none => some "bad-op"
    | some parts =>
      match name, parts with
      | "minkowski", [x, y, [p]] =>
        if x.length ≠ y.length then some "bad-op" else some (showF64 (minkowski x y p))
      | _, [x, y] =>
        if x.length ≠ y.length then some "bad-op" else
        match metric2 name with
        | some f => some (showF64 (f x y))
        | none => some "bad-op"
      | _, _ => some "bad-op"
  | "metric" :: _ => some "bad-op"
  | "corr" :: name :: "|" :: rest =>
    match correction name, parseF64s rest with
    | some f, some vs => some (" ".intercalate (vs.map (fun v => showF64 (f v))))
    | _, _ => some "bad-op"
  | "corr" :: _ => some "bad-op"
  | _ => none

end Pynn.Drv
