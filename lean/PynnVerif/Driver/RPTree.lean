import PynnVerif.Model.RPTree
import PynnVerif.Driver.Util
import Std.Data.HashMap
/-!
# Driver commands for the random-projection tree model (C14)

Tree encoding (pre-order token list): `N` = inner node (followed by its left then right subtree),
`L k i₁ … i_k` = leaf holding `k` point ids.

* `rpconvert <data_size> | <tree>` → `children.ravel() | indices | node_num leaf_start`
  (`convert_tree_format`'s arrays and the pair returned by the root `recursive_convert` call)
* `rproute <n|s> <fuel> | children.ravel() | sides` → `node start end` or `none`
  (`n`: one 0/1 side per node, `s`: one per loop iteration; a decision list that is too short
  for the walk is rejected, not defaulted)
* `rplin | <tree>` → `children.ravel() | point_indices[0] | point_indices[1] | …` (post-order linked form)
* `rpleaves <leaf_size> | <tree>` → `width | row | row | …` (`rptree_leaf_array` of the one tree)
* `rpbuild <leaf_size> <max_depth> <n> | <path> <bits> | …` → `<tree>` (`make_*_tree` on `arange(n)`,
  the final `side` array of the split at `<path>` — `-` = root, `0`/`1` = left/right call — given
  as a 0/1 string; every split the model performs must be listed)
-/
namespace Pynn.Drv
open Pynn.RP

def parseTree : Nat → List String → Option (Tree × List String)
  | 0, _ => none
  | f + 1, "N" :: rest => do
    let (l, r1) ← parseTree f rest
    let (r, r2) ← parseTree f r1
    pure (.node l r, r2)
  | _ + 1, "L" :: k :: rest =>
    match k.toNat? with
    | some k =>
      if rest.length < k then none else
      let xs := rest.take k
      if allInts xs then some (.leaf (xs.map pInt), rest.drop k) else none
    | none => none
  | _, _ => none

/-- the whole token list must be exactly one tree -/
def parseWholeTree (toks : List String) : Option Tree :=
  match parseTree (toks.length + 1) toks with
  | some (t, []) => some t
  | _ => none

def showTree : Tree → List String
  | .leaf idx => "L" :: toString idx.length :: idx.map toString
  | .node l r => "N" :: (showTree l ++ showTree r)

def ravel (c0 c1 : List Int) : List Int := (c0.zip c1).flatMap (fun p => [p.1, p.2])

/-- `children.ravel()` back into the two columns; `none` on odd length -/
def unravel : List Int → Option (List Int × List Int)
  | [] => some ([], [])
  | a :: b :: rest => (unravel rest).map (fun p => (a :: p.1, b :: p.2))
  | [_] => none

def bar (parts : List String) : String := " | ".intercalate parts

def parseBits (s : String) : Option (List Bool) :=
  s.toList.mapM (fun c => if c == '0' then some false else if c == '1' then some true else none)

def parsePath (s : String) : Option (List Bool) :=
  if s == "-" then some [] else parseBits s

/-- every inner node of the built tree must have had its sides listed, one per point it received -/
def pathsCovered (table : Std.HashMap (List Bool) (Array Bool)) : Tree → List Bool → Bool
  | .leaf _, _ => true
  | .node l r, path => (match table[path]? with
      | some bits => bits.size == l.size + r.size
      | none => false) &&
      pathsCovered table l (path ++ [false]) && pathsCovered table r (path ++ [true])

def handleRPTree : Handler := fun toks =>
  match toks with
  | "rpconvert" :: rest =>
    match splitAt "|" rest with
    | [[n], tt] =>
      match n.toNat?, parseWholeTree tt with
      | some n, some t =>
        let k := t.numNodes
        let R := recursiveConvert t ⟨Array.replicate k (-1), Array.replicate k (-1), Array.replicate n (-1)⟩ 0 0
        some (bar [showInts (ravel R.1.ch0.toList R.1.ch1.toList), showInts R.1.indices.toList,
                   showNats [R.2.1, R.2.2]])
      | _, _ => some "bad-op"
    | _ => some "bad-op"
  | "rproute" :: rest =>
    match splitAt "|" rest with
    | [[mode, fuel], ch, sd] =>
      if !(mode == "n" || mode == "s") || !allInts ch || !allInts sd || fuel.toNat?.isNone
          || !(sd.all (fun s => s == "0" || s == "1")) then some "bad-op" else
      match unravel (ch.map pInt) with
      | none => some "bad-op"
      | some (c0, c1) =>
        let sides := sd.map (· == "1")
        let side (dflt : Bool) : Nat → Nat → Bool := fun step node =>
          sides.getD (if mode == "n" then node else step) dflt
        let r1 := route c0.toArray c1.toArray (side false) (pNat fuel) 0 0
        let r2 := route c0.toArray c1.toArray (side true) (pNat fuel) 0 0
        if r1 != r2 then some "bad-op" else
        match r1 with
        | some (node, a, b) => some (showInts [node, a, b])
        | none => some "none"
    | _ => some "bad-op"
  | "rplin" :: rest =>
    match splitAt "|" rest with
    | [[], tt] =>
      match parseWholeTree tt with
      | some t =>
        let L := linearize t {}
        some (bar (showInts (ravel (L.children.toList.map (·.1)) (L.children.toList.map (·.2))) ::
                   L.indices.toList.map showInts))
      | none => some "bad-op"
    | _ => some "bad-op"
  | "rpleaves" :: rest =>
    match splitAt "|" rest with
    | [[ls], tt] =>
      match ls.toNat?, parseWholeTree tt with
      | some ls, some t =>
        let A := leafArray t ls
        some (bar (toString (treeLeafSize (linearize t {}) ls) :: A.toList.map (fun r => showInts r.toList)))
      | _, _ => some "bad-op"
    | _ => some "bad-op"
  | "rpbuild" :: rest =>
    match splitAt "|" rest with
    | [ls, md, n] :: entries =>
      match ls.toNat?, md.toInt?, n.toNat? with
      | some ls, some md, some n =>
        let parsed := entries.mapM (fun e => match e with
          | [p, b] => (parsePath p).bind (fun p => (parseBits b).map (fun b => (p, b)))
          | _ => none)
        match parsed with
        | none => some "bad-op"
        | some entries =>
          let table : Std.HashMap (List Bool) (Array Bool) :=
            entries.foldl (fun m e => m.insert e.1 e.2.toArray) {}
          -- the table is consulted once per split (the closure over `bits` is what `sides` evaluates per point)
          let look (path : List Bool) (_ : List Int) : Nat → Bool :=
            match table[path]? with
            | some bits => fun i => bits.getD i false
            | none => fun _ => false
          let t := makeTree ⟨look, look⟩ ls md n
          if table.size == entries.length && pathsCovered table t [] then some (" ".intercalate (showTree t))
          else some "bad-oracle"
      | _, _, _ => some "bad-op"
    | _ => some "bad-op"
  | _ => none

end Pynn.Drv
