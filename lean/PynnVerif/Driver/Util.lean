/-! Parsing / printing helpers shared by the driver's command handlers (Mathlib-free). -/
namespace Pynn.Drv

abbrev F := Float32
def finf : F := Float32.ofBits 0x7f800000

def pInt (s : String) : Int := s.toInt?.getD 0
def pNat (s : String) : Nat := s.toNat?.getD 0
/-- float32 values travel as their bit patterns (decimal `UInt32`) -/
def pF (s : String) : F := Float32.ofBits (UInt32.ofNat (pNat s))
def showF (x : F) : String := toString x.toBits.toNat
def allInts (toks : List String) : Bool := toks.all (fun t => t.toInt?.isSome)
def allNats (toks : List String) : Bool := toks.all (fun t => t.toNat?.isSome)
def showInts (l : List Int) : String := " ".intercalate (l.map toString)
def showNats (l : List Nat) : String := " ".intercalate (l.map toString)
def showFs (l : List F) : String := " ".intercalate (l.map showF)

/-- split a token list at every occurrence of `sep` -/
def splitAt (sep : String) (toks : List String) : List (List String) :=
  let rec go (acc : List String) (out : List (List String)) : List String → List (List String)
    | [] => (acc.reverse :: out).reverse
    | t :: ts => if t == sep then go [] (acc.reverse :: out) ts else go (t :: acc) out ts
  go [] [] toks

/-- A stateless command handler: `none` = not my command. -/
abbrev Handler := List String → Option String

end Pynn.Drv
