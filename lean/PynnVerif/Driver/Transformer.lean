import PynnVerif.Model.Transformer
import PynnVerif.Driver.Util
/-! Driver command: `xform k | inds… | dist bits…` (row-major, `k` columns) → the CSR triples
`row col bits` in canonical order.  Duplicate coordinates are summed in Float32, as scipy does
for a float32 matrix. -/
namespace Pynn.Drv
open Pynn.Xf

instance : Add F := ⟨fun a b => a + b⟩

def handleTransformer : Handler := fun toks =>
  match splitAt "|" toks with
  | [["xform", k], is, ds] =>
    let k := pNat k
    if k = 0 || !allInts is || !allInts ds || is.length ≠ ds.length || is.length % k ≠ 0 then some "bad-op" else
    let rows := is.length / k
    let inds := (List.range rows).map (fun r => ((is.drop (r*k)).take k).map pInt)
    let dists := (List.range rows).map (fun r => ((ds.drop (r*k)).take k).map pF)
    let out := transform inds dists
    some (" ".intercalate (out.map (fun e => toString e.1 ++ " " ++ toString e.2.1 ++ " " ++ showF e.2.2)))
  | _ => none

end Pynn.Drv
