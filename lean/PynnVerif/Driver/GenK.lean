import PynnVerif.Gen.Kernels
import PynnVerif.Driver.Util
/-!
Driver commands that execute the **generated** kernels of `Gen/Kernels.lean` (the output of
`harness/translate_kernels.py`), so that the translator itself is validated by execution against the
real numba kernels on every run (`harness/c11.py`: a disagreement means the translator mistranslates).
Stateless: every command carries the arrays.  Priorities are float32 bit patterns; fuel = size + 2.

```
gk_push s|c|f <k> <k priorities> <k indices> <k flags> <p> <n> <f>   ->  <0|1> | prios ; idxs ; flags   | oob
gk_siftdown <k> <k priorities> <k indices> <elt>                     ->  prios ; idxs                   | oob
gk_deheap <n> <k> <n*k priorities> <n*k indices>                     ->  prios (row-major) ; idxs       | oob
```
gk_apply <T> <n> <k> | <n*k prios> | <n*k idxs> | <n*k flags> | p q dbits … | starts …   ->  <changes> | prios | idxs | flags   | oob
gk_apply_high <n> <k> | <n*k prios> | <n*k idxs> | <n*k flags> | p q dbits … | starts …  ->  <changes> | prios | idxs | flags | record   | oob
(`gk_apply_high` runs the translated `apply_graph_updates_high_memory` from the record `in_graph[i] = set(indices[i])` that
`nn_descent` builds; `record` = the final sets, each printed sorted and de-duplicated, rows separated by `,`.)
gk_initnbr <n> <k> <m> <w> | <m*w idxs> | <m*w dist bits>   ->  prios | idxs | flags   | oob
(`gk_initnbr` runs the translated `init_from_neighbor_graph` on `make_heap(n, k)`'s arrays, fuel = m + w + k + 4.)
gk_visited <m> <m bytes> <c>   ->  0|1 (the translated `has_been_visited` answered zero / non-zero)   | oob
gk_mark <m> <m bytes> <c>      ->  bytes after the translated `mark_visited`                       | oob
gk_leafupd <m> <w> <N> <dim> | <m*w leaf entries> | <N threshold bits> | <N*dim data bits>   ->  rows of `p q dbits …` separated by `,`   | oob
(`gk_leafupd` runs the translated `generate_leaf_updates` with `dist` = squared euclidean evaluated in float32 in index order —
the harness feeds integer-valued data, on which numba's fastmath kernel is exact; fuel = m + 2w + 4; each row starts with the
placeholder `-1 -1 <inf bits>`.)
gk_graphupd <m> <w> <N> <dim> | <m*w new candidates> | <m*w old candidates> | <N threshold bits> | <N*dim data bits>   ->  as gk_leafupd   | oob
(`gk_graphupd` runs the translated `generate_graph_updates`, same `dist`, fuel = m + 2w + 5.)
(`gk_apply` runs the translated `apply_graph_updates_low_memory` with fuel = T + blocks + updates + k + 8; `starts` cuts the
update triples into the per-block lists, each of which begins with the `(-1, -1, inf)` placeholder as in `nn_descent`.)
(`gk_deheap` runs the translated 2-D `deheap_sort` with fuel = n + k + 2 and also checks that the two array pairs it
returns are the same, as in the Python `return indices, distances` after the in-place work.)
`oob` = the generated kernel answered `none` (a load/store outside an array, or out of fuel).  For the
`s` / `c` variants the flag array is passed through untouched (those kernels have no flag parameter).
-/
namespace Pynn.Drv
open Pynn

def showArrs3 (pr : Array F) (ix fl : Array Int) : String :=
  showFs pr.toList ++ " ; " ++ showInts ix.toList ++ " ; " ++ showInts fl.toList

def rowsOf {α : Type} (n k : Nat) (l : List α) : Array (Array α) :=
  (List.range n).toArray.map (fun r => ((l.drop (r * k)).take k).toArray)

def triples : List String → List (Int × Int × F)
  | p :: q :: d :: rest => (pInt p, pInt q, pF d) :: triples rest
  | _ => []

def handleGenKApply : Handler := fun toks =>
  match splitAt "|" toks with
  | ["gk_apply", t, n, k] :: ps :: is :: fs :: ups :: [starts] =>
    if !allNats [t, n, k] || !allNats ps || !allInts is || !allInts fs || !allInts ups || !allNats starts then some "bad-op" else
    let n := pNat n; let k := pNat k
    if ps.length ≠ n * k || is.length ≠ n * k || fs.length ≠ n * k || ups.length % 3 ≠ 0 || starts.length < 1 then some "bad-op" else
    let D : Array (Array F) := rowsOf n k (ps.map pF)
    let I : Array (Array Int) := rowsOf n k (is.map pInt)
    let Fl : Array (Array Int) := rowsOf n k (fs.map pInt)
    let tr := triples ups
    let st := starts.map pNat
    let blocks : Array (Array (Int × Int × F)) :=
      ((st.zip (st.drop 1)).map (fun (a, b) => (((-1 : Int), (-1 : Int), finf) :: (tr.drop a).take (b - a)).toArray)).toArray
    let fuel := pNat t + blocks.size + tr.length + k + 8
    match GenK.apply_graph_updates_low_memory fuel I D Fl blocks (pNat t : Int) with
    | some (I', D', Fl', c) =>
      some (toString c ++ " | " ++ showFs (D'.toList.flatMap (·.toList)) ++ " | " ++ showInts (I'.toList.flatMap (·.toList))
            ++ " | " ++ showInts (Fl'.toList.flatMap (·.toList)))
    | none => some "oob"
  | ["gk_apply_high", n, k] :: ps :: is :: fs :: ups :: [starts] =>
    if !allNats [n, k] || !allNats ps || !allInts is || !allInts fs || !allInts ups || !allNats starts then some "bad-op" else
    let n := pNat n; let k := pNat k
    if ps.length ≠ n * k || is.length ≠ n * k || fs.length ≠ n * k || ups.length % 3 ≠ 0 || starts.length < 1 then some "bad-op" else
    let D : Array (Array F) := rowsOf n k (ps.map pF)
    let I : Array (Array Int) := rowsOf n k (is.map pInt)
    let Fl : Array (Array Int) := rowsOf n k (fs.map pInt)
    let tr := triples ups
    let st := starts.map pNat
    let blocks : Array (Array (Int × Int × F)) :=
      ((st.zip (st.drop 1)).map (fun (a, b) => (((-1 : Int), (-1 : Int), finf) :: (tr.drop a).take (b - a)).toArray)).toArray
    let rec0 : Array (List Int) := I.map (·.toList)
    let fuel := blocks.size + tr.length + k + 8
    match GenK.apply_graph_updates_high_memory fuel I D Fl blocks rec0 with
    | some (I', D', Fl', s', c) =>
      let showSet := fun (l : List Int) => showInts ((l.toArray.qsort (· < ·)).toList.eraseDups)
      some (toString c ++ " | " ++ showFs (D'.toList.flatMap (·.toList)) ++ " | " ++ showInts (I'.toList.flatMap (·.toList))
            ++ " | " ++ showInts (Fl'.toList.flatMap (·.toList)) ++ " | " ++ " , ".intercalate (s'.toList.map showSet))
    | none => some "oob"
  | ["gk_initnbr", n, k, m, w] :: is :: [ds] =>
    if !allNats [n, k, m, w] || !allInts is || !allNats ds then some "bad-op" else
    let n := pNat n; let k := pNat k; let m := pNat m; let w := pNat w
    if is.length ≠ m * w || ds.length ≠ m * w then some "bad-op" else
    let D : Array (Array F) := Array.replicate n (Array.replicate k finf)
    let I : Array (Array Int) := Array.replicate n (Array.replicate k (-1))
    let Fl : Array (Array Int) := Array.replicate n (Array.replicate k 0)
    match GenK.init_from_neighbor_graph (m + w + k + 4) I D Fl (rowsOf m w (is.map pInt)) (rowsOf m w (ds.map pF)) with
    | some (I', D', Fl') =>
      some (showFs (D'.toList.flatMap (·.toList)) ++ " | " ++ showInts (I'.toList.flatMap (·.toList))
            ++ " | " ++ showInts (Fl'.toList.flatMap (·.toList)))
    | none => some "oob"
  | ["gk_leafupd", m, w, n, dim] :: lf :: ths :: [ds] =>
    if !allNats [m, w, n, dim] || !allInts lf || !allNats ths || !allNats ds then some "bad-op" else
    let m := pNat m; let w := pNat w; let n := pNat n; let dim := pNat dim
    if lf.length ≠ m * w || ths.length ≠ n || ds.length ≠ n * dim then some "bad-op" else
    let sqe : Array F → Array F → F := fun a b =>
      (List.range (min a.size b.size)).foldl (fun acc i => let d := a[i]! - b[i]!; acc + d * d) (0 : F)
    match GenK.generate_leaf_updates (m + 2 * w + 4) finf (rowsOf m w (lf.map pInt)) ((ths.map pF).toArray)
        (rowsOf n dim (ds.map pF)) sqe with
    | some U => some (" , ".intercalate (U.toList.map (fun row =>
        " ".intercalate (row.toList.map (fun t => toString t.1 ++ " " ++ toString t.2.1 ++ " " ++ showF t.2.2)))))
    | none => some "oob"
  | ["gk_graphupd", m, w, n, dim] :: nw :: od :: ths :: [ds] =>
    if !allNats [m, w, n, dim] || !allInts nw || !allInts od || !allNats ths || !allNats ds then some "bad-op" else
    let m := pNat m; let w := pNat w; let n := pNat n; let dim := pNat dim
    if nw.length ≠ m * w || od.length ≠ m * w || ths.length ≠ n || ds.length ≠ n * dim then some "bad-op" else
    let sqe : Array F → Array F → F := fun a b =>
      (List.range (min a.size b.size)).foldl (fun acc i => let d := a[i]! - b[i]!; acc + d * d) (0 : F)
    match GenK.generate_graph_updates (m + 2 * w + 5) finf (rowsOf m w (nw.map pInt)) (rowsOf m w (od.map pInt))
        ((ths.map pF).toArray) (rowsOf n dim (ds.map pF)) sqe with
    | some U => some (" , ".intercalate (U.toList.map (fun row =>
        " ".intercalate (row.toList.map (fun t => toString t.1 ++ " " ++ toString t.2.1 ++ " " ++ showF t.2.2)))))
    | none => some "oob"
  | ("gk_graphupd" :: _) :: _ => some "bad-op"
  | ("gk_leafupd" :: _) :: _ => some "bad-op"
  | ("gk_initnbr" :: _) :: _ => some "bad-op"
  | ("gk_apply_high" :: _) :: _ => some "bad-op"
  | ("gk_apply" :: _) :: _ => some "bad-op"
  | _ => none

def handleGenK : Handler
  | "gk_push" :: v :: k :: rest =>
    if !allNats [k] then some "bad-op" else
    let k := pNat k
    if rest.length ≠ 3 * k + 3 || !allInts rest || !allNats (rest.take k) then some "bad-op" else
    let pr : Array F := ((rest.take k).map pF).toArray
    let ix : Array Int := (((rest.drop k).take k).map pInt).toArray
    let fl : Array Int := (((rest.drop (2*k)).take k).map pInt).toArray
    match rest.drop (3*k) with
    | [p, n, f] =>
      if !allNats [p] then some "bad-op" else
      let fuel := k + 2
      match v with
      | "s" =>
        match GenK.simple_heap_push fuel pr ix (pF p) (pInt n) with
        | some (pr', ix', r) => some (toString r ++ " | " ++ showArrs3 pr' ix' fl)
        | none => some "oob"
      | "c" =>
        match GenK.checked_heap_push fuel pr ix (pF p) (pInt n) with
        | some (pr', ix', r) => some (toString r ++ " | " ++ showArrs3 pr' ix' fl)
        | none => some "oob"
      | "f" =>
        match GenK.checked_flagged_heap_push fuel pr ix fl (pF p) (pInt n) (pInt f) with
        | some (pr', ix', fl', r) => some (toString r ++ " | " ++ showArrs3 pr' ix' fl')
        | none => some "oob"
      | _ => some "bad-op"
    | _ => some "bad-op"
  | "gk_siftdown" :: k :: rest =>
    if !allNats [k] then some "bad-op" else
    let k := pNat k
    if rest.length ≠ 2 * k + 1 || !allInts rest || !allNats (rest.take k) then some "bad-op" else
    let pr : Array F := ((rest.take k).map pF).toArray
    let ix : Array Int := (((rest.drop k).take k).map pInt).toArray
    match rest.drop (2*k) with
    | [elt] =>
      match GenK.siftdown (k + 2) pr ix (pInt elt) with
      | some (pr', ix') => some (showFs pr'.toList ++ " ; " ++ showInts ix'.toList)
      | none => some "oob"
    | _ => some "bad-op"
  | "gk_deheap" :: n :: k :: rest =>
    if !allNats [n, k] then some "bad-op" else
    let n := pNat n; let k := pNat k
    if rest.length ≠ 2 * n * k || !allInts rest || !allNats (rest.take (n * k)) then some "bad-op" else
    let ps := (rest.take (n * k)).map pF
    let is := (rest.drop (n * k)).map pInt
    let D : Array (Array F) := (List.range n).toArray.map (fun r => ((ps.drop (r * k)).take k).toArray)
    let I : Array (Array Int) := (List.range n).toArray.map (fun r => ((is.drop (r * k)).take k).toArray)
    match GenK.deheap_sort (n + k + 2) I D with
    | some (I', D', I'', D'') =>
      let flatD := D'.toList.flatMap (·.toList)
      let flatI := I'.toList.flatMap (·.toList)
      if I'' != I' || D''.toList.flatMap (·.toList.map showF) != flatD.map showF then some "result-pairs-differ" else
      some (showFs flatD ++ " ; " ++ showInts flatI)
    | none => some "oob"
  | "gk_visited" :: m :: rest =>
    if !allNats [m] || !allInts rest || rest.length ≠ pNat m + 1 then some "bad-op" else
    let table : Array Int := ((rest.take (pNat m)).map pInt).toArray
    match GenK.has_been_visited 0 table (pInt (rest.getD (pNat m) "0")) with
    | some r => some (if r = 0 then "0" else "1")
    | none => some "oob"
  | "gk_mark" :: m :: rest =>
    if !allNats [m] || !allInts rest || rest.length ≠ pNat m + 1 then some "bad-op" else
    let table : Array Int := ((rest.take (pNat m)).map pInt).toArray
    match GenK.mark_visited 0 table (pInt (rest.getD (pNat m) "0")) with
    | some t => some (showInts t.toList)
    | none => some "oob"
  | "gk_deheap" :: _ => some "bad-op"
  | "gk_push" :: _ => some "bad-op"
  | "gk_siftdown" :: _ => some "bad-op"
  | toks => handleGenKApply toks

end Pynn.Drv
