/-!
# Who owns the bytes: alias model of the data buffers of an `NNDescent` index (C17)

The only state that matters is whether the index's *current data buffer*
(`_raw_data`, or the query / update array being processed) is reachable from an
object the caller still holds.  Each API step is, as written in the code, a
sequence of `alias` (no-copy `check_array` / `np.asarray`), `copy` (`astype`,
fancy / boolean indexing, `vstack`, `ascontiguousarray`, `sorted_indices()`,
`normalize(copy=True)`) and in-place `write`s.  Mathlib-free; executable (the
harness compares `aliasAfter…` with `np.shares_memory`).
-/
namespace Pynn.Alias

inductive DType | f32 | f64 | f16 | i32 | i64 | u8 | bool
deriving DecidableEq, Repr

inductive Layout | c | f | strided
deriving DecidableEq, Repr

/-- class of an array handed in by the caller -/
structure InClass where
  dtype  : DType
  layout : Layout
  sparse : Bool          -- scipy sparse matrix
  csr    : Bool          -- … already in CSR format
  sortedIdx : Bool       -- … with sorted indices
deriving DecidableEq, Repr

inductive MetricClass | plain | dot | bit
deriving DecidableEq, Repr

inductive BufOp
  | alias        -- the current buffer still is the caller's array (or a view of it)
  | copy         -- the current buffer becomes a fresh array owned by the index
  | write        -- bytes of the current buffer are modified in place
deriving DecidableEq, Repr

/-- state: (current buffer reachable from the caller, a caller-reachable buffer was written) -/
def exec (st : Bool × Bool) : BufOp → Bool × Bool
  | .alias => st
  | .copy  => (false, st.2)
  | .write => (st.1, st.2 || st.1)

def run (ops : List BufOp) : Bool × Bool := ops.foldl exec (true, false)

/-- `check_array(data, dtype=want, accept_sparse="csr", order="C")` copies iff a conversion is needed -/
def checkArrayCopies (c : InClass) (want : DType) : Bool :=
  if c.sparse then !(c.csr && c.dtype == want)
  else !(c.dtype == want && c.layout == .c)

/-- `copy_on_normalize` as computed in `__init__` -/
def copyOnNormalize (c : InClass) : Bool :=
  c.dtype == .f32 && (c.sparse || c.layout == .c)

/-- buffer operations of `NNDescent.__init__` on the `data` argument -/
def initOps (c : InClass) (m : MetricClass) : List BufOp :=
  let want := if m == .bit then DType.u8 else DType.f32
  [if checkArrayCopies c want then BufOp.copy else BufOp.alias] ++
  (if c.sparse && !c.sortedIdx then [BufOp.copy] else []) ++            -- data.sorted_indices()
  (if m == .dot then (if copyOnNormalize c then [BufOp.copy, BufOp.write] else [BufOp.write]) else [])

/-- `_init_search_graph`: with a tree the rows are physically re-ordered (fancy indexing: a copy) -/
def prepareOps (treeInit : Bool) : List BufOp := if treeInit then [.copy] else []

/-- `update`: boolean-mask / fancy indexing (always a copy), replacement rows written into that copy,
`vstack` (a copy); the arrays handed to `update` are only read -/
def updateOps : List BufOp := [.copy, .write, .copy]

/-- `query` on the query array: dense `np.asarray(q).astype(…)` always copies; sparse `check_array`
may alias, `sorted_indices()` copies; nothing is written -/
def queryOps (c : InClass) : List BufOp :=
  if c.sparse then [if checkArrayCopies c .f32 then .copy else .alias] ++ (if !c.sortedIdx then [.copy] else [])
  else [.copy]

inductive Step
  | prepare (treeInit : Bool)
  | update
  | compress
  | pickle
deriving Repr

def stepOps : Step → List BufOp
  | .prepare t => prepareOps t
  | .update => updateOps
  | .compress => []
  | .pickle => []

/-- all buffer operations on the constructor's data argument over a history -/
def historyOps (c : InClass) (m : MetricClass) (h : List Step) : List BufOp :=
  initOps c m ++ h.flatMap stepOps

/-- does `_raw_data` still share memory with the caller's array after construction? -/
def aliasAfterInit (c : InClass) (m : MetricClass) : Bool := (run (initOps c m)).1

end Pynn.Alias
